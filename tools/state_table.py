#!/usr/bin/env python3
"""tools/state_table.py: the table of DESIGN.md section 13 from the evidence files of the last run"""
import collections
import glob
import json
import os

HERE = os.path.dirname(os.path.dirname(os.path.abspath(__file__)))
print("| id | proof obligations | discharged | bounded | stand-ins | wall s | main back ends (obligations) |")
print("|----|----|----|----|----|----|----|")
for f in sorted(glob.glob(os.path.join(HERE, "evidence", "C??.json"))):
    d = json.load(open(f))

    def find(o, key):
        if isinstance(o, dict):
            if key in o:
                return o[key]
            for v in o.values():
                r = find(v, key)
                if r is not None:
                    return r
        elif isinstance(o, list):
            for x in o:
                r = find(x, key)
                if r is not None:
                    return r
        return None
    cov = d["coverage"]
    obs = cov.get("obligation_list", [])
    bounded = [o for o in obs if o.get("bounded") and o.get("kind") != "standin"]
    be = sorted(((v.get("obligations", v.get("count", 0)) if isinstance(v, dict) else v, k) for k, v in cov.get("backends", {}).items()), reverse=True)
    print("| %s | %d | %d | %d | %d | %.0f | %s |" % (d["property_id"], cov["obligations"], cov["discharged"], len(bounded), len(cov.get("bounded_standins", [])),
                                               d.get("wall_s", 0.0), ", ".join("%s (%s)" % (k[:48], n) for n, k in be[:4])))
