#!/bin/bash
# tools/confirm_seed.sh <PROP> <variant> <patch> <demo> <notes>
# Confirms a seeded defect in a scratch worktree of /repo's HEAD and files it under /verif/seeded/<PROP><variant>/.
P=$1; V=$2; PATCH=$3; DEMO=$4; NOTES=$5
HERE="$(cd "$(dirname "$0")/.." && pwd)"
export OMP_NUM_THREADS=1 OPENBLAS_NUM_THREADS=1 MKL_NUM_THREADS=1 NUMBA_NUM_THREADS=1
W=/tmp/confirm/$P$V
rm -rf $W; mkdir -p /tmp/confirm
git -C /repo worktree add --detach $W/wt HEAD >/dev/null 2>&1 || exit 3
trap 'git -C /repo worktree remove --force $W/wt >/dev/null 2>&1; rm -rf $W' EXIT
cp $DEMO $W/demo.py
( cd $W/wt && PYTHONPATH=$W/wt timeout 1800 /venv/bin/python $W/demo.py > $W/demo_clean.log 2>&1 ); RC_CLEAN=$?
git -C $W/wt apply $PATCH || { echo "$P$V: PATCH DOES NOT APPLY"; exit 3; }
( cd $W/wt && PYTHONPATH=$W/wt timeout 1800 /venv/bin/python $W/demo.py > $W/demo_patched.log 2>&1 ); RC_PATCHED=$?
( cd $W/wt && PYTHONPATH=$W/wt timeout 3000 /venv/bin/python -m pytest -q -p no:cacheprovider --timeout=900 pyins > $W/tests.log 2>&1 )
TESTS=$(tail -1 $W/tests.log)
mkdir -p $W/ev $W/rp
VERIF_REPO=$W/wt VERIF_EVIDENCE_DIR=$W/ev VERIF_REPLAY_DIR=$W/rp $HERE/check $P > $W/check.log 2>&1; RC_CHECK=$?
D=$HERE/seeded/$P$V
mkdir -p $D
cp $PATCH $D/patch.diff; cp $DEMO $D/demo.py
python3 - "$P" "$V" "$RC_CLEAN" "$RC_PATCHED" "$TESTS" "$RC_CHECK" "$W/check.log" "$NOTES" "$D/meta.json" <<'PY'
import json, sys, re
P, V, rc_clean, rc_patched, tests, rc_check, log, notes, out = sys.argv[1:]
lines = [l.rstrip() for l in open(log)]
viol = [re.sub(r"replay=\S+/rp/", "replay=<scratch>/", l) for l in lines if l.startswith("VIOLATION")]
obl = [l.strip()[:300] for l in lines if l.startswith("  obligation")]
summary = [l for l in lines if re.match(r"^C\d+:", l)]
note_txt = open(notes).read() if notes and notes != "-" else ""
json.dump(dict(
    id=P + V, property=P,
    breaks=note_txt[:1500],
    needs_to_manifest="see `breaks` (the sub-agent's notes: which clause breaks and what it needs in order to manifest)",
    confirmed=dict(
        demo_exit_on_unchanged_tree=int(rc_clean), demo_exit_with_patch=int(rc_patched),
        existing_test_suite_with_patch=tests,
        command_demo="PYTHONPATH=<scratch worktree> /venv/bin/python demo.py",
        command_tests="cd <scratch worktree> && PYTHONPATH=<scratch worktree> /venv/bin/python -m pytest -q -p no:cacheprovider --timeout=900 pyins",
        accepted=(int(rc_clean) == 0 and int(rc_patched) != 0 and "55 passed" in tests and "1 failed" in tests)),
    check=dict(command="VERIF_REPO=<scratch worktree with patch> ./check %s" % P, exit_code=int(rc_check), detected=int(rc_check) == 1,
               violation_lines=viol[:6], failing_obligations=obl[:6], summary=summary[-1:] )), open(out, "w"), indent=1)
print("%s%s: demo clean=%s patched=%s | tests: %s | check exit %s (%d VIOLATION lines)" % (P, V, rc_clean, rc_patched, tests, rc_check, len(viol)))
PY
