#!/bin/sh
# tools/try_seed4.sh <Cxx> ... : own-property check against /tmp/seed4/<Cxx>/out/{h,i}; j (harmless structural refactoring) against own + C19
n=0
for P in "$@"; do
  for v in h i j; do
    [ -f /tmp/seed4/$P/out/$v/patch.diff ] || continue
    ( extra=""; [ $v = j ] && [ $P != C19 ] && extra="C19"
      timeout 1500 /verif/tools/try_patch.sh /tmp/seed4/$P/out/$v/patch.diff $P $extra > /tmp/seed4/$P/out/$v/try.log 2>&1
      echo "$P/$v rc=$? :: $(grep -E '^==' /tmp/seed4/$P/out/$v/try.log | tr '\n' ' ') $(grep -c '^VIOLATION' /tmp/seed4/$P/out/$v/try.log) violations" ) &
    n=$((n+1)); sleep 1
    [ $((n % 9)) -eq 0 ] && wait
  done
done
wait
