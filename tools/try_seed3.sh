#!/bin/sh
# tools/try_seed3.sh <Cxx> ... : own-property check against /tmp/seed3/<Cxx>/out/{e,f}; g (harmless optimisation) against own + C19
n=0
for P in "$@"; do
  for v in e f g; do
    [ -f /tmp/seed3/$P/out/$v/patch.diff ] || continue
    ( extra=""; [ $v = g ] && [ $P != C19 ] && extra="C19"
      timeout 1200 /verif/tools/try_patch.sh /tmp/seed3/$P/out/$v/patch.diff $P $extra > /tmp/seed3/$P/out/$v/try.log 2>&1
      echo "$P/$v rc=$? :: $(grep -E '^==' /tmp/seed3/$P/out/$v/try.log | tr '\n' ' ') $(grep -c '^VIOLATION' /tmp/seed3/$P/out/$v/try.log) violations" ) &
    n=$((n+1)); sleep 1
    [ $((n % 12)) -eq 0 ] && wait
  done
done
wait
