#!/bin/sh
# tools/run_all.sh [tier]: all 19 checks in parallel on /repo (or VERIF_REPO), one summary line each
HERE="$(cd "$(dirname "$0")/.." && pwd)"
TIER="${1:-quick}"
OUT="$(mktemp -d)"
for P in C01 C02 C03 C04 C05 C06 C07 C08 C09 C10 C11 C12 C13 C14 C15 C16 C17 C18 C19; do
  ( "$HERE/check" "$P" --tier "$TIER" > "$OUT/$P" 2>&1; echo "$P rc=$? $(tail -1 "$OUT/$P" | cut -c1-160)" > "$OUT/$P.sum" ) &
done
wait
cat "$OUT"/*.sum
grep -h "^VIOLATION\|^UNDECIDED\|^CHECKER-ERROR" "$OUT"/C?? | cut -c1-200 | head -20
rm -rf "$OUT"
