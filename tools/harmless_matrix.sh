#!/bin/sh
# tools/harmless_matrix.sh [patch ...]: every harmless refactoring against ALL 19 checks; prints the cells that are not exit 0
HERE="$(cd "$(dirname "$0")/.." && pwd)"
OUT="$(mktemp -d)"
ALL="C01 C02 C03 C04 C05 C06 C07 C08 C09 C10 C11 C12 C13 C14 C15 C16 C17 C18 C19"
[ $# -gt 0 ] || set -- "$HERE"/mutants/harmless/*.diff
n=0
for p in "$@"; do
  b="$(basename "$p" .diff)"
  ( VERIF_LINES=3 "$HERE/tools/try_patch.sh" "$p" $ALL > "$OUT/$b.log" 2>&1 ) &
  n=$((n+1)); sleep 1
  [ $((n % 8)) -eq 0 ] && wait
done
wait
bad=0
for f in "$OUT"/*.log; do
  b="$(basename "$f" .log)"
  cells="$(grep -E '^== ' "$f" | grep -v 'exit 0$' | tr '\n' ' ')"
  if [ -n "$cells" ]; then bad=$((bad+1)); echo "$b: $cells"; grep -E "^VIOLATION|^UNDECIDED|^CHECKER" "$f" | cut -c1-260 | head -6; else echo "$b: all 19 exit 0"; fi
done
echo "harmless matrix: $# patches, $bad with a non-zero cell"
rm -rf "$OUT"
[ $bad -eq 0 ]
