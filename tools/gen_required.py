#!/usr/bin/env python3
"""tools/gen_required.py: (re)generate required_obligations.json from the evidence of a run of all 19 quick checks on the
unchanged tree.  The harness fails (CHECKER-ERROR, exit 3) when a required obligation FAMILY produces no obligation at all: a
check that silently loses obligations must not report success (vacuity guard).  A family is an obligation name with indices,
path / size suffixes and bracketed parts removed."""
import glob
import json
import os
import re

HERE = os.path.dirname(os.path.dirname(os.path.abspath(__file__)))


def family(name):
    n = re.sub(r"\[[^\]]*\]", "", name)
    n = re.sub(r"\.(path|n|o)\d+\b", "", n)
    n = re.sub(r"\.\d+\b", "", n)
    return n


def main():
    out = {}
    for f in sorted(glob.glob(os.path.join(HERE, "evidence", "C*.json"))):
        e = json.load(open(f))
        if e.get("tier") != "quick":
            raise SystemExit("%s is %s-tier evidence: run all 19 quick checks first (tools/run_all.sh)" % (f, e.get("tier")))
        # (per-function frame obligations are enumerated from the code: a refactoring that renames or removes a helper
        #  legitimately changes that list, so they are not required by name)
        fams = sorted({family(o["name"]) for o in e["coverage"]["obligation_list"]
                       if o["status"] in ("proved", "failed") and not re.search(r"^C\d\d\.frame\.[a-z_]+\.", o["name"])})
        out[e["property_id"]] = fams
    json.dump(out, open(os.path.join(HERE, "required_obligations.json"), "w"), indent=0, sort_keys=True)
    print({k: len(v) for k, v in out.items()})


if __name__ == "__main__":
    main()
