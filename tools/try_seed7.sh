#!/bin/sh
# tools/try_seed7.sh <Cxx> ... : r (limit / error path / early exit) against its own property
n=0
for P in "$@"; do
  for v in r; do
    [ -f /tmp/seed7/$P/out/$v/patch.diff ] || continue
    ( extra=""; [ $v = zz ] && [ $P != C19 ] && extra="C19"
      timeout 1500 /verif/tools/try_patch.sh /tmp/seed7/$P/out/$v/patch.diff $P $extra > /tmp/seed7/$P/out/$v/try.log 2>&1
      echo "$P/$v rc=$? :: $(grep -E '^==' /tmp/seed7/$P/out/$v/try.log | tr '\n' ' ') $(grep -c '^VIOLATION' /tmp/seed7/$P/out/$v/try.log) violations" ) &
    n=$((n+1)); sleep 1
    [ $((n % 9)) -eq 0 ] && wait
  done
done
wait
