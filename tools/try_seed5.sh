#!/bin/sh
# tools/try_seed5.sh <Cxx> ... : n (defect needing a combination of circumstances) against its own property; m (numerically benign algebraic rewrite) against own + C19
n=0
for P in "$@"; do
  for v in m n; do
    [ -f /tmp/seed5/$P/out/$v/patch.diff ] || continue
    ( extra=""; [ $v = m ] && [ $P != C19 ] && extra="C19"
      timeout 1500 /verif/tools/try_patch.sh /tmp/seed5/$P/out/$v/patch.diff $P $extra > /tmp/seed5/$P/out/$v/try.log 2>&1
      echo "$P/$v rc=$? :: $(grep -E '^==' /tmp/seed5/$P/out/$v/try.log | tr '\n' ' ') $(grep -c '^VIOLATION' /tmp/seed5/$P/out/$v/try.log) violations" ) &
    n=$((n+1)); sleep 1
    [ $((n % 9)) -eq 0 ] && wait
  done
done
wait
