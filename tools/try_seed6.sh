#!/bin/sh
# tools/try_seed6.sh <Cxx> ... : p (two cooperating sites) and q (multi-step sequence / unusual legal input) against their own property
n=0
for P in "$@"; do
  for v in p q; do
    [ -f /tmp/seed6/$P/out/$v/patch.diff ] || continue
    ( extra=""; [ $v = zz ] && [ $P != C19 ] && extra="C19"
      timeout 1500 /verif/tools/try_patch.sh /tmp/seed6/$P/out/$v/patch.diff $P $extra > /tmp/seed6/$P/out/$v/try.log 2>&1
      echo "$P/$v rc=$? :: $(grep -E '^==' /tmp/seed6/$P/out/$v/try.log | tr '\n' ' ') $(grep -c '^VIOLATION' /tmp/seed6/$P/out/$v/try.log) violations" ) &
    n=$((n+1)); sleep 1
    [ $((n % 9)) -eq 0 ] && wait
  done
done
wait
