#!/bin/sh
# tools/try_keep.sh <patch.diff> <prop> : like try_patch.sh but prints the engine errors in full (from the scratch evidence)
PATCH="$(realpath "$1")"; P=$2
HERE="$(cd "$(dirname "$0")/.." && pwd)"
S="${TMPDIR:-/tmp}/pvx_keep_$$"
git -C /repo worktree add --detach "$S/wt" HEAD >/dev/null 2>&1 || exit 3
trap 'git -C /repo worktree remove --force "$S/wt" >/dev/null 2>&1; rm -rf "$S"' EXIT
git -C "$S/wt" apply "$PATCH" || exit 3
mkdir -p "$S/ev" "$S/rp"
VERIF_REPO="$S/wt" VERIF_EVIDENCE_DIR="$S/ev" VERIF_REPLAY_DIR="$S/rp" "$HERE/check" "$P" --tier "${VERIF_TIER:-quick}" > "$S/out" 2>&1
echo "exit $?"
grep -E "^(VIOLATION|UNDECIDED|CHECKER-ERROR|C[0-9]+:)" "$S/out" | cut -c1-300
python3 - "$S/ev/$P.json" <<'PY'
import json, sys
d = json.load(open(sys.argv[1]))
def walk(o, path=""):
    if isinstance(o, dict):
        if o.get("status") in ("error",) or "engine" in str(o.get("name", "")):
            print("----", o.get("name")); print(str(o.get("detail", o))[-2200:])
        for k, v in o.items(): walk(v, path + "/" + k)
    elif isinstance(o, list):
        for x in o: walk(x, path)
walk(d)
PY
