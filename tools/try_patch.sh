#!/bin/sh
# tools/try_patch.sh <patch.diff> <prop> [<prop> ...]
# Apply a patch to a scratch worktree of /repo (never to /repo itself), run the given
# checks against it (VERIF_REPO), print their verdict lines, remove the worktree.
# Evidence / replay files of such runs go to a scratch directory, not to /verif/evidence.
PATCH="$(realpath "$1")"; shift
HERE="$(cd "$(dirname "$0")/.." && pwd)"
S="${TMPDIR:-/tmp}/pvx_scratch_$$"
git -C /repo worktree add --detach "$S/wt" HEAD >/dev/null 2>&1 || { echo "cannot create worktree"; exit 3; }
trap 'git -C /repo worktree remove --force "$S/wt" >/dev/null 2>&1; rm -rf "$S"' EXIT
if ! git -C "$S/wt" apply "$PATCH"; then echo "PATCH DOES NOT APPLY"; exit 3; fi
mkdir -p "$S/ev" "$S/rp"
rc_all=0
for P in "$@"; do
  VERIF_REPO="$S/wt" VERIF_EVIDENCE_DIR="$S/ev" VERIF_REPLAY_DIR="$S/rp" "$HERE/check" "$P" --tier "${VERIF_TIER:-quick}" > "$S/out.$P" 2>&1
  rc=$?
  echo "== $P exit $rc"
  [ -n "$VERIF_RAW" ] && tail -${VERIF_RAW} "$S/out.$P"
  grep -E "^(VIOLATION|KNOWN-FINDING|UNDECIDED|CHECKER-ERROR|  obligation|C[0-9]+:)" "$S/out.$P" | cut -c1-260 | head -${VERIF_LINES:-12}
  [ $rc -ne 0 ] && rc_all=$rc
done
exit $rc_all
