#!/bin/sh
# tools/try_seed2.sh <Cxx> ... : run the own-property check against /tmp/seed2/<Cxx>/out/{c,d,h}
for P in "$@"; do
  for v in c d h; do
    [ -f /tmp/seed2/$P/out/$v/patch.diff ] || continue
    ( extra=""; [ $v = h ] && extra="C19"
      /verif/tools/try_patch.sh /tmp/seed2/$P/out/$v/patch.diff $P $extra > /tmp/seed2/$P/out/$v/try.log 2>&1
      echo "$P/$v rc=$? :: $(grep -E '^==' /tmp/seed2/$P/out/$v/try.log | tr '\n' ' ')" ) &
    sleep 1
  done
done
wait
