#!/bin/sh
# tools/try_seed2.sh <Cxx> ... : run the own-property check against /tmp/seed2/<Cxx>/out/{c,d}
n=0
for P in "$@"; do
  for v in c d; do
    [ -f /tmp/seed2/$P/out/$v/patch.diff ] || continue
    ( timeout 900 /verif/tools/try_patch.sh /tmp/seed2/$P/out/$v/patch.diff $P > /tmp/seed2/$P/out/$v/try.log 2>&1
      echo "$P/$v rc=$? :: $(grep -E '^==' /tmp/seed2/$P/out/$v/try.log | tr '\n' ' ') $(grep -c '^VIOLATION' /tmp/seed2/$P/out/$v/try.log) violations, $(grep '^VIOLATION' /tmp/seed2/$P/out/$v/try.log | grep -vc no-failing-input-found) replayed" ) &
    n=$((n+1)); sleep 1
    [ $((n % 12)) -eq 0 ] && wait
  done
done
wait
