"""Symbolic scalars that mimic numpy scalars, and the path-forking oracle.

Two value domains share one scalar interface (DESIGN 2.1):

  RSym -- a sympy expression over the reals (machine floats treated as
          mathematical reals, decimal literals as the rationals they spell).
  TSym -- a node of a hash-consed *uninterpreted* operation DAG ("trace
          domain"): no arithmetic law is applied except the IEEE-exact
          rewrites listed in `TAlg`; equality is structural identity.

Both are put into numpy `object` arrays / pandas object columns and the real
numpy / pandas code of pyins runs on them unmodified.
"""
from __future__ import annotations

import math
import contextlib
import operator
from fractions import Fraction

import numpy as _np
import sympy as sp


# ---------------------------------------------------------------------------
# errors
# ---------------------------------------------------------------------------
class PoisonRead(Exception):
    """An uninitialised (np.empty) cell was read before being written."""


class PathInfeasible(Exception):
    """Raised to abandon a path whose condition is unsatisfiable."""


class Concretization(Exception):
    """The code asked for a concrete float/int/bool of a symbolic value in a
    place the engine cannot fork on (outside the executable subset)."""


class _Poison:
    __slots__ = ()
    shape = ()
    ndim = 0

    def __repr__(self):
        return "POISON"

    def _boom(self, *a, **k):
        raise PoisonRead("read of an uninitialised array cell")

    __add__ = __radd__ = __sub__ = __rsub__ = __mul__ = __rmul__ = _boom
    __truediv__ = __rtruediv__ = __pow__ = __rpow__ = __neg__ = _boom
    __lt__ = __le__ = __gt__ = __ge__ = __bool__ = __float__ = _boom
    __abs__ = _boom
    sin = cos = tan = sqrt = deg2rad = rad2deg = arcsin = arccos = _boom
    arctan2 = hypot = square = _boom


POISON = _Poison()


# ---------------------------------------------------------------------------
# paths (eager forking by re-execution under a decision oracle)
# ---------------------------------------------------------------------------
from sympy import Basic as _sp_Basic


class Path:
    """One execution path: a prefix of forced decisions, then free ones."""

    def __init__(self, prefix=(), decider=None):
        self.prefix = list(prefix)
        self.decisions = []       # bools, in order
        self.conds = []           # (condition, bool) in order
        self.forkable = []        # whether the other branch is to be explored
        self.decider = decider    # optional callable(cond) -> True/False/None/(bool, bool)
        self.log = []             # free-form notes (stub calls, obligations)
        self.obligations = []     # (name, payload) emitted on the way
        self.after = None         # optional callable(cond, decision) run after each decision

    def decide(self, cond):
        # the same condition asked twice on one path has one answer (trace nodes are hash-consed, sympy conditions compare
        # structurally); z3 conditions are kept consistent by the solver-backed decider instead
        if isinstance(cond, Node) or isinstance(cond, _sp_Basic):
            prior = self.__dict__.setdefault("_decided", {})
            if cond in prior:
                return prior[cond]
            d = self._decide(cond)
            prior[cond] = d
            return d
        return self._decide(cond)

    MAX_DECISIONS = 80

    def _decide(self, cond):
        i = len(self.decisions)
        self.__dict__["_asked"] = self.__dict__.get("_asked", 0) + 1
        if self.__dict__["_asked"] > 20 * self.MAX_DECISIONS:
            raise Concretization("more than %d conditions evaluated on one path: a loop whose exit depends on symbolic data and has no "
                                 "invariant (only the outermost `while` of a filter is cut)" % (20 * self.MAX_DECISIONS))
        if i >= self.MAX_DECISIONS:
            raise Concretization("more than %d symbolic decisions on one path: a loop whose exit depends on symbolic data and has no "
                                 "invariant (only the outermost `while` of a filter is cut)" % self.MAX_DECISIONS)
        feas = (True, True)
        if self.decider is not None:
            r = self.decider(cond, self)
            if r is True or r is False:
                return r
            if isinstance(r, tuple):
                feas = r
        if not feas[0] and not feas[1]:
            raise PathInfeasible()
        if i < len(self.prefix):
            d = self.prefix[i]
            if not feas[0 if d else 1]:
                raise PathInfeasible()
            other = False      # already scheduled by the path that created the prefix
        else:
            d = feas[0]        # prefer True when feasible
            if _PREFER[-1] is False and feas[1]:
                d = False      # truthiness of a number: the generic (non-zero) outcome first, the edge `== 0` afterwards
            other = feas[0] and feas[1]
        self.decisions.append(d)
        self.conds.append((cond, d))
        self.forkable.append(other)
        if self.after is not None:
            self.after(cond, d)
        return d


_PATH_STACK = [None]
_PREFER = [None]


class prefer:
    """with prefer(False): the next fresh decision takes its False outcome first (both are still explored)"""

    def __init__(self, value):
        self.value = value

    def __enter__(self):
        _PREFER.append(self.value)

    def __exit__(self, *exc):
        _PREFER.pop()
        return False


def current_path():
    return _PATH_STACK[-1]


class _Active:
    def __init__(self, path):
        self.path = path

    def __enter__(self):
        _PATH_STACK.append(self.path)
        return self.path

    def __exit__(self, *exc):
        _PATH_STACK.pop()
        return False


def active(path):
    return _Active(path)


class PathList(list):
    """explore() result; `truncated` is True when the path budget ran out before every path was run"""
    truncated = False


def explore(fn, decider=None, max_paths=4096, on_budget="raise"):
    """Run `fn()` on every feasible path.  Returns [(Path, result-or-exception)].

    `fn` is re-executed from scratch for each path (it must build its own
    symbolic inputs); decisions are replayed from the path prefix.
    on_budget="stop": return the paths run so far with .truncated = True instead of raising.
    """
    todo = [[]]
    out = PathList()
    while todo:
        prefix = todo.pop()
        p = Path(prefix, decider)
        try:
            with active(p):
                res = fn()
        except PathInfeasible:
            continue
        out.append((p, res))
        if len(out) >= max_paths and (todo or any(p.forkable[i] for i in range(len(prefix), len(p.decisions)))):
            if on_budget == "stop":
                out.truncated = True
                return out
            raise RuntimeError("path explosion: more than %d paths" % max_paths)
        for i in range(len(prefix), len(p.decisions)):
            if p.forkable[i]:
                todo.append(p.decisions[:i] + [not p.decisions[i]])
    return out


def path_equalities(path=None):
    """[(a, b)] trace nodes the current path has decided equal (cmp_eq True / cmp_ne False)"""
    path = path if path is not None else current_path()
    out = []
    if path is None:
        return out
    for cond, d in path.conds:
        if isinstance(cond, Node) and len(cond.items) == 3 and ((cond.items[0] == "cmp_eq" and d) or (cond.items[0] == "cmp_ne" and not d)):
            out.append((cond.items[1], cond.items[2]))
    return out


def canon(n, eqs=None, _cache=None):
    """Representative of trace node `n` modulo the equalities of the current path (one bottom-up congruence pass):
    on the path where the code found `lat == lat_prev`, a value computed from lat_prev IS the value computed from lat."""
    eqs = path_equalities() if eqs is None else eqs
    if not eqs or not isinstance(n, Node):
        return n
    p = current_path()
    store = None
    if p is not None:
        store = p.__dict__.setdefault("_canon", {})
        key = len(eqs)
        if store.get("key") != key:
            store.clear()
            store["key"] = key
            store["memo"] = {}
            store["rep"] = None
    memo = store["memo"] if store is not None else {}
    # union-find over canonical forms, built incrementally in the order the equalities were decided
    rep = store.get("rep") if store is not None else None
    if rep is None:
        rep = {}

        def find(x):
            while x in rep:
                x = rep[x]
            return x

        def rebuild0(x, m):
            r = m.get(x)
            if r is not None:
                return r
            if x.items[0] in ("leaf", "const"):
                r = find(x)
            else:
                r = find(Node(x.items[0], *[rebuild0(c, m) if isinstance(c, Node) else c for c in x.items[1:]]))
            m[x] = r
            return r
        for a, b in eqs:
            m = {}
            ra, rb = rebuild0(a, m), rebuild0(b, m)
            if ra is not rb:
                rep[rb] = ra
        if store is not None:
            store["rep"] = rep

    def find(x):
        while x in rep:
            x = rep[x]
        return x

    def rebuild(x):
        r = memo.get(x)
        if r is not None:
            return r
        stack = [(x, False)]
        while stack:
            y, done = stack.pop()
            if y in memo:
                continue
            if y.items[0] in ("leaf", "const"):
                memo[y] = find(y)
                continue
            kids = [c for c in y.items[1:] if isinstance(c, Node)]
            if not done:
                stack.append((y, True))
                for c in kids:
                    if c not in memo:
                        stack.append((c, False))
                continue
            memo[y] = find(Node(y.items[0], *[memo[c] if isinstance(c, Node) else c for c in y.items[1:]]))
        return memo[x]
    return rebuild(n)


def decide(cond):
    p = current_path()
    if p is None:
        raise Concretization("symbolic condition %r outside an explored path" % (cond,))
    return p.decide(cond)


# ---------------------------------------------------------------------------
# scalar base
# ---------------------------------------------------------------------------
_NUM = (int, float, Fraction, _np.integer, _np.floating, bool, _np.bool_)


class Sym:
    """Base of the numpy-scalar look-alikes.  Subclasses provide
    `const(v)`, `_op(name, *operands)` and `_cmp(name, a, b)`."""

    __slots__ = ("e",)
    shape = ()
    ndim = 0
    size = 1

    def __init__(self, e):
        self.e = e

    # -- coercion --------------------------------------------------------
    def _co(self, o):
        if type(o) is type(self):
            return o.e
        if isinstance(o, _NUM):
            return self.const(o)
        if o is POISON:
            raise PoisonRead("read of an uninitialised array cell")
        if isinstance(o, _np.ndarray):
            if o.ndim == 0:
                return self._co(o.item())
            return NotImplemented
        if isinstance(o, Sym):
            raise TypeError("mixing symbolic domains: %s with %s" % (type(self).__name__, type(o).__name__))
        return NotImplemented

    def _bin(self, name, o, refl=False):
        b = self._co(o)
        if b is NotImplemented:
            return NotImplemented
        a = self.e
        if refl:
            a, b = b, a
        return type(self)(self._op(name, a, b))

    def __add__(self, o): return self._bin("add", o)
    def __radd__(self, o): return self._bin("add", o, True)
    def __sub__(self, o): return self._bin("sub", o)
    def __rsub__(self, o): return self._bin("sub", o, True)
    def __mul__(self, o): return self._bin("mul", o)
    def __rmul__(self, o): return self._bin("mul", o, True)
    def __truediv__(self, o): return self._bin("div", o)
    def __rtruediv__(self, o): return self._bin("div", o, True)
    def __pow__(self, o): return self._bin("pow", o)
    def __rpow__(self, o): return self._bin("pow", o, True)
    def __mod__(self, o): return self._bin("mod", o)
    def __rmod__(self, o): return self._bin("mod", o, True)
    def __neg__(self): return type(self)(self._op("neg", self.e))
    def __pos__(self): return self
    def __abs__(self): return type(self)(self._op("abs", self.e))

    # -- comparisons: fork eagerly, return a python bool ------------------
    def _rel(self, name, o):
        b = self._co(o)
        if b is NotImplemented:
            return NotImplemented
        return self._cmp(name, self.e, b)

    def __lt__(self, o): return self._rel("lt", o)
    def __le__(self, o): return self._rel("le", o)
    def __gt__(self, o): return self._rel("gt", o)
    def __ge__(self, o): return self._rel("ge", o)

    def __eq__(self, o):
        if o is self:
            return True
        try:
            b = self._co(o)
        except TypeError:
            return False
        if b is NotImplemented:
            return NotImplemented
        return self._cmp("eq", self.e, b)

    def __ne__(self, o):
        r = self.__eq__(o)
        if r is NotImplemented:
            return r
        return not r

    def __hash__(self):
        return hash(self.e)

    def __bool__(self):
        with prefer(False):
            return not self._cmp("eq", self.e, self.const(0))

    def __repr__(self):
        return "%s(%s)" % (type(self).__name__, self.e)

    # -- numpy object-dtype ufunc dispatch (method of the same name) ------
    def _un(self, name):
        return type(self)(self._op(name, self.e))

    def sin(self): return self._un("sin")
    def cos(self): return self._un("cos")
    def tan(self): return self._un("tan")
    def arcsin(self): return self._un("arcsin")
    def arccos(self): return self._un("arccos")
    def arctan(self): return self._un("arctan")
    def sqrt(self): return self._un("sqrt")
    def deg2rad(self): return self._un("deg2rad")
    def rad2deg(self): return self._un("rad2deg")
    radians = deg2rad
    degrees = rad2deg
    def square(self): return self._bin("mul", self)
    def absolute(self): return self.__abs__()
    fabs = absolute
    def conjugate(self): return self
    def arctan2(self, o): return self._bin("arctan2", o)
    def hypot(self, o): return self._bin("hypot", o)
    def floor(self): return self._un("floor")
    def ceil(self): return self._un("ceil")
    def rint(self): return self._un("rint")          # np.round(x, d) = rint(x * 10**d) / 10**d on object arrays
    def trunc(self): return self._un("trunc")
    def __round__(self, n=None):
        k = 10 ** (n or 0)
        return (self * k).rint() / k
    def isfinite(self): return True
    def isnan(self): return False

    # numpy attribute look-alikes
    @property
    def T(self): return self
    @property
    def real(self): return self
    def copy(self): return self
    def item(self): return self
    def __array_namespace__(self, **kw):  # pragma: no cover
        raise AttributeError


# ---------------------------------------------------------------------------
# R: sympy reals
# ---------------------------------------------------------------------------
INCREASING = {}      # sympy Symbol -> (chain id, position): precondition "stamps strictly increasing" of the table contracts


def increasing_stamps(n, name="t", start=0):
    """n fresh-named real symbols t<start>, ... declared strictly increasing (Increments / IMU / trajectory schema)"""
    syms = [sp.Symbol("%s%d" % (name, start + k), real=True) for k in range(n)]
    cid = (name, tuple(s_.name for s_ in syms))
    for k, s_ in enumerate(syms):
        INCREASING[s_] = (cid, k)
    return syms

def exact(v):
    """The rational a decimal literal spells (assumption A1)."""
    if isinstance(v, (bool, _np.bool_)):
        return sp.Integer(int(v))
    if isinstance(v, (int, _np.integer)):
        return sp.Integer(int(v))
    if isinstance(v, Fraction):
        return sp.Rational(v.numerator, v.denominator)
    if isinstance(v, (float, _np.floating)):
        f = float(v)
        if math.isinf(f):
            return sp.oo if f > 0 else -sp.oo
        if math.isnan(f):
            return sp.nan
        if f == int(f) and abs(f) < 1e15:
            return sp.Integer(int(f))
        return sp.Rational(repr(f))
    if isinstance(v, sp.Basic):
        return v
    raise TypeError("cannot make an exact real of %r" % (v,))


_PI180 = sp.pi / 180

def _scale(x, k):
    """x*k, distributed over a *small* sum so that sin/cos see a normalised argument
    (never expands large expressions)."""
    if x.is_Add and len(x.args) <= 4:
        return sp.Add(*[a * k for a in x.args])
    return x * k


_R_UN = {
    "neg": operator.neg,
    "abs": sp.Abs,
    "sin": sp.sin, "cos": sp.cos, "tan": sp.tan,
    "arcsin": sp.asin, "arccos": sp.acos, "arctan": sp.atan,
    "sqrt": sp.sqrt,
    "deg2rad": lambda x: _scale(x, _PI180),
    "rad2deg": lambda x: _scale(x, 1 / _PI180),
    "floor": sp.floor,
    "ceil": sp.ceiling,
    "rint": lambda x: sp.floor(x + sp.Rational(1, 2)),      # over the reals; ties (half to even) are a null set
    "trunc": lambda x: sp.sign(x) * sp.floor(sp.Abs(x)),
}
_R_BIN = {
    "add": operator.add, "sub": operator.sub, "mul": operator.mul,
    "div": operator.truediv, "pow": lambda a, b: sp.Pow(a, b),
    "arctan2": lambda y, x: sp.atan2(y, x),
    "hypot": lambda a, b: sp.sqrt(a * a + b * b),
    "mod": lambda a, b: a - b * sp.floor(a / b),
}
_R_REL = {"lt": sp.Lt, "le": sp.Le, "gt": sp.Gt, "ge": sp.Ge, "eq": sp.Eq}


DIVISORS = [None]      # DIVISORS[0] is a list while a claim records the divisors the code executes


class record_divisors:
    """Context manager: collect every divisor (x/d, d**-k, tan -> cos) executed in the R domain."""

    def __enter__(self):
        self.old = DIVISORS[0]
        DIVISORS[0] = []
        return DIVISORS[0]

    def __exit__(self, *exc):
        DIVISORS[0] = self.old
        return False


class RSym(Sym):
    __slots__ = ()
    const = staticmethod(exact)

    @staticmethod
    def _op(name, *a):
        log = DIVISORS[0]
        if log is not None:
            if name == "div":
                if not a[1].is_number:
                    log.append(a[1])
            elif name == "pow":
                if a[1].is_number and a[1].is_negative and not a[0].is_number:
                    log.append(a[0])
            elif name == "tan":
                log.append(sp.cos(a[0]))
            elif name == "mod":
                if not a[1].is_number:
                    log.append(a[1])
        f = _R_UN.get(name) if len(a) == 1 else _R_BIN.get(name)
        return f(*a)

    @staticmethod
    def _cmp(name, a, b):
        d = a - b
        # symbols declared strictly increasing (time stamps of a table): pandas compares index labels while aligning and
        # sorting, in an order that depends on hashing; the declared order answers without forking
        ca, cb = INCREASING.get(a), INCREASING.get(b)
        if ca is not None and cb is not None and ca[0] == cb[0]:
            s = (ca[1] > cb[1]) - (ca[1] < cb[1])
            return {"lt": s < 0, "le": s <= 0, "gt": s > 0, "ge": s >= 0, "eq": s == 0}[name]
        if d.is_number and d.is_comparable:
            # concrete (possibly irrational) numbers: decide by exact sign
            s = 0 if d == 0 else (1 if d.is_positive else (-1 if d.is_negative else None))
            if s is None:
                v = d.evalf(40)
                s = 0 if v == 0 else (1 if v > 0 else -1)
            return {"lt": s < 0, "le": s <= 0, "gt": s > 0, "ge": s >= 0, "eq": s == 0}[name]
        if name == "eq":
            if d == 0:
                return True
            if d.is_nonzero:
                return False
        else:
            if d.is_positive:
                return name in ("gt", "ge")
            if d.is_negative:
                return name in ("lt", "le")
            if d.is_zero:
                return name in ("le", "ge")
        return decide(_R_REL[name](a, b))

    def __float__(self):
        if self.e.is_number:
            return float(self.e)
        raise Concretization("float() of symbolic %s" % (self.e,))

    def __int__(self):
        if self.e.is_number:
            return int(self.e)
        raise Concretization("int() of symbolic %s" % (self.e,))


def R(x):
    """Make an RSym of a sympy expression / number / name."""
    if isinstance(x, RSym):
        return x
    if isinstance(x, str):
        return RSym(sp.Symbol(x, real=True))
    return RSym(exact(x))


def rsyms(names, **assumptions):
    assumptions.setdefault("real", True)
    return [RSym(s) for s in sp.symbols(names, seq=True, **assumptions)]


def unwrap(x):
    """RSym / array of RSym / number -> sympy expression / nested list / Matrix-ready array."""
    if isinstance(x, Sym):
        return x.e
    if isinstance(x, _np.ndarray):
        if x.ndim == 0:
            return unwrap(x.item())
        out = _np.empty(x.shape, dtype=object)
        flat_in = x.reshape(-1)
        flat = out.reshape(-1)
        for i in range(flat.size):
            flat[i] = unwrap(flat_in[i])
        return out
    if x is POISON:
        raise PoisonRead("result contains an uninitialised cell")
    if isinstance(x, _NUM):
        return exact(x)
    if isinstance(x, (list, tuple)):
        return type(x)(unwrap(v) for v in x)
    if hasattr(x, "values") and hasattr(x, "index"):
        return unwrap(_np.asarray(x.values, dtype=object))
    return x


def rarray(names_or_exprs, shape=None):
    """Object ndarray of RSym from a flat list of names/expressions."""
    cells = [R(v) for v in names_or_exprs]
    a = _np.empty(len(cells), dtype=object)
    for i, c in enumerate(cells):
        a[i] = c
    return a.reshape(shape) if shape is not None else a


# ---------------------------------------------------------------------------
# T: trace domain (uninterpreted operation DAG)
# ---------------------------------------------------------------------------
class Node:
    """Hash-consed DAG node: ('leaf', name) | ('const', value) | (op, *children).
    Children are Nodes (compared by identity); the hash is cached, so building and
    comparing deep DAGs is O(1) per node."""
    __slots__ = ("items", "_h", "__weakref__")
    _table = {}

    def __new__(cls, *items):
        key = tuple(id(x) if isinstance(x, Node) else ("v", x) for x in items)
        n = cls._table.get(key)
        if n is None:
            n = object.__new__(cls)
            n.items = items
            n._h = hash(key)
            cls._table[key] = n
        return n

    def __hash__(self):
        return self._h

    def __eq__(self, other):
        return self is other

    def __getitem__(self, i):
        return self.items[i]

    def __len__(self):
        return len(self.items)

    def __iter__(self):
        return iter(self.items)

    def show(self, depth=3):
        if self.items[0] == "leaf":
            return str(self.items[1])
        if self.items[0] == "const":
            return repr(self.items[1])
        if depth <= 0:
            return "%s(...)" % self.items[0]
        return "%s(%s)" % (self.items[0], ", ".join(x.show(depth - 1) if isinstance(x, Node) else repr(x) for x in self.items[1:7])
                           + (", ..." if len(self.items) > 7 else ""))

    def __repr__(self):
        return self.show(3)


def t_const(v):
    if isinstance(v, (bool, _np.bool_)):
        v = float(int(v))
    elif isinstance(v, (int, _np.integer)):
        v = float(int(v))
    elif isinstance(v, Fraction):
        v = float(v)
    else:
        v = float(v)
    if v == 0.0:
        v = 0.0  # value equality: -0.0 and +0.0 are not distinguished (stated)
    return Node("const", v)


T_ZERO = t_const(0.0)
T_ONE = t_const(1.0)


def _is_c(n, v=None):
    return n[0] == "const" and (v is None or n[1] == v)


MAYBE_NONFINITE = set()        # names of leaves that may be NaN / +-inf (values SUPPLIED by a caller about which the contract
_MNF_MEMO = {}                 # assumes nothing): the finite-only rewrites x*0 -> 0, x-x -> 0 are not applied to what depends on them


def maybe_nonfinite(n):
    if not MAYBE_NONFINITE:
        return False
    r = _MNF_MEMO.get(n)
    if r is not None:
        return r
    stack = [n]
    while stack:
        m = stack[-1]
        if m in _MNF_MEMO:
            stack.pop()
            continue
        if m.items[0] == "leaf":
            _MNF_MEMO[m] = m.items[1] in MAYBE_NONFINITE
            stack.pop()
            continue
        if m.items[0] == "const":
            v = m.items[1]
            _MNF_MEMO[m] = isinstance(v, float) and (v != v or v in (float("inf"), float("-inf")))
            stack.pop()
            continue
        kids = [c for c in m.items[1:] if isinstance(c, Node)]
        todo = [c for c in kids if c not in _MNF_MEMO]
        if todo:
            stack.extend(todo)
            continue
        _MNF_MEMO[m] = any(_MNF_MEMO[c] for c in kids)
        stack.pop()
    return _MNF_MEMO[n]


@contextlib.contextmanager
def nonfinite_leaves(*names):
    """within the block the named trace leaves may hold NaN / inf"""
    old = set(MAYBE_NONFINITE)
    MAYBE_NONFINITE.update(names)
    _MNF_MEMO.clear()
    try:
        yield
    finally:
        MAYBE_NONFINITE.clear()
        MAYBE_NONFINITE.update(old)
        _MNF_MEMO.clear()


class TSym(Sym):
    """Trace-domain scalar.  Rewrites applied (each exact in IEEE-754 for finite
    operands, up to the sign of zero):  x+0 -> x, 0+x -> x, x-0 -> x, 0-x -> -x, x*1 -> x,
    1*x -> x, x/1 -> x, 0*x -> 0, x*0 -> 0 (finite x), -(0) -> 0, -(-x) -> x,
    x-x -> 0, x+(-x) -> 0, and constant folding of two constants with the float
    operation itself."""
    __slots__ = ()
    const = staticmethod(t_const)

    @staticmethod
    def _op(name, *a):
        if all(_is_c(x) for x in a):
            try:
                v = _T_FOLD[name](*[x[1] for x in a])
                return t_const(v)
            except Exception:
                pass
        if name == "add":
            if _is_c(a[0], 0.0): return a[1]
            if _is_c(a[1], 0.0): return a[0]
            # x + (-x) = 0 exactly for finite x
            if a[0][0] == "neg" and a[0][1] is a[1] and not maybe_nonfinite(a[1]): return T_ZERO
            if a[1][0] == "neg" and a[1][1] is a[0] and not maybe_nonfinite(a[0]): return T_ZERO
        elif name == "sub":
            if _is_c(a[1], 0.0): return a[0]
            if a[0] is a[1] and not maybe_nonfinite(a[0]): return T_ZERO
            if _is_c(a[0], 0.0): return Node("neg", a[1])
        elif name == "neg":
            if a[0][0] == "neg": return a[0][1]
        elif name == "mul":
            if _is_c(a[0], 1.0): return a[1]
            if _is_c(a[1], 1.0): return a[0]
            if (_is_c(a[0], 0.0) and not maybe_nonfinite(a[1])) or (_is_c(a[1], 0.0) and not maybe_nonfinite(a[0])): return T_ZERO
        elif name == "div":
            if _is_c(a[1], 1.0): return a[0]
        return Node(name, *a)

    @staticmethod
    def _cmp(name, a, b):
        if _is_c(a) and _is_c(b):
            return {"lt": operator.lt, "le": operator.le, "gt": operator.gt,
                    "ge": operator.ge, "eq": operator.eq}[name](a[1], b[1])
        if name == "eq" and a is b:
            return True
        # IEEE: every comparison with a NaN constant is false (a memo initialised with nan never hits)
        for x in (a, b):
            if _is_c(x) and isinstance(x[1], float) and x[1] != x[1]:
                return False
        return decide(Node("cmp_" + name, a, b))

    def __float__(self):
        if _is_c(self.e):
            return self.e[1]
        raise Concretization("float() of trace value %r" % (self.e,))


_T_FOLD = {
    "add": operator.add, "sub": operator.sub, "mul": operator.mul,
    "div": operator.truediv, "neg": operator.neg, "abs": abs,
    "pow": operator.pow,
    "sin": math.sin, "cos": math.cos, "tan": math.tan, "sqrt": math.sqrt,
    "deg2rad": math.radians, "rad2deg": math.degrees,
}


def T(x):
    if isinstance(x, TSym):
        return x
    if isinstance(x, str):
        return TSym(Node("leaf", x))
    return TSym(t_const(x))


def tarray(names, shape=None):
    a = _np.empty(len(names), dtype=object)
    for i, c in enumerate(names):
        a[i] = T(c)
    return a.reshape(shape) if shape is not None else a


def fill(arr, value):
    flat = arr.reshape(-1)
    for i in range(flat.size):
        flat[i] = value
    return arr
