"""Reference results from PRISTINE process states (python -m pvx.isolated <module>).

Used by the dynamic purity contract (props/C19.module_purity) when the static frame analysis finds state that outlives a
call.  This process imports pyins from the same tree, builds the call scenarios of one module and evaluates every
(scenario, variant) in its own forked child -- so each result is computed with no history at all -- and prints
{"scenario|variant": digest}.  The checking process evaluates the same (scenario, variant) pairs one after another in
its own, well-used state and compares: a function whose result depends on anything but its arguments differs.
"""
import hashlib
import json
import os
import sys


def digest(x):
    return hashlib.sha256(repr(x).encode()).hexdigest()[:24]


def main(module):
    sys.path.insert(0, os.path.dirname(os.path.dirname(os.path.abspath(__file__))))
    import pvx  # noqa: F401
    from pvx.loader import load
    from props import C19
    py = load()
    calls = [(n_, mk) for n_, mk in C19._calls(py) if n_.startswith(module + ".")]
    out = {}
    for name, make in calls:
        for vid in C19.variant_ids(make):
            r, w = os.pipe()
            pid = os.fork()
            if pid == 0:
                os.close(r)
                try:
                    res = C19.run_variant(make, vid)
                except BaseException as exc:      # noqa
                    res = ("raised", type(exc).__name__)
                os.write(w, digest(res).encode())
                os._exit(0)
            os.close(w)
            data = b""
            while True:
                chunk = os.read(r, 4096)
                if not chunk:
                    break
                data += chunk
            os.close(r)
            os.waitpid(pid, 0)
            out["%s|%s" % (name, vid)] = data.decode()
    print("ISOLATED-JSON " + json.dumps(out))


if __name__ == "__main__":
    main(sys.argv[1])
