"""Back end (d): every division executed by the code under verification
generates the obligation "divisor != 0 on the contract's domain".

Decision order for a divisor D (a sympy expression over the contract's symbols):
  1. structural: D is a product of powers of bases that are non-zero numbers or
     positive by declared symbol assumptions;
  2. validated interval arithmetic (mpmath.iv) over the domain box, with
     bisection: 0 outside the enclosure of every sub-box  =>  proved;
  3. zero search: a sign change of D between two points of the box (continuity
     => a zero exists) is refined by bisection to a point that is handed to the
     native replay  =>  refuted;
  4. otherwise undecided (never a violation).
"""
from __future__ import annotations

import itertools
import random
import time

import mpmath
import sympy as sp
from mpmath import iv

from .field import Verdict

_IV = {"sin": iv.sin, "cos": iv.cos, "tan": iv.tan, "sqrt": iv.sqrt, "exp": iv.exp,
       "log": iv.log, "Abs": abs, "pi": iv.pi, "mpf": iv.mpf}


def split_factors(expr):
    """Structural product decomposition: [(base, exponent)] without calling factor()."""
    out = []
    for f in sp.Mul.make_args(sp.sympify(expr)):
        b, e = f.as_base_exp()
        out.append((b, e))
    return out


def _structurally_nonzero(b):
    if b.is_number:
        return b != 0
    if b.is_positive or b.is_negative:
        return True
    return False


def _iv_eval(f, box_list):
    try:
        v = f(*box_list)
    except (ZeroDivisionError, ValueError, TypeError, mpmath.libmp.libmpf.ComplexResult, Exception):
        return None
    try:
        return v.a, v.b
    except AttributeError:
        try:
            v = iv.mpf(v)
            return v.a, v.b
        except Exception:
            return None


def check_nonzero(expr, box, seed=0, max_boxes=4096, derived=None):
    """Decide expr != 0 for all symbol values in `box` (dict Symbol -> (lo, hi))."""
    t0 = time.time()
    expr = sp.sympify(expr)
    if derived:
        expr = expr.xreplace(derived)      # sub-expressions with their own declared range
    rem = []
    for b, e in split_factors(expr):
        if _structurally_nonzero(b):
            continue
        rem.append(b)
    if not rem:
        return Verdict("proved", "structural-sign", time.time() - t0)
    for b in rem:
        v = _nonzero_base(b, box, seed, max_boxes)
        if v.status != "proved":
            v.time_s = time.time() - t0
            return v
    return Verdict("proved", "interval(mpmath.iv)", time.time() - t0)


def _nonzero_base(b, box, seed, max_boxes):
    syms = sorted(b.free_symbols, key=lambda s: s.name)
    missing = [s for s in syms if s not in box]
    if missing:
        return Verdict("undecided", "interval(mpmath.iv)", 0.0,
                       "no declared range for %s in divisor %s" % (missing, str(b)[:120]))
    f = sp.lambdify(syms, b, modules=[_IV, "mpmath"])
    start = [tuple(box[s]) for s in syms]
    todo = [start]
    n = 0
    undecided_box = None
    while todo:
        bx = todo.pop()
        n += 1
        if n > max_boxes:
            undecided_box = bx
            break
        r = _iv_eval(f, [iv.mpf([lo, hi]) for lo, hi in bx])
        if r is not None and (r[0] > 0 or r[1] < 0):
            continue
        # bisect the widest (relative) dimension
        widths = [(hi - lo) / (1e-300 + max(abs(start[i][1] - start[i][0]), 1e-300)) for i, (lo, hi) in enumerate(bx)]
        k = max(range(len(bx)), key=lambda i: widths[i]) if bx else None
        if k is None or widths[k] < 1e-9:
            undecided_box = bx
            break
        lo, hi = bx[k]
        mid = 0.5 * (lo + hi)
        b1 = list(bx); b1[k] = (lo, mid)
        b2 = list(bx); b2[k] = (mid, hi)
        todo.append(b1)
        todo.append(b2)
    if undecided_box is None:
        return Verdict("proved", "interval(mpmath.iv)", 0.0, "%d boxes" % n)
    # zero search by sign change
    z = _find_zero(b, syms, start, seed)
    if z is not None:
        return Verdict("refuted", "sign-change+bisection", 0.0,
                       "divisor %s vanishes on the domain" % str(b)[:160],
                       point={s.name: repr(float(v)) for s, v in zip(syms, z)}, value="0")
    return Verdict("undecided", "interval(mpmath.iv)", 0.0,
                   "could not enclose divisor %s away from 0 (%d boxes) and found no zero" % (str(b)[:160], n))


def _find_zero(b, syms, box, seed):
    f = sp.lambdify(syms, b, modules="mpmath")
    rng = random.Random(seed)

    def ev(p):
        try:
            v = f(*p)
            if isinstance(v, mpmath.mpc):
                return None
            return float(v)
        except Exception:
            return None
    pts = []
    corners = list(itertools.islice(itertools.product(*[(lo, hi) for lo, hi in box]), 64))
    for c in corners:
        pts.append(list(c))
    for _ in range(400):
        pts.append([rng.uniform(lo, hi) for lo, hi in box])
    vals = [(p, ev(p)) for p in pts]
    vals = [(p, v) for p, v in vals if v is not None]
    for p, v in vals:
        if v == 0.0:
            return p
    pos = [p for p, v in vals if v > 0]
    neg = [p for p, v in vals if v < 0]
    if not pos or not neg:
        return None
    a, c = pos[0], neg[0]
    for _ in range(200):
        m = [(x + y) / 2 for x, y in zip(a, c)]
        vm = ev(m)
        if vm is None:
            return None
        if vm == 0.0:
            return m
        if vm > 0:
            a = m
        else:
            c = m
    return [(x + y) / 2 for x, y in zip(a, c)]
