"""Z domain: z3 Int/Real terms with a path condition -- cursors, lengths, time
stamps, loop scheduling (DESIGN 2.1-Z).  Numeric payloads that a scheduling
proof does not need are `Opaque` (absorbing; must not flow into control).
"""
from __future__ import annotations

import itertools
import time

import z3

from .sym import Path, PathInfeasible, Concretization, current_path, active, explore as _explore


class Stop(Exception):
    """Raised at the end of a cut loop iteration."""


class ObligationFailed(Exception):
    pass


# ---------------------------------------------------------------------------
# context of one path
# ---------------------------------------------------------------------------
class ZCtx:
    """Solver + axioms + emitted obligations of one explored path."""
    current = None

    def __init__(self, timeout_ms=20000):
        self.s = z3.Solver()
        self.s.set("timeout", timeout_ms)
        self.fresh = itertools.count()
        self.obligations = []      # (name, status, detail, model-dict or None)
        self.mono = {}             # function name -> list of index terms seen (for lazy sortedness instantiation)
        self.notes = []
        self.assumed = []
        self.solver_time = 0.0
        ZCtx.current = self

    # -- basic ------------------------------------------------------------
    def new_int(self, name):
        return z3.Int("%s!%d" % (name, next(self.fresh)))

    def new_real(self, name):
        return z3.Real("%s!%d" % (name, next(self.fresh)))

    def assume(self, f, why=""):
        self.s.add(f)
        self.assumed.append((why, f))

    def check(self, *extra):
        t0 = time.time()
        self.s.push()
        for e in extra:
            self.s.add(e)
        r = self.s.check()
        m = self.s.model() if r == z3.sat else None
        self.s.pop()
        self.solver_time += time.time() - t0
        return r, m

    def feasible(self, f):
        r, _ = self.check(f)
        return r != z3.unsat          # unknown counts as feasible (never prune on unknown)

    def prove(self, name, f, detail="", concretize=None):
        """Obligation: f holds under the path condition.  Records the verdict; a counter-model is kept."""
        r, m = self.check(z3.Not(f))
        if r == z3.unsat:
            if SECOND["enabled"]:
                v = second_opinion(self.s, z3.Not(f))
                if v == "sat":
                    # the two solvers disagree: never counted as proved, never reported as a violation
                    self.obligations.append((name, "undecided", detail + " (z3: unsat, cvc5: sat -- solvers disagree)", None))
                    return None
            self.obligations.append((name, "proved", detail, None))
            return True
        if r == z3.sat:
            cex = concretize(self, z3.Not(f)) if concretize else {str(d): str(m[d]) for d in m.decls()[:40]}
            self.obligations.append((name, "failed", detail, cex))
            return False
        self.obligations.append((name, "undecided", detail + " (solver: %s)" % self.s.reason_unknown(), None))
        return None

    # -- sorted tables as uninterpreted functions with lazily instantiated strict monotonicity ----
    def mono_touch(self, fname, f, idx, lo=None, hi=None):
        """Register index term `idx` for function f; add strict monotonicity w.r.t. all earlier terms."""
        seen = self.mono.setdefault(fname, [])
        for j in seen:
            if j is idx or z3.eq(j, idx):
                return
        for j in seen:
            self.s.add(z3.Implies(j < idx, f(j) < f(idx)))
            self.s.add(z3.Implies(idx < j, f(idx) < f(j)))
        seen.append(idx)


def zctx():
    return ZCtx.current


# ---------------------------------------------------------------------------
# second opinion: every VC z3 reports unsat is re-run through cvc5 (thorough tier)
# ---------------------------------------------------------------------------
SECOND = dict(enabled=False, agree=0, unknown=0, disagree=0, time_s=0.0, error=0)
CVC5 = "/usr/bin/cvc5"


def second_opinion(solver, negated_goal, tlimit_ms=20000):
    import subprocess
    import tempfile
    t0 = time.time()
    s2 = z3.Solver()
    s2.add(solver.assertions())
    s2.add(negated_goal)
    text = "(set-logic ALL)\n" + s2.to_smt2()
    try:
        with tempfile.NamedTemporaryFile("w", suffix=".smt2", delete=True) as fh:
            fh.write(text)
            fh.flush()
            out = subprocess.run([CVC5, "--lang=smt2", "--tlimit=%d" % tlimit_ms, fh.name], capture_output=True, text=True, timeout=tlimit_ms / 1000.0 + 10)
        lines = out.stdout.strip().splitlines()
        verdict = lines[0].strip() if lines else "error"
    except Exception as e:              # cvc5 absent or crashed: recorded, not a verdict
        verdict = "error"
    SECOND["time_s"] += time.time() - t0
    if verdict == "unsat":
        SECOND["agree"] += 1
    elif verdict == "sat":
        SECOND["disagree"] += 1
    elif verdict in ("unknown", "timeout"):
        SECOND["unknown"] += 1
    else:
        SECOND["error"] += 1
        verdict = "error"
    return verdict


# ---------------------------------------------------------------------------
# scalars
# ---------------------------------------------------------------------------
def _z(x):
    if isinstance(x, ZSym):
        return x
    if isinstance(x, bool):
        raise TypeError("bool in arithmetic")
    if isinstance(x, int):
        return ZSym(z3.IntVal(x))
    if isinstance(x, float):
        if x == float("inf"):
            return ZSym(z3.RealVal(0), z3.BoolVal(True))
        return ZSym(z3.RealVal(repr(x)))
    if isinstance(x, z3.ExprRef):
        return ZSym(x)
    raise TypeError("cannot lift %r into the Z domain" % (x,))


class ZSym:
    """z3 arithmetic term; `inf` is a z3 Bool flag for the +infinity sentinel (extended reals)."""
    __slots__ = ("v", "inf")
    shape = ()
    ndim = 0

    def __init__(self, v, inf=None):
        self.v = v
        self.inf = inf if inf is not None else z3.BoolVal(False)

    def _finite(self, what):
        c = zctx()
        if c is not None and not z3.is_false(self.inf):
            c.prove("arith.finite_operand", z3.Not(self.inf), "arithmetic on a possibly infinite time stamp (%s)" % what)

    def _arith(self, o, f, what):
        try:
            o = _z(o)
        except TypeError:
            return NotImplemented
        self._finite(what)
        o._finite(what)
        return ZSym(f(self.v, o.v))

    def __add__(self, o): return self._arith(o, lambda a, b: a + b, "+")
    def __radd__(self, o): return self._arith(o, lambda a, b: b + a, "+")
    def __sub__(self, o): return self._arith(o, lambda a, b: a - b, "-")
    def __rsub__(self, o): return self._arith(o, lambda a, b: b - a, "-")
    def __mul__(self, o): return self._arith(o, lambda a, b: a * b, "*")
    def __rmul__(self, o): return self._arith(o, lambda a, b: b * a, "*")
    def __neg__(self): return ZSym(-self.v)

    # -- remainders: a fresh integer quotient with the defining inequalities -----------------
    def _rem(self, o, kind):
        o = _z(o)
        c = zctx()
        if not z3.is_rational_value(z3.simplify(o.v)) and not z3.is_int_value(z3.simplify(o.v)):
            raise Concretization("remainder by a symbolic modulus")
        k = c.new_int("quot")
        a = self.v if self.v.sort() == z3.RealSort() else z3.ToReal(self.v)
        m = o.v if o.v.sort() == z3.RealSort() else z3.ToReal(o.v)
        r = a - m * z3.ToReal(k)
        if kind == "floor":            # python %, np.mod, np.remainder: sign of the divisor (m > 0 here)
            c.assume(z3.And(r >= 0, r < m), "x % m = x - m*floor(x/m)")
        else:                          # np.fmod / math.fmod: truncated quotient, sign of the dividend
            c.assume(z3.And(z3.Implies(a >= 0, z3.And(r >= 0, r < m)), z3.Implies(a < 0, z3.And(r > -m, r <= 0))), "fmod")
        return ZSym(r)

    def __mod__(self, o): return self._rem(o, "floor")
    def remainder(self, o): return self._rem(o, "floor")
    mod = remainder
    def fmod(self, o): return self._rem(o, "trunc")

    def __truediv__(self, o):
        if isinstance(o, Opaque):
            return OPAQUE
        o = _z(o)
        c = zctx()
        c.prove("div.nonzero", o.v != 0, "divisor %s" % o.v)
        a, b = self.v, o.v
        if a.sort() == z3.IntSort():
            a = z3.ToReal(a)
        if b.sort() == z3.IntSort():
            b = z3.ToReal(b)
        return ZSym(a / b)

    def __rtruediv__(self, o):
        return _z(o).__truediv__(self)

    # comparisons fork
    def _cmp(self, o, op):
        if isinstance(o, Opaque):
            raise Concretization("comparison of a scheduling value with an opaque payload")
        o = _z(o)
        a, b = self, o
        if op == "lt":
            f = z3.And(z3.Not(a.inf), z3.Or(b.inf, a.v < b.v))
        elif op == "le":
            f = z3.Or(b.inf, z3.And(z3.Not(a.inf), a.v <= b.v))
        elif op == "gt":
            f = z3.And(z3.Not(b.inf), z3.Or(a.inf, a.v > b.v))
        elif op == "ge":
            f = z3.Or(a.inf, z3.And(z3.Not(b.inf), a.v >= b.v))
        elif op == "eq":
            f = z3.Or(z3.And(a.inf, b.inf), z3.And(z3.Not(a.inf), z3.Not(b.inf), a.v == b.v))
        else:
            f = z3.Not(z3.Or(z3.And(a.inf, b.inf), z3.And(z3.Not(a.inf), z3.Not(b.inf), a.v == b.v)))
        return zdecide(z3.simplify(f))

    def __lt__(self, o): return self._cmp(o, "lt")
    def __le__(self, o): return self._cmp(o, "le")
    def __gt__(self, o): return self._cmp(o, "gt")
    def __ge__(self, o): return self._cmp(o, "ge")
    def __eq__(self, o):
        try:
            return self._cmp(o, "eq")
        except TypeError:
            return NotImplemented
    def __ne__(self, o):
        try:
            return self._cmp(o, "ne")
        except TypeError:
            return NotImplemented
    __hash__ = None

    def __bool__(self):
        raise Concretization("truth value of a Z-domain term")

    def __index__(self):
        raise Concretization("a symbolic integer was used as a concrete index")

    def __repr__(self):
        return "Z(%s%s)" % (self.v, "" if z3.is_false(self.inf) else " |inf:%s" % self.inf)


def zdecide(f):
    """Fork on the z3 formula f; infeasible branches are pruned with the path's solver."""
    if z3.is_true(f):
        return True
    if z3.is_false(f):
        return False
    p = current_path()
    if p is None:
        raise Concretization("symbolic condition outside an explored path: %s" % f)
    return p.decide(f)


def z_decider(cond, path):
    c = zctx()
    if not isinstance(cond, z3.ExprRef):
        return None
    return (c.feasible(cond), c.feasible(z3.Not(cond)))


def z_after(cond, d):
    c = zctx()
    if isinstance(cond, z3.ExprRef):
        c.s.add(cond if d else z3.Not(cond))


def zmin(*args):
    if len(args) == 1:
        args = tuple(args[0])
    if not any(isinstance(a, ZSym) for a in args):
        return min(*args)
    a = _z(args[0])
    for b in args[1:]:
        b = _z(b)
        take_a = z3.Or(b.inf, z3.And(z3.Not(a.inf), a.v <= b.v))
        a = ZSym(z3.If(take_a, a.v, b.v), z3.simplify(z3.And(a.inf, b.inf)))
    return a


def zmax(*args):
    if len(args) == 1:
        args = tuple(args[0])
    if not any(isinstance(a, ZSym) for a in args):
        return max(*args)
    a = _z(args[0])
    for b in args[1:]:
        b = _z(b)
        take_a = z3.Or(a.inf, z3.And(z3.Not(b.inf), a.v >= b.v))
        a = ZSym(z3.If(take_a, a.v, b.v), z3.simplify(z3.Or(a.inf, b.inf)))
    return a


# ---------------------------------------------------------------------------
# opaque payloads
# ---------------------------------------------------------------------------
class Opaque:
    """Absorbing havoc value: everything a scheduling proof does not look at."""
    _used_in_control = []

    def __getattr__(self, name):
        if name.startswith("__") and name.endswith("__"):
            raise AttributeError(name)
        return OPAQUE

    def __call__(self, *a, **k): return OPAQUE
    def __getitem__(self, k): return OPAQUE
    def __setitem__(self, k, v): pass
    def __setattr__(self, k, v): pass
    def __iter__(self): return iter((OPAQUE, OPAQUE, OPAQUE))
    def _bin(self, *a): return OPAQUE

    def __truediv__(self, o):
        if isinstance(o, ZSym):
            zctx().prove("div.nonzero", o.v != 0, "divisor %s" % o.v)
        return OPAQUE
    __add__ = __radd__ = __sub__ = __rsub__ = __mul__ = __rmul__ = __rtruediv__ = _bin
    __matmul__ = __rmatmul__ = __pow__ = __rpow__ = __neg__ = __pos__ = _bin

    def __bool__(self):
        raise Concretization("an opaque numeric payload flows into a control decision")

    def __len__(self):
        raise Concretization("len() of an opaque payload used concretely")

    def __lt__(self, o): raise Concretization("comparison on an opaque payload")
    __le__ = __gt__ = __ge__ = __lt__
    def __eq__(self, o): return self is o
    def __hash__(self): return 1
    def __repr__(self): return "OPAQUE"


OPAQUE = Opaque()


class GhostList:
    """List whose earlier content is abstracted; appends since the loop head are recorded."""

    def __init__(self, name):
        self.name = name
        self.appended = []

    def append(self, x):
        self.appended.append(x)

    def __bool__(self):
        return zdecide(z3.Bool("nonempty_%s!%d" % (self.name, next(zctx().fresh))))

    def __getitem__(self, k):
        return OPAQUE

    def __iter__(self):
        return iter(())

    def __len__(self):
        raise Concretization("len of ghost list")


def explore_z(fn, max_paths=512):
    """explore() with z3 feasibility pruning; `fn` must create its own ZCtx first thing."""
    from .sym import Path
    todo = [[]]
    out = []
    while todo:
        prefix = todo.pop()
        p = Path(prefix, z_decider)
        p.after = z_after
        try:
            with active(p):
                res = fn()
        except PathInfeasible:
            continue
        out.append((p, res))
        if len(out) > max_paths:
            raise RuntimeError("path explosion (> %d paths)" % max_paths)
        for i in range(len(prefix), len(p.decisions)):
            if p.forkable[i]:
                todo.append(p.decisions[:i] + [not p.decisions[i]])
    return out
