"""Assumed contracts on dependencies (DESIGN section 4), as executable stubs.

Every stub here is *trusted*: it is what the proofs assume scipy / LAPACK do.
Each is sanity-checked on every run against the real library by the CPython
cross-check (`pvx.crosscheck`), which is a bounded check of the assumption.
"""
from __future__ import annotations

import numpy as _np
import sympy as sp

from spec import frames
from .sym import RSym, Sym, unwrap, exact

USED = set()          # names of the assumed contracts actually exercised on this run


def _mat_to_obj(M):
    out = _np.empty(M.shape, dtype=object)
    for i in range(M.shape[0]):
        for j in range(M.shape[1]):
            out[i, j] = RSym(M[i, j])
    return out


def _angles(a):
    """array-like of RSym/number -> object ndarray of sympy expressions."""
    if hasattr(a, "values") and hasattr(a, "index"):
        a = a.values
    arr = _np.asarray(a, dtype=object)
    return unwrap(arr) if arr.ndim else _np.asarray([unwrap(arr.item())], dtype=object)


class RotationStub:
    """scipy.spatial.transform.Rotation, R domain.

    Assumed contract:
      from_euler(seq, angles, degrees): lower-case seq = extrinsic rotations about
        the fixed axes, so 'xyz' with [r,p,h] is Rz(h)Ry(p)Rx(r); upper-case seq =
        intrinsic, so 'ZY' with [a,b] is Rz(a)Ry(b).
      from_matrix(M).as_euler('xyz'): roll=atan2(M21,M22), pitch=-asin(M20),
        heading=atan2(M10,M00) for proper M with |M20|<1.
      from_rotvec(v).as_matrix(): the exponential map; represented by its Taylor
        polynomial of degree `EXPMAP_ORDER` (exact in all coefficients up to that
        order -- the only use made of it).
    """
    EXPMAP_ORDER = 2

    def __init__(self, mats, single):
        self._m = mats          # list of sympy 3x3
        self.single = single

    # -- constructors -----------------------------------------------------------
    @classmethod
    def from_euler(cls, seq, angles, degrees=False):
        USED.add("scipy.Rotation.from_euler")
        if hasattr(angles, "values") and hasattr(angles, "index"):
            angles = angles.values
        arr = _np.asarray(angles, dtype=object)
        ang = unwrap(arr) if arr.ndim else _np.asarray(unwrap(arr.item()), dtype=object)
        if len(seq) == 1:
            single = ang.ndim == 0
            rows = [[a] for a in ang.reshape(-1)]
        else:
            single = ang.ndim == 1
            rows = [list(ang)] if single else [list(r) for r in ang]
        k = sp.pi / 180 if degrees else 1
        mats = []
        for row in rows:
            if len(row) != len(seq):
                raise ValueError("expected %d angles, got %d" % (len(seq), len(row)))
            M = sp.eye(3)
            for ax, a in zip(seq, row):
                Rm = frames.AXIS[ax.lower()](sp.expand(a * k))
                if seq.islower():
                    M = Rm * M          # extrinsic: later rotations multiply on the left
                else:
                    M = M * Rm          # intrinsic
            mats.append(M)
        return cls(mats, single)

    @classmethod
    def from_matrix(cls, mat):
        USED.add("scipy.Rotation.from_matrix")
        arr = _np.asarray(mat, dtype=object)
        if arr.ndim == 2:
            return cls([sp.Matrix(unwrap(arr).tolist())], True)
        return cls([sp.Matrix(unwrap(a).tolist()) for a in arr], False)

    @classmethod
    def from_rotvec(cls, rv, degrees=False):
        USED.add("scipy.Rotation.from_rotvec(series order %d)" % cls.EXPMAP_ORDER)
        arr = _np.asarray(rv, dtype=object)
        if arr.ndim == 1:
            return cls([frames.expmap_series(list(unwrap(arr)), cls.EXPMAP_ORDER)], True)
        return cls([frames.expmap_series(list(unwrap(a)), cls.EXPMAP_ORDER) for a in arr], False)

    # -- accessors -------------------------------------------------------------------
    def as_matrix(self):
        if self.single:
            return _mat_to_obj(self._m[0])
        return _np.stack([_mat_to_obj(M) for M in self._m])

    def as_euler(self, seq, degrees=False):
        USED.add("scipy.Rotation.as_euler")
        if seq != "xyz":
            raise NotImplementedError(seq)
        k = 180 / sp.pi if degrees else 1
        rows = []
        for M in self._m:
            r, p, h = frames.euler_of(M)
            rows.append([RSym(r * k), RSym(p * k), RSym(h * k)])
        out = _np.empty((len(rows), 3), dtype=object)
        for i, row in enumerate(rows):
            out[i, :] = row
        return out[0] if self.single else out

    def __mul__(self, other):
        if self.single and other.single:
            return RotationStub([self._m[0] * other._m[0]], True)
        a = self._m if not self.single else self._m * len(other._m)
        b = other._m if not other.single else other._m * len(self._m)
        return RotationStub([x * y for x, y in zip(a, b)], False)

    def inv(self):
        return RotationStub([M.T for M in self._m], self.single)

    def __len__(self):
        if self.single:
            raise TypeError("Single rotation has no len().")
        return len(self._m)
