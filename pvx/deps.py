"""Assumed contracts on dependencies (DESIGN section 4), as executable stubs.

Every stub here is *trusted*: it is what the proofs assume scipy / LAPACK do.
Each is sanity-checked on every run against the real library by the CPython
cross-check (`pvx.crosscheck`), which is a bounded check of the assumption.
"""
from __future__ import annotations

import numpy as _np
import sympy as sp

from spec import frames
from .sym import RSym, Sym, unwrap, exact

USED = set()          # names of the assumed contracts actually exercised on this run


def _mat_to_obj(M):
    out = _np.empty(M.shape, dtype=object)
    for i in range(M.shape[0]):
        for j in range(M.shape[1]):
            out[i, j] = RSym(M[i, j])
    return out


def _angles(a):
    """array-like of RSym/number -> object ndarray of sympy expressions."""
    if hasattr(a, "values") and hasattr(a, "index"):
        a = a.values
    arr = _np.asarray(a, dtype=object)
    return unwrap(arr) if arr.ndim else _np.asarray([unwrap(arr.item())], dtype=object)


class RotationStub:
    """scipy.spatial.transform.Rotation, R domain.

    Assumed contract:
      from_euler(seq, angles, degrees): lower-case seq = extrinsic rotations about
        the fixed axes, so 'xyz' with [r,p,h] is Rz(h)Ry(p)Rx(r); upper-case seq =
        intrinsic, so 'ZY' with [a,b] is Rz(a)Ry(b).
      from_matrix(M).as_euler('xyz'): roll=atan2(M21,M22), pitch=-asin(M20),
        heading=atan2(M10,M00) for proper M with |M20|<1.
      from_rotvec(v).as_matrix(): the exponential map; represented by its Taylor
        polynomial of degree `EXPMAP_ORDER` (exact in all coefficients up to that
        order -- the only use made of it).
    """
    EXPMAP_ORDER = 2

    def __init__(self, mats, single):
        self._m = mats          # list of sympy 3x3
        self.single = single

    # -- constructors -----------------------------------------------------------
    @classmethod
    def from_euler(cls, seq, angles, degrees=False):
        USED.add("scipy.Rotation.from_euler")
        if hasattr(angles, "values") and hasattr(angles, "index"):
            angles = angles.values
        arr = _np.asarray(angles, dtype=object)
        ang = unwrap(arr) if arr.ndim else _np.asarray(unwrap(arr.item()), dtype=object)
        if len(seq) == 1:
            single = ang.ndim == 0
            rows = [[a] for a in ang.reshape(-1)]
        else:
            single = ang.ndim == 1
            rows = [list(ang)] if single else [list(r) for r in ang]
        k = sp.pi / 180 if degrees else 1
        mats = []
        for row in rows:
            if len(row) != len(seq):
                raise ValueError("expected %d angles, got %d" % (len(seq), len(row)))
            M = sp.eye(3)
            for ax, a in zip(seq, row):
                Rm = frames.AXIS[ax.lower()](sp.expand(a * k))
                if seq.islower():
                    M = Rm * M          # extrinsic: later rotations multiply on the left
                else:
                    M = M * Rm          # intrinsic
            mats.append(M)
        return cls(mats, single)

    @classmethod
    def from_matrix(cls, mat):
        USED.add("scipy.Rotation.from_matrix")
        arr = _np.asarray(mat, dtype=object)
        if arr.ndim == 2:
            return cls([sp.Matrix(unwrap(arr).tolist())], True)
        return cls([sp.Matrix(unwrap(a).tolist()) for a in arr], False)

    @classmethod
    def from_rotvec(cls, rv, degrees=False):
        USED.add("scipy.Rotation.from_rotvec(series order %d)" % cls.EXPMAP_ORDER)
        arr = _np.asarray(rv, dtype=object)
        if arr.ndim == 1:
            return cls([frames.expmap_series(list(unwrap(arr)), cls.EXPMAP_ORDER)], True)
        return cls([frames.expmap_series(list(unwrap(a)), cls.EXPMAP_ORDER) for a in arr], False)

    # -- accessors -------------------------------------------------------------------
    def as_matrix(self):
        if self.single:
            return _mat_to_obj(self._m[0])
        return _np.stack([_mat_to_obj(M) for M in self._m])

    def as_euler(self, seq, degrees=False):
        USED.add("scipy.Rotation.as_euler")
        if seq != "xyz":
            raise NotImplementedError(seq)
        k = 180 / sp.pi if degrees else 1
        rows = []
        for M in self._m:
            r, p, h = frames.euler_of(M)
            rows.append([RSym(r * k), RSym(p * k), RSym(h * k)])
        out = _np.empty((len(rows), 3), dtype=object)
        for i, row in enumerate(rows):
            out[i, :] = row
        return out[0] if self.single else out

    def __mul__(self, other):
        if self.single and other.single:
            return RotationStub([self._m[0] * other._m[0]], True)
        a = self._m if not self.single else self._m * len(other._m)
        b = other._m if not other.single else other._m * len(self._m)
        return RotationStub([x * y for x, y in zip(a, b)], False)

    def inv(self):
        return RotationStub([M.T for M in self._m], self.single)

    def __len__(self):
        if self.single:
            raise TypeError("Single rotation has no len().")
        return len(self._m)


# ---------------------------------------------------------------------------
# which names are EXTERNAL dependencies (replaced by their assumed contracts during proofs)
# ---------------------------------------------------------------------------
EXTERNAL_NAMES = {
    "Rotation": "scipy", "Slerp": "scipy", "RotationSpline": "scipy", "interp1d": "scipy", "CubicSpline": "scipy",
    "CubicHermiteSpline": "scipy", "cholesky": "scipy", "cho_solve": "scipy", "solve_triangular": "scipy", "expm": "scipy",
    "check_random_state": "scipy", "signal": "scipy", "np": "numpy", "pd": "pandas", "numba": "numba",
}


def _origin(obj):
    mod = getattr(obj, "__module__", None)
    if mod is None and hasattr(obj, "__name__") and hasattr(obj, "__file__") is False:
        mod = getattr(obj, "__name__", "")
    if isinstance(obj, type(_np)):
        mod = obj.__name__
    return mod or type(obj).__module__


def _differential(name, ours):
    """bounded differential test of a pyins-defined replacement against the external function whose contract the proofs
    assume; returns a failing input or None.  Structured inputs: exact zeros in every pattern, ill-scaled entries."""
    import itertools
    import scipy.linalg as sl
    rng = _np.random.RandomState(0)
    try:
        if name == "solve_triangular":
            for m in (1, 2, 3, 4):
                for trial in range(6):
                    L = _np.tril(rng.randn(m, m)) + 2 * _np.eye(m)
                    for zeros in itertools.product((0, 1), repeat=m):
                        b = rng.randn(m) * _np.array(zeros)
                        for lower in (True, False):
                            A = L if lower else L.T
                            want = sl.solve_triangular(A, b, lower=lower)
                            got = ours(A, b, lower=lower)
                            if not _np.allclose(got, want, rtol=1e-10, atol=1e-13):
                                return dict(function=name, a=A.tolist(), b=b.tolist(), lower=lower, returned=_np.asarray(got).tolist(), scipy_returns=want.tolist())
        elif name == "cholesky":
            for m in (1, 2, 3, 5):
                for trial in range(8):
                    A = rng.randn(m, m + 2)
                    S = A @ A.T + 1e-3 * _np.eye(m)
                    for lower in (True, False):
                        want = sl.cholesky(S, lower=lower)
                        got = ours(S, lower=lower)
                        if not _np.allclose(got, want, rtol=1e-10, atol=1e-13):
                            return dict(function=name, a=S.tolist(), lower=lower, returned=_np.asarray(got).tolist(), scipy_returns=want.tolist())
        elif name == "cho_solve":
            for m in (1, 2, 3, 5):
                for trial in range(8):
                    A = rng.randn(m, m + 2)
                    S = A @ A.T + 1e-3 * _np.eye(m)
                    B = rng.randn(m, 3) * (rng.rand(m, 3) > 0.3)
                    for lower in (True, False):
                        c = sl.cholesky(S, lower=lower)
                        want = sl.cho_solve((c, lower), B)
                        got = ours((c, lower), B.copy())
                        if not _np.allclose(got, want, rtol=1e-9, atol=1e-12):
                            return dict(function=name, factor=c.tolist(), lower=lower, b=B.tolist(), returned=_np.asarray(got).tolist(), scipy_returns=want.tolist())
        elif name == "expm":
            for m in (1, 2, 4, 9):
                for scale in (0.0, 1e-8, 1e-2, 1.0, 30.0):
                    A = rng.randn(m, m) * scale
                    want = sl.expm(A)
                    got = ours(A)
                    if not _np.allclose(got, want, rtol=1e-9, atol=1e-12 * max(1.0, float(_np.max(_np.abs(want))))):
                        return dict(function=name, a=A.tolist(), returned=_np.asarray(got).tolist(), scipy_returns=want.tolist())
        else:
            return "no-test"
    except Exception as exc:
        return dict(function=name, raised=repr(exc))
    return None


def external_binding_obligations(ctx, py, prefix, modules):
    """The proofs replace scipy / numpy functions by their documented contracts.  That is only legitimate while the name in the
    pyins module really is the external function: if a module rebinds it to code of its own, that code is part of /repo,
    the assumed contract is no longer known to apply, and the obligation becomes a bounded differential test against the
    external function (violation with its input if they differ, undecided otherwise)."""
    from .loader import MODULES
    for m in MODULES:
        if m not in modules:
            continue
        mod = getattr(py, m)
        for name, lib in EXTERNAL_NAMES.items():
            if name not in mod.__dict__:
                continue
            obj = mod.__dict__[name]
            org = _origin(obj) or ""
            if org.split(".")[0] in ("scipy", "numpy", "pandas", "numba"):
                continue
            # rebound to something that is not the library's
            res = _differential(name, obj)
            if isinstance(res, dict):
                ctx.ob("%s.deps.%s.%s" % (prefix, m, name), "c", False, "bounded differential test against the external function", 0.0,
                       "%s.%s is not %s's (%s) and does not meet the contract the proof assumes for it" % (m, name, lib, org), cex=res,
                       native=dict(reproduced=True, **res))
            else:
                ctx.ob("%s.deps.%s.%s" % (prefix, m, name), "c", None, "origin-of-binding", 0.0,
                       "%s.%s is bound to %s, not to %s's function: the contract assumed for it in the proofs is not established "
                       "(%s)" % (m, name, org, lib, "bounded differential test found no difference" if res is None else "no differential test for this name"))
