"""Back end (f): frame / ownership obligations by a flow-sensitive freshness analysis over the
real AST (DESIGN 2.3-f).

Every in-place mutation site of a function (subscript / attribute stores, augmented assignment,
mutating method calls, out= / overwrite_*= / inplace= keywords) generates the obligation "the target
is FRESH: allocated in this call and not an alias or view of a parameter or of module / class level
state".  Origins are tracked per local name by a forward pass over the statements (branches merged
pessimistically, loop bodies analysed twice).

  fresh   : arithmetic results, comparisons, literals, .copy(), allocation, calls of functions that
            return new objects (default for calls), pandas selections (pandas >= 3 copy-on-write:
            a selection never writes through to its parent)
  alias   : a parameter; np.asarray / atleast_xd / ascontiguousarray / transpose / reshape / ravel /
            squeeze / .T / .values / basic slicing of an alias
  shared  : module globals, class attributes (cls.X, ClassName.X), self.X of objects not owned
"""
from __future__ import annotations

import ast

FRESH, ALIAS, SHARED, OWN = "fresh", "alias", "shared", "own"

VIEW_FUNCS = {"asarray", "atleast_1d", "atleast_2d", "atleast_3d", "ascontiguousarray", "transpose", "reshape", "ravel", "squeeze",
              "asanyarray", "swapaxes", "moveaxis", "broadcast_to", "diagonal"}
VIEW_ATTRS = {"T", "values", "real", "flat", "index", "columns", "iloc", "loc", "at", "iat"}
VIEW_METHODS = {"transpose", "reshape", "ravel", "squeeze", "view", "swapaxes", "to_numpy"}
MUTATING_METHODS = {"resize", "sort", "fill", "append", "extend", "insert", "pop", "remove", "clear", "update", "setdefault", "put", "itemset",
                    "partition", "setfield", "setflags", "drop_duplicates_inplace", "popitem", "add", "discard"}
MUTATING_KW = {"out", "inplace", "overwrite_a", "overwrite_b", "overwrite_ab", "overwrite_x", "copy"}


def _rank(a, b):
    order = {FRESH: 0, OWN: 1, ALIAS: 2, SHARED: 3}
    return a if order[a] >= order[b] else b


class Site:
    deferred = False

    def __init__(self, func, lineno, text, origin, kind, target=""):
        self.func, self.lineno, self.text, self.origin, self.kind, self.target = func, lineno, text, origin, kind, target

    def ok(self):
        return self.origin in (FRESH, OWN)


class Analyzer:
    def __init__(self, module_globals, owned_self_attrs=None, class_names=(), summaries=None, cls=None):
        self.module_globals = set(module_globals)
        self.class_names = set(class_names)
        self.owned = owned_self_attrs            # None: every self attribute is the object's own state
        self.sites = []
        self.summaries = summaries or {}         # qualified name of a private helper -> Summary
        self.cls = cls

    # ---- origin of an expression ---------------------------------------------------------------
    def origin(self, node, env):
        if isinstance(node, ast.Name):
            if node.id in env:
                return env[node.id]
            if node.id in self.module_globals or node.id in self.class_names:
                return SHARED
            return FRESH           # builtins / constants
        if isinstance(node, (ast.Constant, ast.BinOp, ast.UnaryOp, ast.Compare, ast.BoolOp, ast.List, ast.Tuple, ast.Dict, ast.Set,
                             ast.ListComp, ast.DictComp, ast.SetComp, ast.GeneratorExp, ast.JoinedStr, ast.Lambda)):
            return FRESH
        if isinstance(node, ast.IfExp):
            return _rank(self.origin(node.body, env), self.origin(node.orelse, env))
        if isinstance(node, ast.Attribute):
            base = self.origin(node.value, env)
            if isinstance(node.value, ast.Name) and node.value.id == "self":
                key = "self.%s" % node.attr
                if key in env and env[key] in (ALIAS, SHARED):
                    return env[key]        # the attribute was bound to a parameter / shared object in this call
                return OWN          # documented or not, an attribute of self is the object's own state (see C19.STATE_WRITERS)
            if isinstance(node.value, ast.Name) and node.value.id == "cls":
                return SHARED
            if base == SHARED:
                # module.CONSTANT / Class.attr
                return SHARED
            if node.attr in VIEW_ATTRS:
                return base
            return base if base in (ALIAS, OWN) else FRESH
        if isinstance(node, ast.Subscript):
            base = self.origin(node.value, env)
            if base == FRESH:
                return FRESH
            # pandas column selection by label list / string on an alias: a new object under copy-on-write;
            # numpy basic slicing: a view.  Without types we are pessimistic except for explicit label lists.
            if isinstance(node.slice, (ast.List,)) or (isinstance(node.slice, ast.Name) and node.slice.id.endswith("_COLS")) \
                    or (isinstance(node.slice, ast.Constant) and isinstance(node.slice.value, str)):
                return FRESH
            return base
        if isinstance(node, ast.Call):
            f = node.func
            if isinstance(f, ast.Attribute):
                if f.attr == "copy" or f.attr in ("astype", "to_frame", "copy_", "tolist", "sum", "mean", "dot", "cumsum", "diff", "abs", "round",
                                                  "difference", "intersection", "union", "rename", "transpose_copy", "as_matrix", "as_euler", "as_quat"):
                    if f.attr == "rename" and any(k.arg == "inplace" for k in node.keywords):
                        return self.origin(f.value, env)
                    return FRESH
                if f.attr in VIEW_FUNCS and isinstance(f.value, ast.Name) and f.value.id in ("np", "numpy"):
                    if f.attr == "asarray" and any(k.arg == "dtype" for k in node.keywords) or len(node.args) > 1 and f.attr == "asarray":
                        # np.asarray(x, dtype=float) is still an alias when x already has that dtype
                        return self.origin(node.args[0], env) if node.args else FRESH
                    return self.origin(node.args[0], env) if node.args else FRESH
                if f.attr in VIEW_METHODS:
                    return self.origin(f.value, env)
                if f.attr == "transpose" and any(k.arg == "copy" for k in node.keywords):
                    return FRESH
                return FRESH
            return FRESH
        if isinstance(node, ast.Starred):
            return self.origin(node.value, env)
        return FRESH

    # ---- mutation sites ---------------------------------------------------------------------------
    def _base(self, node):
        while isinstance(node, (ast.Subscript, ast.Attribute)) and not (isinstance(node, ast.Attribute) and isinstance(node.value, ast.Name) and node.value.id in ("self", "cls")):
            node = node.value
        return node

    def _site(self, fname, node, target, env, kind):
        base = self._base(target)
        org = self.origin(base, env)
        self.sites.append(Site(fname, getattr(node, "lineno", 0), ast.unparse(node)[:120], org, kind, ast.unparse(base)))

    def _store_target(self, fname, st, tgt, env, value_origin):
        if isinstance(tgt, ast.Name):
            env[tgt.id] = value_origin
        elif isinstance(tgt, (ast.Tuple, ast.List)):
            for e in tgt.elts:
                self._store_target(fname, st, e, env, value_origin if value_origin != FRESH else FRESH)
        elif isinstance(tgt, ast.Subscript):
            self._site(fname, st, tgt.value, env, "item-store")
        elif isinstance(tgt, ast.Attribute):
            if isinstance(tgt.value, ast.Name) and tgt.value.id == "self":
                env["self.%s" % tgt.attr] = value_origin
                if self.owned is not None and tgt.attr not in self.owned:
                    self.sites.append(Site(fname, st.lineno, ast.unparse(st)[:120], OWN, "attribute-store(self.%s, not among the documented state)" % tgt.attr))
                else:
                    self.sites.append(Site(fname, st.lineno, ast.unparse(st)[:120], OWN, "attribute-store(self)"))
            else:
                self._site(fname, st, tgt.value, env, "attribute-store")
        elif isinstance(tgt, ast.Starred):
            self._store_target(fname, st, tgt.value, env, value_origin)

    def _helper_call(self, fname, c, env):
        """a call of a private helper of the same module / class: what the helper does to its parameters (and to self)
        happens, as far as the frame is concerned, in the caller"""
        f = c.func
        key = None
        if isinstance(f, ast.Name):
            key = f.id
        elif isinstance(f, ast.Attribute) and isinstance(f.value, ast.Name) and f.value.id == "self" and self.cls:
            key = "%s.%s" % (self.cls, f.attr)
        sm = self.summaries.get(key)
        if sm is None:
            return
        actual = {}
        for i, a in enumerate(c.args):
            if i < len(sm.params):
                actual[sm.params[i]] = a
        for k in c.keywords:
            if k.arg:
                actual[k.arg] = k.value
        for pn in sorted(sm.mutated):
            if pn in actual:
                base = self._base(actual[pn])
                self.sites.append(Site(fname, c.lineno, ast.unparse(c)[:120], self.origin(base, env), "call:%s mutates its parameter %s" % (key, pn),
                                       ast.unparse(base)))
        if sm.writes_self:
            self.sites.append(Site(fname, c.lineno, ast.unparse(c)[:120], OWN, "method:%s (writes the object's own state)" % key, "self"))
        for what in sorted(sm.shared):
            self.sites.append(Site(fname, c.lineno, ast.unparse(c)[:120], SHARED, "call:%s writes %s" % (key, what), what))

    def _calls(self, fname, node, env):
        for c in ast.walk(node):
            if not isinstance(c, ast.Call):
                continue
            self._helper_call(fname, c, env)
            if isinstance(c.func, ast.Attribute) and c.func.attr in MUTATING_METHODS:
                base = self._base(c.func.value)
                org = self.origin(base, env)
                # list.append etc. on a fresh local is fine; np.append(...) is a pure function of module np
                if isinstance(c.func.value, ast.Name) and c.func.value.id in ("np", "numpy", "pd", "signal", "util"):
                    continue
                self.sites.append(Site(fname, c.lineno, ast.unparse(c)[:120], org, "method:%s" % c.func.attr))
            for k in c.keywords:
                if k.arg in MUTATING_KW and k.arg != "copy":
                    truthy = not (isinstance(k.value, ast.Constant) and k.value.value in (False, None))
                    if not truthy:
                        continue
                    if k.arg == "out":
                        self._site(fname, c, k.value, env, "out=")
                    elif k.arg == "inplace":
                        if isinstance(c.func, ast.Attribute):
                            self._site(fname, c, c.func.value, env, "inplace=True")
                    else:
                        # overwrite_a / overwrite_b: the overwritten positional argument
                        idx = 0 if k.arg in ("overwrite_a", "overwrite_x") else 1
                        if len(c.args) > idx:
                            self._site(fname, c, c.args[idx], env, k.arg + "=True")
            # positional `out` of np.dot(a, b, out)
            if isinstance(c.func, ast.Attribute) and c.func.attr in ("dot", "matmul", "multiply", "add") and isinstance(c.func.value, ast.Name) and c.func.value.id == "np" and len(c.args) == 3:
                self._site(fname, c, c.args[2], env, "out(positional)")

    def run_block(self, fname, stmts, env):
        for st in stmts:
            if isinstance(st, (ast.FunctionDef, ast.ClassDef)):
                continue
            if isinstance(st, ast.Global):
                for n in st.names:
                    self.sites.append(Site(fname, st.lineno, "global %s" % n, SHARED, "global-statement"))
                continue
            self._calls(fname, st, env) if not isinstance(st, (ast.If, ast.For, ast.While, ast.With, ast.Try)) else None
            if isinstance(st, ast.Assign):
                vo = self.origin(st.value, env)
                for t in st.targets:
                    self._store_target(fname, st, t, env, vo)
            elif isinstance(st, ast.AnnAssign) and st.value is not None:
                self._store_target(fname, st, st.target, env, self.origin(st.value, env))
            elif isinstance(st, ast.AugAssign):
                t = st.target
                if isinstance(t, ast.Name):
                    org = env.get(t.id, SHARED if t.id in self.module_globals else FRESH)
                    # x += y mutates in place when x is an array / table: the name must be fresh
                    self.sites.append(Site(fname, st.lineno, ast.unparse(st)[:120], org, "augmented-assignment", t.id))
                else:
                    self._store_target(fname, st, t, env, FRESH)
            elif isinstance(st, ast.If):
                self._calls(fname, st.test, env)
                e1, e2 = dict(env), dict(env)
                self.run_block(fname, st.body, e1)
                self.run_block(fname, st.orelse, e2)
                for k in set(e1) | set(e2):
                    env[k] = _rank(e1.get(k, env.get(k, FRESH)), e2.get(k, env.get(k, FRESH)))
            elif isinstance(st, (ast.For, ast.While)):
                if isinstance(st, ast.For):
                    self._calls(fname, st.iter, env)
                    self._store_target(fname, st, st.target, env, self.origin(st.iter, env) if not isinstance(st.iter, ast.Call) else FRESH)
                else:
                    self._calls(fname, st.test, env)
                for _ in range(2):
                    self.run_block(fname, st.body, env)
                self.run_block(fname, st.orelse, env)
            elif isinstance(st, ast.With):
                self.run_block(fname, st.body, env)
            elif isinstance(st, ast.Try):
                self.run_block(fname, st.body, env)
                for h in st.handlers:
                    self.run_block(fname, h.body, env)
                self.run_block(fname, st.finalbody, env)

    def function(self, fn, qualname, is_method=False):
        env = {}
        args = fn.args
        for a in list(args.posonlyargs) + list(args.args) + list(args.kwonlyargs):
            if a.arg in ("self", "cls"):
                continue
            env[a.arg] = ALIAS
        if args.vararg:
            env[args.vararg.arg] = ALIAS
        if args.kwarg:
            env[args.kwarg.arg] = ALIAS
        self.run_block(qualname, fn.body, env)


class Summary:
    def __init__(self, params):
        self.params = params
        self.mutated = set()        # parameter names the helper mutates in place
        self.writes_self = False    # the helper (a method) writes the object's own state
        self.shared = set()         # module / class level objects it writes (always a violation, also at the caller)


def is_private(qualname):
    last = qualname.split(".")[-1]
    return last.startswith("_") and not (last.startswith("__") and last.endswith("__"))


def analyze_module(source, owned=None):
    """Returns list of Site for every function / method of the module source.
    owned: dict ClassName -> set of self attributes that are the object's own documented mutable state (None = all).
    Private helpers (leading underscore) are summarised -- which parameters they mutate, whether they write self -- and
    every call of one is charged to the caller with the caller's origins (iterated to a fixed point), so extracting or
    inlining a helper does not change the verdict of the public function."""
    tree = ast.parse(source)
    defs = []
    for n in tree.body:
        if isinstance(n, ast.FunctionDef):
            defs.append((n.name, n, None))
        elif isinstance(n, ast.ClassDef):
            for m in n.body:
                if isinstance(m, ast.FunctionDef):
                    defs.append(("%s.%s" % (n.name, m.name), m, n.name))
    summaries = {}
    for q, fn, cls in defs:
        if is_private(q):
            summaries[q] = Summary([a.arg for a in list(fn.args.posonlyargs) + list(fn.args.args) if a.arg not in ("self", "cls")])
    sites = []
    for _ in range(4):
        sites = _analyze(tree, owned, summaries)
        changed = False
        for st in sites:
            sm = summaries.get(st.func)
            if sm is None:
                continue
            if st.origin == ALIAS and st.target in sm.params and st.target not in sm.mutated:
                sm.mutated.add(st.target)
                changed = True
            if st.origin == OWN and st.kind.startswith(("attribute-store", "item-store", "augmented", "method:")) and not sm.writes_self:
                sm.writes_self = True
                changed = True
            if st.origin == SHARED and st.target not in sm.shared:
                sm.shared.add(st.target or st.text)
                changed = True
        if not changed:
            break
    for st in sites:
        st.deferred = False
        sm = summaries.get(st.func)
        if sm is not None and ((st.origin == ALIAS and st.target in sm.params) or st.origin == OWN):
            st.deferred = True          # judged at the callers
    return sites


def _analyze(tree, owned, summaries):
    globals_ = set()
    classes = set()
    for n in tree.body:
        if isinstance(n, ast.Assign):
            for t in n.targets:
                for x in ast.walk(t):
                    if isinstance(x, ast.Name):
                        globals_.add(x.id)
        elif isinstance(n, ast.ClassDef):
            classes.add(n.name)
    sites = []
    for n in tree.body:
        if isinstance(n, ast.FunctionDef):
            a = Analyzer(globals_, None, classes, summaries)
            a.function(n, n.name)
            sites += a.sites
        elif isinstance(n, ast.ClassDef):
            for m in n.body:
                if isinstance(m, ast.FunctionDef):
                    a = Analyzer(globals_, (owned or {}).get(n.name), classes, summaries, cls=n.name)
                    a.function(m, "%s.%s" % (n.name, m.name), True)
                    sites += a.sites
    return sites
