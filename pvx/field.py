"""Back end (a)/(b): decide `expr == 0` for expressions built from symbols,
sin/cos/tan of named angles and square roots of named radicands.

Method (DESIGN 2.3-a): map every sin/cos to generators (s, c), every radical to
a generator w, convert to the fraction field QQ(gens), reduce the numerator
modulo the relations  c^2 + s^2 - 1,  w^2 - radicand.  Generators are ordered
*eliminated first* (radicals, then cosines, then sines, then the rest) so the
leading terms w^2, c^2 are pairwise coprime and the relation set is a Groebner
basis (Buchberger's first criterion): the remainder is canonical, zero
remainder <=> identity (for radicands / denominators non-zero on the domain).

A non-zero remainder alone is never a refutation; refutation is numeric
evaluation of the *original* expression with mpmath at 50/100 digits at random
points of the stated domain.
"""
from __future__ import annotations

import random
import time

import mpmath
import sympy as sp
from sympy.polys.fields import field as _field
from sympy.polys.rings import ring as _ring

PI = sp.Symbol("PI_", positive=True)


class Verdict:
    __slots__ = ("status", "backend", "time_s", "detail", "point", "value", "bounded")

    def __init__(self, status, backend, time_s=0.0, detail="", point=None, value=None, bounded=False):
        self.status = status        # 'proved' | 'refuted' | 'undecided'
        self.bounded = bounded      # True: held on a sample only (never counted as proved)
        self.backend = backend
        self.time_s = time_s
        self.detail = detail
        self.point = point
        self.value = value

    def __repr__(self):
        return "Verdict(%s, %s, %.3fs%s)" % (self.status, self.backend, self.time_s,
                                             ", " + self.detail if self.detail else "")


# ---------------------------------------------------------------------------
# numeric refuter
# ---------------------------------------------------------------------------
DEFAULT_BOX = (0.35, 1.45)


def sample_point(symbols, domain, rng):
    pt = {}
    for s in symbols:
        lo, hi = (domain or {}).get(s, (None, None))
        if lo is None:
            lo, hi = DEFAULT_BOX
            v = rng.uniform(lo, hi)
            if not (s.is_positive or s.is_nonnegative):
                v = v if rng.random() < 0.5 else -v
        elif lo == hi:
            pt[s] = sp.Rational(repr(float(lo)))
            continue
        else:
            v = rng.uniform(lo, hi)
        # rational with small denominator -> exactly representable decimal
        pt[s] = sp.Rational(int(round(v * 10 ** 6)), 10 ** 6)
    return pt


def numeric_value(expr, point, dps=50):
    syms = sorted(expr.free_symbols, key=lambda s: s.name)
    f = sp.lambdify(syms, expr, modules="mpmath")
    with mpmath.workdps(dps):
        args = [mpmath.mpf(point[s].p) / mpmath.mpf(point[s].q) for s in syms]
        return f(*args)


ROUNDING_REL = 1e-13


def rounding_level(expr, domain, seed, points=None, n=24, sides=None):
    """(points evaluated, largest ratio) if at every one of `n` sampled points (or of the given path witnesses) the residual
    `expr` = got - want is at most ROUNDING_REL of max(|got|, |want|) (`sides`; sympy has usually collected the residual into
    (c_float - c_exact) * stuff, so its own terms carry no scale); else None."""
    expr = sp.sympify(expr)
    if expr.is_number or sides is None:
        return None
    got_, want_ = sp.sympify(sides[0]), sp.sympify(sides[1])
    if got_ == 0 or want_ == 0:
        return None                      # an exact zero is demanded (or delivered): no scale, stays a refutation
    terms = [got_, -want_]
    syms = sorted(expr.free_symbols | got_.free_symbols | want_.free_symbols, key=lambda s: s.name)
    try:
        f = sp.lambdify(syms, terms, modules="mpmath")
    except Exception:
        return None
    rng = random.Random(seed + 4242)
    pts = []
    if points is not None:
        for pt in points:
            pt = dict(pt)
            for s_ in syms:
                if s_ not in pt and domain and s_ in domain and domain[s_][0] == domain[s_][1]:
                    pt[s_] = domain[s_][0]
            if all(s_ in pt for s_ in syms):
                pts.append({s_: sp.Rational(repr(float(pt[s_]))) for s_ in syms})
    else:
        pts = [sample_point(syms, domain, rng) for _ in range(n)]
    done = 0
    worst = 0.0
    for pt in pts:
        try:
            with mpmath.workdps(60):
                vals = f(*[mpmath.mpf(pt[s_].p) / mpmath.mpf(pt[s_].q) for s_ in syms])
                vals = [v_.real if isinstance(v_, mpmath.mpc) else v_ for v_ in vals]
                tot = abs(mpmath.fsum(vals))
                scale = max(abs(v_) for v_ in vals)
        except (ZeroDivisionError, ValueError, OverflowError, TypeError):
            continue
        if scale == 0:
            continue
        ratio = float(tot / scale)
        if not ratio <= ROUNDING_REL:
            return None
        worst = max(worst, ratio)
        done += 1
    if done < (1 if points is not None else n // 2):
        return None
    return done, worst


def refute(expr, domain=None, seed=0, n_points=3, points=None):
    """Return (point, value) with value != 0, or None if all points evaluate to ~0.
    With `points` (a list of {Symbol: number}) only those points are evaluated (inputs known to lie on one path)."""
    expr = sp.sympify(expr)
    if points is not None and not expr.is_number:
        syms = sorted(expr.free_symbols, key=lambda s: s.name)
        f = sp.lambdify(syms, expr, modules="mpmath")
        for pt in points:
            pt = dict(pt)
            for s_ in syms:                      # constants of the contract (degenerate boxes) are not part of a witness
                if s_ not in pt and domain and s_ in domain and domain[s_][0] == domain[s_][1]:
                    pt[s_] = domain[s_][0]
            try:
                with mpmath.workdps(60):
                    a = [mpmath.mpf(sp.Rational(repr(float(pt[s]))).p) / mpmath.mpf(sp.Rational(repr(float(pt[s]))).q) for s in syms]
                    v = f(*a)
                    if isinstance(v, mpmath.mpc):
                        if abs(v.imag) > mpmath.mpf("1e-30"):
                            continue
                        v = v.real
                    if abs(v) > mpmath.mpf("1e-25"):
                        return {s: sp.Rational(repr(float(pt[s]))) for s in syms}, v
            except (ZeroDivisionError, ValueError, OverflowError, KeyError):
                continue
        return None
    if expr.is_number:
        v = sp.N(expr, 50)
        if v.has(sp.nan, sp.zoo) or not v.is_comparable:
            return None                  # not a number the refuter can judge (0/0 at a removable singularity): left to the proof
        if abs(v) > sp.Float("1e-30"):
            return {}, v
        return None
    rng = random.Random(seed)
    syms = sorted(expr.free_symbols, key=lambda s: s.name)
    f = sp.lambdify(syms, expr, modules="mpmath")
    tried = 0
    attempts = 0
    while tried < n_points and attempts < 10 * n_points:
        attempts += 1
        pt = sample_point(syms, domain, rng)
        try:
            with mpmath.workdps(50):
                a = [mpmath.mpf(pt[s].p) / mpmath.mpf(pt[s].q) for s in syms]
                v = f(*a)
                if isinstance(v, mpmath.mpc):
                    if abs(v.imag) > mpmath.mpf("1e-30"):
                        continue          # outside the real domain of a radical: resample
                    v = v.real
                av = abs(v)
        except (ZeroDivisionError, ValueError, OverflowError):
            continue
        tried += 1
        if av > mpmath.mpf("1e-25"):
            with mpmath.workdps(100):
                a = [mpmath.mpf(pt[s].p) / mpmath.mpf(pt[s].q) for s in syms]
                v2 = f(*a)
                if isinstance(v2, mpmath.mpc):
                    v2 = v2.real
            if abs(v2) > mpmath.mpf("1e-25"):
                return pt, v2
    return None


# ---------------------------------------------------------------------------
# normal form
# ---------------------------------------------------------------------------
def _gen_name(prefix, k):
    return sp.Symbol("%s%d_" % (prefix, k), real=True)


class Generators:
    """Mapping of transcendental / algebraic atoms to polynomial generators."""

    def __init__(self):
        self.trig = {}       # angle arg -> (s, c)
        self.rad = {}        # radicand expr (already substituted) -> w
        self.rad_order = []

    def trig_gens(self, arg):
        g = self.trig.get(arg)
        if g is None:
            k = len(self.trig)
            g = (_gen_name("s", k), _gen_name("c", k))
            self.trig[arg] = g
        return g

    def rad_gen(self, radicand):
        g = self.rad.get(radicand)
        if g is None:
            g = sp.Symbol("w%d_" % len(self.rad), positive=True)
            self.rad[radicand] = g
            self.rad_order.append(radicand)
        return g


def _expand_trig_args(expr):
    """Rewrite sin/cos of sums / integer multiples into products of sin/cos of atoms."""
    def needs(a):
        arg = a.args[0]
        if arg.is_Add:
            return True
        if arg.is_Mul:
            c, _ = arg.as_coeff_Mul()
            return c.is_Integer and c != 1 and c != -1 or (c == -1)
        return False

    for _ in range(6):
        atoms = [a for a in expr.atoms(sp.sin, sp.cos) if needs(a)]
        if not atoms:
            break
        expr = expr.xreplace({a: sp.expand_trig(a) for a in atoms})
    return expr


def _perfect_square_root(n, gens, cos_nonneg, domain, seed=0):
    """If the radicand `n` (polynomial in the generators) is, modulo the trig relations, a perfect
    square q^2 with q of constant sign on the domain, return sign*q (so that sqrt(n) = |q|)."""
    try:
        trig_syms = [g for pair in gens.trig.values() for g in pair]
        used = [g for g in trig_syms if n.has(g)]
        if used:
            cs = [c for (_, c) in gens.trig.values() if n.has(c) or True]
            ss = [s_ for (s_, _) in gens.trig.values()]
            others = sorted(n.free_symbols - set(cs) - set(ss), key=lambda x: x.name)
            Rg, *_ = _ring(cs + ss + others, sp.QQ, order=sp.polys.orderings.lex)
            pn = Rg.from_expr(n)
            rels = [Rg.from_expr(c ** 2 + s_ ** 2 - 1) for (s_, c) in gens.trig.values()]
            # candidates: monomials in the cosines declared non-negative (sign known: +)
            import itertools
            cpos = [gens.trig[a][1] for a in cos_nonneg if a in gens.trig]
            cands = list(cpos) + [a_ * b_ for a_, b_ in itertools.combinations_with_replacement(cpos, 2)]
            for q in cands:
                if (pn - Rg.from_expr(q) ** 2).rem(rels) == 0:
                    return q
            n_red = pn.rem(rels).as_expr()
        else:
            n_red = n
        coeff, factors = sp.factor_list(n_red)
        if coeff <= 0 or any(m % 2 for _, m in factors) or not factors:
            return None
        rc = sp.sqrt(coeff)
        if not rc.is_rational:
            return None
        q = rc * sp.Mul(*[f ** (m // 2) for f, m in factors])
        # sign of q on the domain
        back = {}
        for arg, (sg, cg) in gens.trig.items():
            back[sg] = sp.sin(arg)
            back[cg] = sp.cos(arg)
        back[PI] = sp.pi
        q_real = q.xreplace(back)
        # structural: product of powers of cos of declared non-negative-cosine angles and positive symbols
        sign = None
        ok_struct = True
        for f, m in factors:
            fr = f.xreplace(back)
            if any(fr == sp.cos(a) for a in cos_nonneg) or fr.is_positive:
                continue
            ok_struct = False
        if ok_struct:
            sign = 1
        else:
            from . import nonzero
            from .claims import CONST_BOX
            box = dict(CONST_BOX)
            for kk, vv in (domain or {}).items():
                if isinstance(vv, tuple) and vv[0] != vv[1]:
                    box[kk] = vv
            vz = nonzero.check_nonzero(q_real, box, seed=seed)
            if vz.status == "proved":
                r = refute(q_real, box, seed, 1)
                if r is not None:
                    sign = 1 if r[1] > 0 else -1
        if sign is None:
            return None
        return sign * q
    except Exception:
        return None


def substitute(expr, gens=None, cos_nonneg=(), domain=None):
    """Replace tan, sin, cos, sqrt-powers and pi by polynomial generators.

    `cos_nonneg`: angles whose cosine is >= 0 on the domain (a stated side
    condition); for those sqrt(1 - sin(a)^2) is identified with cos(a)."""
    gens = gens or Generators()
    expr = sp.sympify(expr)
    expr = expr.replace(lambda e: isinstance(e, sp.tan), lambda e: sp.sin(e.args[0]) / sp.cos(e.args[0]))
    rep = {}
    for a in expr.atoms(sp.sin, sp.cos):
        ex = sp.expand(a.args[0])
        if ex != a.args[0]:
            rep[a] = a.func(ex)
    if rep:
        expr = expr.xreplace(rep)
    expr = _expand_trig_args(expr)
    rep = {}
    for a in expr.atoms(sp.sin, sp.cos):
        s, c = gens.trig_gens(a.args[0])
        rep[a] = s if isinstance(a, sp.sin) else c
    expr = expr.xreplace(rep)
    expr = expr.xreplace({sp.pi: PI})

    # radicals, innermost first
    def is_rad(e):
        return e.is_Pow and e.exp.is_Rational and e.exp.q == 2

    for _ in range(8):
        rads = [e for e in expr.atoms(sp.Pow) if is_rad(e)]
        if not rads:
            break
        # innermost: radicand free of other radicals
        inner = [e for e in rads if not any(is_rad(x) for x in e.base.atoms(sp.Pow))]
        rep = {}
        for e in inner:
            base = sp.together(e.base)
            n, d = sp.fraction(base)
            if d == 1:
                n = sp.expand(n)
                hit = None
                for ang in cos_nonneg:
                    if ang in gens.trig:
                        sg, cg = gens.trig[ang]
                        if sp.expand(n - (1 - sg ** 2)) == 0:
                            hit = cg
                if hit is not None:
                    rep[e] = hit ** e.exp.p
                    continue
                q = _perfect_square_root(n, gens, cos_nonneg, domain)
                if q is not None:
                    rep[e] = q ** e.exp.p
                    continue
                w = gens.rad_gen(n)
                rep[e] = w ** e.exp.p
            else:
                q = _perfect_square_root(sp.expand(n * d), gens, cos_nonneg, domain)
                if q is not None:
                    rep[e] = (q / d) ** e.exp.p
                    continue
                w = gens.rad_gen(sp.expand(n * d))
                rep[e] = (w / d) ** e.exp.p
        expr = expr.xreplace(rep)
    return expr, gens


def normal_form(expr, gens=None, extra_relations=(), cos_nonneg=(), full=False, domain=None):
    """Return (remainder PolyElement, ring) of the numerator of `expr`
    (with full=True: (numerator remainder, reduced denominator, ring, Generators))."""
    sub, gens = substitute(expr, gens, cos_nonneg, domain)
    extra_sub = [substitute(r, gens, cos_nonneg, domain)[0] for r in extra_relations]
    free = set(sub.free_symbols)
    for r in list(gens.rad) + extra_sub:
        free |= r.free_symbols
    others = sorted(free - {g for pair in gens.trig.values() for g in pair}
                    - set(gens.rad.values()), key=lambda s: s.name)
    ws = [gens.rad[r] for r in reversed(gens.rad_order)]     # outer radicals first
    cs = [c for (_, c) in gens.trig.values()]
    ss = [s for (s, _) in gens.trig.values()]
    order = ws + cs + ss + others
    if not order:
        v = sp.nsimplify(sub)
        return (v, sp.Integer(1), None, gens) if full else (v, None)
    K, *_ = _field(order, sp.QQ, order=sp.polys.orderings.lex)
    el = K.from_expr(sub)
    num = el.numer
    Rg = num.ring
    rels = []
    for radicand, w in gens.rad.items():
        rels.append(Rg.from_expr(w ** 2 - radicand))
    for (s, c) in gens.trig.values():
        rels.append(Rg.from_expr(c ** 2 + s ** 2 - 1))
    for rr in extra_sub:
        rels.append(Rg.from_expr(sp.numer(sp.together(rr))))
    if rels:
        # radicands may mention cosines: make relations themselves reduced (still GB: leading terms w^2, c^2)
        num = num.rem(rels)
    if full:
        den = el.denom
        if rels:
            den = den.rem(rels)
        return num, den, Rg, gens
    return num, Rg


N_POINTS = 3


def check_zero(expr, domain=None, seed=0, n_points=None, extra_relations=(), cos_nonneg=(), budget_s=None, points=None, sides=None):
    """Decide expr == 0 on the domain.  Verdict.status in proved/refuted/undecided.
    `points`: restrict the numeric refuter to these inputs (the residual belongs to one execution path)."""
    t0 = time.time()
    n_points = N_POINTS if n_points is None else n_points
    expr = sp.sympify(expr)
    if expr == 0:
        return Verdict("proved", "syntactic", time.time() - t0)
    # with extra relations (e.g. orthogonality of a generic rotation matrix) the
    # numeric refuter cannot sample the variety, so it is skipped
    if not extra_relations:
        r = refute(expr, domain, seed, n_points, points=points)
        if r is not None:
            pt, v = r
            rl = rounding_level(expr, domain, seed, points, sides=sides)
            if rl is not None:
                # a literal of the code that is itself a rounded value (ONE_TWELFTH = 1.0 / 12.0, a reciprocal computed at import)
                # makes the identity false over the reals by ~1e-17 of its terms: that is the code's float64 rounding, not a
                # disagreement with the contract.  Held on a sample only: labelled bounded, never counted as proved.
                return Verdict("proved", "identity-up-to-float-rounding(sampled)", time.time() - t0,
                               "code and contract agree to %.1e of their magnitude at %d sampled points (largest ratio %.1e): float-rounded literal "
                               "constants in the code; bounded, not a proof" % (ROUNDING_REL, rl[0], rl[1]), bounded=True)
            return Verdict("refuted", "mpmath-100" if points is None else "mpmath-60(at path witnesses)", time.time() - t0,
                           "value %s" % mpmath.nstr(v, 8) if not isinstance(v, sp.Basic) else "value %s" % v,
                           point={str(k): str(val) for k, val in pt.items()}, value=str(v))
    if expr.atoms(sp.atan2, sp.asin):
        v = angle_congruence(expr, domain, cos_nonneg, seed)
        if v is not None:
            v.time_s = time.time() - t0
            return v
    try:
        rem, _ = normal_form(expr, extra_relations=extra_relations, cos_nonneg=cos_nonneg, domain=domain)
    except Exception as exc:  # conversion outside the expression class
        return Verdict("undecided", "field-nf", time.time() - t0, "normal form failed: %r" % (exc,))
    if rem == 0:
        return Verdict("proved", "field-nf", time.time() - t0)
    if sides is not None and not extra_relations:
        rl = rounding_level(expr, domain, seed, points, sides=sides)
        if rl is not None:
            return Verdict("proved", "identity-up-to-float-rounding(sampled)", time.time() - t0,
                           "no exact identity (non-zero remainder), but code and contract agree to %.1e of their magnitude at %d sampled points (largest "
                           "ratio %.1e): float-rounded literal constants in the code (1 / 6 is a float); bounded, not a proof" % (ROUNDING_REL, rl[0], rl[1]), bounded=True)
    return Verdict("undecided", "field-nf", time.time() - t0,
                   "non-zero remainder (%d terms) but numerically zero at %d points"
                   % (len(rem.terms()) if hasattr(rem, "terms") else 1, n_points))


def _back_substitute(poly_or_expr, gens):
    e = poly_or_expr.as_expr() if hasattr(poly_or_expr, "as_expr") else sp.sympify(poly_or_expr)
    back = {PI: sp.pi}
    for arg, (sg, cg) in gens.trig.items():
        back[sg] = sp.sin(arg)
        back[cg] = sp.cos(arg)
    for _ in range(3):
        for rad, w in gens.rad.items():
            back[w] = sp.sqrt(sp.sympify(rad).xreplace(back))
    return e.xreplace(back)


def check_positive(expr, domain=None, cos_nonneg=(), seed=0):
    """expr > 0 on the domain: reduce to normal form num/den, enclose both away from zero by
    interval arithmetic, and take the sign at one sample point (the box is connected)."""
    from . import nonzero
    from .claims import CONST_BOX
    box = dict(CONST_BOX)
    for kk, vv in (domain or {}).items():
        if isinstance(vv, tuple) and vv[0] != vv[1]:
            box[kk] = vv
    try:
        num, den, Rg, gens = normal_form(expr, cos_nonneg=cos_nonneg, full=True)
        n_e, d_e = _back_substitute(num, gens), _back_substitute(den, gens)
    except Exception as exc:
        n_e, d_e = sp.sympify(expr), sp.Integer(1)
    for part in (n_e, d_e):
        if part.is_number:
            if part == 0:
                return Verdict("undecided", "interval(mpmath.iv)", 0.0, "zero factor")
            continue
        v = nonzero.check_nonzero(part, box, seed=seed)
        if v.status != "proved":
            return Verdict("undecided", "interval(mpmath.iv)", 0.0, "cannot sign %s: %s" % (str(part)[:80], v.detail))
    r = refute(n_e / d_e, box, seed, 1)
    if r is not None and r[1] > 0:
        return Verdict("proved", "field-nf+interval(mpmath.iv)", 0.0, "reduced to (%s)/(%s) > 0" % (str(n_e)[:60], str(d_e)[:40]))
    return Verdict("undecided", "interval(mpmath.iv)", 0.0, "sign at sample point not positive")


def angle_congruence(expr, domain=None, cos_nonneg=(), seed=0):
    """expr = k*(atan2(Y, X) - a)  (a free of inverse trigonometric functions):
         atan2(Y, X) == a (mod 2 pi)  <=>  Y cos a - X sin a == 0  and  S := X cos a + Y sin a > 0.
       expr = k*(asin(u) - a), a declared in [-pi/2, pi/2]:  <=>  u == sin a.
    Returns a Verdict (backend says the equality is modulo 2 pi) or None if the form does not apply."""
    at = list(expr.atoms(sp.atan2)) + list(expr.atoms(sp.asin))
    if len(at) != 1:
        return None
    A = at[0]
    D_ = sp.Dummy("A")
    ex = sp.expand(expr.xreplace({A: D_}))
    k = sp.diff(ex, D_)
    if k == 0 or (k.free_symbols - {PI}):
        return None
    rest = sp.expand(ex - k * D_)
    if rest.has(D_):
        return None
    ang = sp.expand(-rest / k)
    if ang.atoms(sp.atan2, sp.asin):
        return None
    if isinstance(A, sp.asin):
        if not any(ang == c for c in cos_nonneg):
            return Verdict("undecided", "asin-principal-branch", 0.0, "angle %s not declared in [-pi/2, pi/2]" % ang)
        v = check_zero(A.args[0] - sp.sin(ang), domain=domain, seed=seed, cos_nonneg=cos_nonneg)
        if v.status == "proved":
            v.backend = "field-nf(asin principal branch)"
        return v
    Y, X = A.args
    v1 = check_zero(Y * sp.cos(ang) - X * sp.sin(ang), domain=domain, seed=seed, cos_nonneg=cos_nonneg)
    if v1.status != "proved":
        return v1
    v2 = check_positive(X * sp.cos(ang) + Y * sp.sin(ang), domain, cos_nonneg, seed)
    if v2.status == "proved":
        return Verdict("proved", "field-nf(atan2 congruence, equality modulo 2*pi)+interval", 0.0, v2.detail)
    return Verdict("undecided", "atan2-congruence", 0.0, "direction proved, positive scale not: " + v2.detail)
