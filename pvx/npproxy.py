"""Thin proxy of the module-global `np` of a pyins module under verification.

Only *allocation* and a few LAPACK-backed entry points are redirected, so that
arrays can hold symbolic scalars; every structural operation (indexing,
broadcasting, einsum, cross, hstack, ix_ ...) is executed by the real numpy on
`object` arrays (assumption A2 of DESIGN.md).
"""
from __future__ import annotations

import contextlib

import numpy as _np
import sympy as sp

from .sym import POISON, Sym, RSym, TSym, fill, exact, unwrap


def _has_sym(a):
    if isinstance(a, Sym):
        return True
    if isinstance(a, _np.ndarray):
        return a.dtype == object
    if isinstance(a, (list, tuple)):
        return any(_has_sym(x) for x in a)
    if hasattr(a, "dtypes") or hasattr(a, "dtype"):
        try:
            return _np.asarray(a).dtype == object
        except Exception:
            return False
    return False


def obj(a, mk):
    """Convert any array-like to an object ndarray whose numeric cells are `mk(v)`."""
    arr = _np.asarray(a)
    if arr.dtype == object:
        return arr
    out = _np.empty(arr.shape, dtype=object)
    fi = arr.reshape(-1)
    fo = out.reshape(-1)
    for i in range(fi.size):
        fo[i] = mk(fi[i].item())
    return out


class _Linalg:
    """`np.linalg` for object arrays: exact symbolic inverse / solve of the
    (small, literal-size) matrices pyins inverts.  This is the *assumed
    contract* of LAPACK (DESIGN section 4): inv(A) = A^-1, solve(A, B) = A^-1 B,
    precondition det(A) != 0 recorded as a side condition."""

    def __init__(self, proxy):
        self._p = proxy

    def __getattr__(self, name):
        return getattr(_np.linalg, name)

    def inv(self, a):
        a = _np.asarray(a)
        if a.dtype != object:
            return _np.linalg.inv(a)
        return self._p._inv(a)

    def solve(self, a, b):
        a = _np.asarray(a)
        b = _np.asarray(b)
        if a.dtype != object and b.dtype != object:
            return _np.linalg.solve(a, b)
        return self._p._solve(a, b)


NARROW_DTYPES = []        # (file:line, dtype) of allocations / conversions to a floating type narrower than float64 seen while the
                          # code under contract ran in a symbolic world: the proofs treat every float as a real number, which
                          # the float64 cross-checks tie to the machine; a float32 / float16 intermediate is outside that link


def note_narrow_dtype(dtype):
    if dtype is None or dtype is object:
        return
    try:
        dt = _np.dtype(dtype)
    except TypeError:
        return
    if dt.kind in "fc" and dt.itemsize < (8 if dt.kind == "f" else 16):
        import sys
        fr = sys._getframe(2)
        where = "?"
        while fr is not None:
            fn_ = fr.f_code.co_filename
            if "/pyins/" in fn_ or fn_.startswith("<cut:"):
                where = "%s:%d" % (fn_.split("/pyins/")[-1], fr.f_lineno)
                break
            fr = fr.f_back
        if (where, str(dt)) not in NARROW_DTYPES:
            NARROW_DTYPES.append((where, str(dt)))


class NpProxy:
    def __init__(self, cls=RSym, on_inv=None):
        self._cls = cls
        self._mk = lambda v: cls(cls.const(v))
        self.linalg = _Linalg(self)
        self.side_conditions = []      # (kind, payload) e.g. ('nonzero', det)
        self._on_inv = on_inv
        if cls is RSym:
            self.pi = RSym(sp.pi)
        else:
            self.pi = _np.pi

    def __getattr__(self, name):
        return getattr(_np, name)

    # -- allocation ----------------------------------------------------------
    def _shape(self, shape):
        if isinstance(shape, (int, _np.integer)):
            return (int(shape),)
        return tuple(int(s) for s in shape)

    def zeros(self, shape, dtype=None, **kw):
        note_narrow_dtype(dtype)
        return fill(_np.empty(self._shape(shape), dtype=object), self._mk(0.0))

    def ones(self, shape, dtype=None, **kw):
        note_narrow_dtype(dtype)
        return fill(_np.empty(self._shape(shape), dtype=object), self._mk(1.0))

    def empty(self, shape, dtype=None, **kw):
        note_narrow_dtype(dtype)
        return fill(_np.empty(self._shape(shape), dtype=object), POISON)

    def eye(self, n, m=None, **kw):
        return obj(_np.eye(n, m), self._mk)

    def identity(self, n, **kw):
        return obj(_np.identity(n), self._mk)

    def _like_shape(self, a, kw):
        shp = kw.get("shape")
        return _np.shape(a) if shp is None else shp

    def zeros_like(self, a, dtype=None, **kw):
        return self.zeros(self._like_shape(a, kw), dtype=dtype)

    def empty_like(self, a, dtype=None, **kw):
        if dtype is object:
            return _np.empty(self._like_shape(a, kw), dtype=object)
        return self.empty(self._like_shape(a, kw), dtype=dtype)

    def ones_like(self, a, dtype=None, **kw):
        return self.ones(self._like_shape(a, kw), dtype=dtype)

    def asarray(self, a, dtype=None, **kw):
        note_narrow_dtype(dtype)
        if dtype in (float, _np.float64) and _has_sym(a):
            return _np.asarray(a, dtype=object)
        return _np.asarray(a, dtype=dtype, **kw)

    def array(self, a, dtype=None, **kw):
        note_narrow_dtype(dtype)
        if dtype in (float, _np.float64) and _has_sym(a):
            return _np.array(a, dtype=object)
        return _np.array(a, dtype=dtype, **kw)

    # -- value-dependent predicates: an uninterpreted condition, both outcomes explored ---------
    def _pred(self, name, *args):
        from .sym import decide, Node, TSym, RSym, Sym
        if not any(_has_sym(a) for a in args):
            return getattr(_np, name)(*args)
        cells = []
        arity = []
        for a in args:
            arr = _np.asarray(a if not (hasattr(a, "values") and hasattr(a, "index")) else a.values, dtype=object).reshape(-1)
            cells.extend(arr)
            arity.append(len(arr))
        if self._cls is not TSym:
            # every operand a concrete number (possibly exact irrational): the real predicate decides
            import sympy as _sp
            vals = [_sp.sympify(unwrap(c)) for c in cells]
            if all(v.is_number for v in vals):
                k = 0
                conc = []
                for a, n in zip(args, arity):
                    conc.append(_np.array([float(v) for v in vals[k:k + n]], dtype=float).reshape(_np.shape(_np.asarray(a if not (hasattr(a, "values") and hasattr(a, "index")) else a.values, dtype=object))))
                    k += n
                return bool(getattr(_np, name)(*conc))
        if self._cls is TSym:
            from .sym import t_const
            return decide(Node("np." + name, *[c.e if isinstance(c, Sym) else t_const(c) for c in cells]))
        import sympy as sp
        f = sp.Function("np_%s__%s" % (name, "_".join(str(n) for n in arity)))
        return decide(sp.Eq(f(*[sp.sympify(unwrap(c)) for c in cells]), 1))

    def allclose(self, a, b, *args, **kw):
        return self._pred("allclose", a, b)

    def isclose(self, a, b, *args, **kw):
        """elementwise tolerance test: one uninterpreted decision per cell (concrete cells are decided by numpy)"""
        if not (_has_sym(a) or _has_sym(b)):
            return _np.isclose(a, b, *args, **kw)
        av = a.values if hasattr(a, "values") and hasattr(a, "index") else a
        bv = b.values if hasattr(b, "values") and hasattr(b, "index") else b
        A, B = _np.broadcast_arrays(_np.asarray(av, dtype=object), _np.asarray(bv, dtype=object))
        out = _np.empty(A.shape, dtype=bool)
        fo = out.reshape(-1)
        for i, (x, y) in enumerate(zip(A.reshape(-1), B.reshape(-1))):
            fo[i] = bool(self._pred("isclose", _np.asarray([x], dtype=object), _np.asarray([y], dtype=object)))
        return out if out.shape else bool(out)

    def array_equal(self, a, b, *args, **kw):
        return self._pred("array_equal", a, b)

    def ascontiguousarray(self, a, dtype=None):
        return _np.ascontiguousarray(_np.asarray(a))

    # -- LAPACK-backed: assumed contracts ---------------------------------------
    def _inv(self, a):
        if self._cls is not RSym:
            raise NotImplementedError("np.linalg.inv outside the R domain")
        if a.ndim == 3:
            return _np.stack([self._inv(x) for x in a])
        M = sp.Matrix(unwrap(a).tolist())
        det = M.det(method="berkowitz")
        self.side_conditions.append(("nonzero", det))
        if self._on_inv is not None:
            self._on_inv(M, det)
        adj = M.adjugate()
        out = _np.empty(a.shape, dtype=object)
        for i in range(a.shape[0]):
            for j in range(a.shape[1]):
                out[i, j] = RSym(adj[i, j] / det)
        return out

    def _solve(self, a, b):
        if self._cls is TSym:
            return self._solve_trace(a, b)
        a = obj(a, self._mk)
        b = obj(b, self._mk)
        ai = self._inv(a)
        if b.ndim == 1:
            return ai.dot(b)
        return ai.dot(b)


def _solve_trace(self, a, b):
    """Trace domain contract of np.linalg.solve: solve(I, b) returns b exactly when `a` is literally the
    identity (assumed LAPACK clause, bounded-checked natively); otherwise uninterpreted operations."""
    from .sym import Node, t_const, Sym, T_ZERO, T_ONE
    a = _np.asarray(a, dtype=object)
    b = _np.asarray(b, dtype=object)
    nodes = [[(x.e if isinstance(x, Sym) else t_const(x)) for x in row] for row in a]
    n = len(nodes)
    ident = all(nodes[i][j] is (T_ONE if i == j else T_ZERO) for i in range(n) for j in range(n))
    self.side_conditions.append(("solve_identity" if ident else "solve_general", None))
    if ident:
        return b.copy()
    flat_a = [x for row in nodes for x in row]
    out = _np.empty(b.shape, dtype=object)
    bb = b.reshape(n, -1)
    oo = out.reshape(n, -1)
    for j in range(bb.shape[1]):
        col = [(x.e if isinstance(x, Sym) else t_const(x)) for x in bb[:, j]]
        for i in range(n):
            oo[i, j] = TSym(Node("solve_%d" % i, *(flat_a + col)))
    return out


NpProxy._solve_trace = _solve_trace


def _external_original(name):
    """the library object a well-known external name stands for (used when a module imports it under another name)"""
    try:
        import scipy.linalg as _sl
        import scipy.interpolate as _si
        import scipy.spatial.transform as _st
        from scipy._lib._util import check_random_state as _crs
        table = dict(cholesky=_sl.cholesky, cho_solve=_sl.cho_solve, solve_triangular=_sl.solve_triangular, expm=_sl.expm,
                     CubicSpline=_si.CubicSpline, CubicHermiteSpline=_si.CubicHermiteSpline, interp1d=_si.interp1d,
                     Rotation=_st.Rotation, Slerp=_st.Slerp, RotationSpline=_st.RotationSpline, check_random_state=_crs,
                     np=_np, numpy=_np)
        try:
            import pandas as _pd
            table["pd"] = _pd
        except Exception:
            pass
        return table.get(name)
    except Exception:
        return None


def _pyins_original(name):
    """the pyins object a name usually stands for: a submodule (`kalman`), or a function / class DEFINED in a pyins module"""
    import sys
    mod = sys.modules.get("pyins." + name)
    if mod is not None:
        return mod
    for mname, m in list(sys.modules.items()):
        if m is None or not mname.startswith("pyins.") or ".tests" in mname:
            continue
        v = vars(m).get(name)
        if v is not None and getattr(v, "__module__", None) == mname:
            return v
    return None


def _pyins_modules():
    import sys
    return [mod for mname, mod in list(sys.modules.items())
            if mod is not None and (mname == "pyins" or mname.startswith("pyins.")) and ".tests" not in mname]


def _aliases(orig):
    """(module, name) pairs of pyins modules whose global `name` IS `orig` (functions, classes, modules, and float module
    constants: `from .earth import A, E2` binds the very float object earth.A is bound to)"""
    import sys
    import types as _types
    if orig is None or not (callable(orig) or isinstance(orig, (_types.ModuleType, float))):
        return []
    out = []
    for mname, mod in list(sys.modules.items()):
        if mod is None or not (mname == "pyins" or mname.startswith("pyins.")) or ".tests" in mname:
            continue
        for k, v in list(vars(mod).items()):
            if v is orig and not k.startswith("__"):
                out.append((mod, k))
    return out


def alias_update(ns, home, mapping):
    """dict version: `ns` is a copy of module `home`'s globals used as the namespace of a cut function; every entry of `ns`
    that IS the object `home` (or a well-known library) binds to a name of `mapping` is replaced by the stub -- whatever it
    is called in the code (`from . import kalman as kf`, `import numpy`)"""
    home = home if isinstance(home, dict) else vars(home)
    for name, stub in mapping.items():
        orig = home.get(name)
        if orig is None:
            orig = _external_original(name)
        if orig is None:
            orig = _pyins_original(name)
        if orig is not None:
            for k in list(ns):
                if ns[k] is orig and not k.startswith("__"):
                    ns[k] = stub
            for gk, sv in _module_stub_aliases(ns, orig, stub).items():
                ns[gk] = sv
        ns[name] = stub
    return ns


def _module_stub_aliases(target_vars, orig_module, stub):
    """`stub` stands for the pyins module `orig_module` (a namespace with some of its public functions): names the target
    imported FROM that module (`from .kalman import correct as _kc`) are rebound to the stub's attribute of the same name"""
    import types as _types
    out = {}
    if not isinstance(orig_module, _types.ModuleType) or isinstance(stub, _types.ModuleType):
        return out
    for attr in dir(stub):
        if attr.startswith("_"):
            continue
        try:
            sv = getattr(stub, attr)
        except Exception:
            continue
        ov = vars(orig_module).get(attr)
        if ov is None:
            continue
        for gk, gv in list(target_vars.items()):
            if gv is ov and not gk.startswith("__"):
                out[gk] = sv
    return out


class _ModProxy:
    """a library module as seen from one pyins module (`import scipy.linalg as sla`): the stubbed names, everything else real"""

    def __init__(self, real, overrides):
        self.__dict__["_real"] = real
        self.__dict__["_over"] = dict(overrides)

    def __getattr__(self, name):
        over = self.__dict__["_over"]
        if name in over:
            return over[name]
        return getattr(self.__dict__["_real"], name)


@contextlib.contextmanager
def patched(*patches):
    """patched((module_or_dict, {name: value, ...}), ...) -- rebind module globals (or object attributes) for the duration of
    the block.  For a module target the object that `name` is bound to (or, when the module does not have that name, the
    well-known library object of that name) is also rebound wherever a pyins module holds it under ANOTHER name, so the
    patch survives `from .util import to_180_range`, `from scipy.linalg import cholesky as chol`, `import numpy`."""
    import types as _types
    import builtins as _builtins
    saved = []
    missing = object()
    try:
        for target, names in patches:
            for k, v in names.items():
                if isinstance(target, dict):
                    saved.append((target, k, target.get(k, missing), True))
                    target[k] = v
                    continue
                have = target.__dict__.get(k, missing) if hasattr(target, "__dict__") else getattr(target, k, missing)
                saved.append((target, k, have, False))
                setattr(target, k, v)
                if isinstance(target, _types.ModuleType) and (getattr(target, "__name__", "") or "").startswith("pyins"):
                    if have is missing and hasattr(_builtins, k):
                        # a shadow of a builtin (len, range, min, max): helpers of the function under contract may live in any
                        # pyins module (a body split into util._helper), so the shadow holds package-wide
                        for mod in _pyins_modules():
                            if mod is not target and k not in vars(mod):
                                saved.append((mod, k, missing, False))
                                setattr(mod, k, v)
                        continue
                    orig = have if have is not missing else (_external_original(k) if _external_original(k) is not None else _pyins_original(k))
                    if orig is not missing and orig is not None and orig is not v:
                        for gk, sv in _module_stub_aliases(vars(target), orig, v).items():
                            saved.append((target, gk, vars(target)[gk], False))
                            setattr(target, gk, sv)
                        if have is missing and not isinstance(orig, _types.ModuleType):
                            for gk, gv in list(vars(target).items()):
                                real = gv.__dict__["_real"] if isinstance(gv, _ModProxy) else gv
                                if isinstance(real, _types.ModuleType) and not (getattr(real, "__name__", "") or "").startswith("pyins") \
                                        and getattr(real, k, None) is orig:
                                    if isinstance(gv, _ModProxy):
                                        gv.__dict__["_over"][k] = v
                                    else:
                                        saved.append((target, gk, gv, False))
                                        setattr(target, gk, _ModProxy(real, {k: v}))
                        for mod, alias in _aliases(orig):
                            if mod is target and alias == k:
                                continue
                            # the name is absent from the target: it is imported under another name there (alias in the target),
                            # or reached as an attribute of another pyins module (`_kernel.integrate`): that module's own binding
                            if have is missing and mod is not target and getattr(orig, "__module__", None) != mod.__name__ \
                                    and not (isinstance(orig, _types.ModuleType) and not (orig.__name__ or "").startswith("pyins")):
                                continue
                            if getattr(orig, "__module__", None) == mod.__name__ and not isinstance(orig, _types.ModuleType):
                                if mod is not target and have is not missing:
                                    continue
                            saved.append((mod, alias, orig, False))
                            setattr(mod, alias, v)
        yield
    finally:
        for target, k, old, isdict in reversed(saved):
            if isdict:
                if old is missing:
                    target.pop(k, None)
                else:
                    target[k] = old
            else:
                if old is missing:
                    try:
                        delattr(target, k)
                    except AttributeError:
                        pass
                else:
                    setattr(target, k, old)
