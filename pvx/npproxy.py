"""Thin proxy of the module-global `np` of a pyins module under verification.

Only *allocation* and a few LAPACK-backed entry points are redirected, so that
arrays can hold symbolic scalars; every structural operation (indexing,
broadcasting, einsum, cross, hstack, ix_ ...) is executed by the real numpy on
`object` arrays (assumption A2 of DESIGN.md).
"""
from __future__ import annotations

import contextlib

import numpy as _np
import sympy as sp

from .sym import POISON, Sym, RSym, TSym, fill, exact, unwrap


def _has_sym(a):
    if isinstance(a, Sym):
        return True
    if isinstance(a, _np.ndarray):
        return a.dtype == object
    if isinstance(a, (list, tuple)):
        return any(_has_sym(x) for x in a)
    if hasattr(a, "dtypes") or hasattr(a, "dtype"):
        try:
            return _np.asarray(a).dtype == object
        except Exception:
            return False
    return False


def obj(a, mk):
    """Convert any array-like to an object ndarray whose numeric cells are `mk(v)`."""
    arr = _np.asarray(a)
    if arr.dtype == object:
        return arr
    out = _np.empty(arr.shape, dtype=object)
    fi = arr.reshape(-1)
    fo = out.reshape(-1)
    for i in range(fi.size):
        fo[i] = mk(fi[i].item())
    return out


class _Linalg:
    """`np.linalg` for object arrays: exact symbolic inverse / solve of the
    (small, literal-size) matrices pyins inverts.  This is the *assumed
    contract* of LAPACK (DESIGN section 4): inv(A) = A^-1, solve(A, B) = A^-1 B,
    precondition det(A) != 0 recorded as a side condition."""

    def __init__(self, proxy):
        self._p = proxy

    def __getattr__(self, name):
        return getattr(_np.linalg, name)

    def inv(self, a):
        a = _np.asarray(a)
        if a.dtype != object:
            return _np.linalg.inv(a)
        return self._p._inv(a)

    def solve(self, a, b):
        a = _np.asarray(a)
        b = _np.asarray(b)
        if a.dtype != object and b.dtype != object:
            return _np.linalg.solve(a, b)
        return self._p._solve(a, b)


class NpProxy:
    def __init__(self, cls=RSym, on_inv=None):
        self._cls = cls
        self._mk = lambda v: cls(cls.const(v))
        self.linalg = _Linalg(self)
        self.side_conditions = []      # (kind, payload) e.g. ('nonzero', det)
        self._on_inv = on_inv
        if cls is RSym:
            self.pi = RSym(sp.pi)
        else:
            self.pi = _np.pi

    def __getattr__(self, name):
        return getattr(_np, name)

    # -- allocation ----------------------------------------------------------
    def _shape(self, shape):
        if isinstance(shape, (int, _np.integer)):
            return (int(shape),)
        return tuple(int(s) for s in shape)

    def zeros(self, shape, dtype=None, **kw):
        return fill(_np.empty(self._shape(shape), dtype=object), self._mk(0.0))

    def ones(self, shape, dtype=None, **kw):
        return fill(_np.empty(self._shape(shape), dtype=object), self._mk(1.0))

    def empty(self, shape, dtype=None, **kw):
        return fill(_np.empty(self._shape(shape), dtype=object), POISON)

    def eye(self, n, m=None, **kw):
        return obj(_np.eye(n, m), self._mk)

    def identity(self, n, **kw):
        return obj(_np.identity(n), self._mk)

    def _like_shape(self, a, kw):
        shp = kw.get("shape")
        return _np.shape(a) if shp is None else shp

    def zeros_like(self, a, dtype=None, **kw):
        return self.zeros(self._like_shape(a, kw))

    def empty_like(self, a, dtype=None, **kw):
        if dtype is object:
            return _np.empty(self._like_shape(a, kw), dtype=object)
        return self.empty(self._like_shape(a, kw))

    def ones_like(self, a, dtype=None, **kw):
        return self.ones(self._like_shape(a, kw))

    def asarray(self, a, dtype=None, **kw):
        if dtype in (float, _np.float64) and _has_sym(a):
            return _np.asarray(a, dtype=object)
        return _np.asarray(a, dtype=dtype, **kw)

    def array(self, a, dtype=None, **kw):
        if dtype in (float, _np.float64) and _has_sym(a):
            return _np.array(a, dtype=object)
        return _np.array(a, dtype=dtype, **kw)

    # -- value-dependent predicates: an uninterpreted condition, both outcomes explored ---------
    def _pred(self, name, *args):
        from .sym import decide, Node, TSym, RSym, Sym
        if not any(_has_sym(a) for a in args):
            return getattr(_np, name)(*args)
        cells = []
        arity = []
        for a in args:
            arr = _np.asarray(a if not (hasattr(a, "values") and hasattr(a, "index")) else a.values, dtype=object).reshape(-1)
            cells.extend(arr)
            arity.append(len(arr))
        if self._cls is not TSym:
            # every operand a concrete number (possibly exact irrational): the real predicate decides
            import sympy as _sp
            vals = [_sp.sympify(unwrap(c)) for c in cells]
            if all(v.is_number for v in vals):
                k = 0
                conc = []
                for a, n in zip(args, arity):
                    conc.append(_np.array([float(v) for v in vals[k:k + n]], dtype=float).reshape(_np.shape(_np.asarray(a if not (hasattr(a, "values") and hasattr(a, "index")) else a.values, dtype=object))))
                    k += n
                return bool(getattr(_np, name)(*conc))
        if self._cls is TSym:
            from .sym import t_const
            return decide(Node("np." + name, *[c.e if isinstance(c, Sym) else t_const(c) for c in cells]))
        import sympy as sp
        f = sp.Function("np_%s__%s" % (name, "_".join(str(n) for n in arity)))
        return decide(sp.Eq(f(*[sp.sympify(unwrap(c)) for c in cells]), 1))

    def allclose(self, a, b, *args, **kw):
        return self._pred("allclose", a, b)

    def isclose(self, a, b, *args, **kw):
        """elementwise tolerance test: one uninterpreted decision per cell (concrete cells are decided by numpy)"""
        if not (_has_sym(a) or _has_sym(b)):
            return _np.isclose(a, b, *args, **kw)
        av = a.values if hasattr(a, "values") and hasattr(a, "index") else a
        bv = b.values if hasattr(b, "values") and hasattr(b, "index") else b
        A, B = _np.broadcast_arrays(_np.asarray(av, dtype=object), _np.asarray(bv, dtype=object))
        out = _np.empty(A.shape, dtype=bool)
        fo = out.reshape(-1)
        for i, (x, y) in enumerate(zip(A.reshape(-1), B.reshape(-1))):
            fo[i] = bool(self._pred("isclose", _np.asarray([x], dtype=object), _np.asarray([y], dtype=object)))
        return out if out.shape else bool(out)

    def array_equal(self, a, b, *args, **kw):
        return self._pred("array_equal", a, b)

    def ascontiguousarray(self, a, dtype=None):
        return _np.ascontiguousarray(_np.asarray(a))

    # -- LAPACK-backed: assumed contracts ---------------------------------------
    def _inv(self, a):
        if self._cls is not RSym:
            raise NotImplementedError("np.linalg.inv outside the R domain")
        if a.ndim == 3:
            return _np.stack([self._inv(x) for x in a])
        M = sp.Matrix(unwrap(a).tolist())
        det = M.det(method="berkowitz")
        self.side_conditions.append(("nonzero", det))
        if self._on_inv is not None:
            self._on_inv(M, det)
        adj = M.adjugate()
        out = _np.empty(a.shape, dtype=object)
        for i in range(a.shape[0]):
            for j in range(a.shape[1]):
                out[i, j] = RSym(adj[i, j] / det)
        return out

    def _solve(self, a, b):
        if self._cls is TSym:
            return self._solve_trace(a, b)
        a = obj(a, self._mk)
        b = obj(b, self._mk)
        ai = self._inv(a)
        if b.ndim == 1:
            return ai.dot(b)
        return ai.dot(b)


def _solve_trace(self, a, b):
    """Trace domain contract of np.linalg.solve: solve(I, b) returns b exactly when `a` is literally the
    identity (assumed LAPACK clause, bounded-checked natively); otherwise uninterpreted operations."""
    from .sym import Node, t_const, Sym, T_ZERO, T_ONE
    a = _np.asarray(a, dtype=object)
    b = _np.asarray(b, dtype=object)
    nodes = [[(x.e if isinstance(x, Sym) else t_const(x)) for x in row] for row in a]
    n = len(nodes)
    ident = all(nodes[i][j] is (T_ONE if i == j else T_ZERO) for i in range(n) for j in range(n))
    self.side_conditions.append(("solve_identity" if ident else "solve_general", None))
    if ident:
        return b.copy()
    flat_a = [x for row in nodes for x in row]
    out = _np.empty(b.shape, dtype=object)
    bb = b.reshape(n, -1)
    oo = out.reshape(n, -1)
    for j in range(bb.shape[1]):
        col = [(x.e if isinstance(x, Sym) else t_const(x)) for x in bb[:, j]]
        for i in range(n):
            oo[i, j] = TSym(Node("solve_%d" % i, *(flat_a + col)))
    return out


NpProxy._solve_trace = _solve_trace


@contextlib.contextmanager
def patched(*patches):
    """patched((module_or_dict, {name: value, ...}), ...) -- rebind module
    globals (or object attributes) for the duration of the block."""
    saved = []
    missing = object()
    try:
        for target, names in patches:
            for k, v in names.items():
                if isinstance(target, dict):
                    saved.append((target, k, target.get(k, missing), True))
                    target[k] = v
                else:
                    saved.append((target, k, target.__dict__.get(k, missing) if hasattr(target, "__dict__") else getattr(target, k, missing), False))
                    setattr(target, k, v)
        yield
    finally:
        for target, k, old, isdict in reversed(saved):
            if isdict:
                if old is missing:
                    target.pop(k, None)
                else:
                    target[k] = old
            else:
                if old is missing:
                    try:
                        delattr(target, k)
                    except AttributeError:
                        pass
                else:
                    setattr(target, k, old)
