import argparse
import os
import sys

from . import harness


def main(argv=None):
    argv = list(sys.argv[1:] if argv is None else argv)
    if argv and argv[0] == "replay":
        try:
            rc = harness.replay_file(argv[1])
        except (OSError, ValueError, KeyError, IndexError) as exc:      # no such file, not a replay file: not a verdict
            print("CHECKER-ERROR replay: %r" % (exc,))
            rc = 3
        sys.exit(rc)
    if argv and argv[0] == "selftest":
        from . import selftest
        sys.exit(selftest.main(argv[1:]))
    ap = argparse.ArgumentParser()
    ap.add_argument("prop")
    ap.add_argument("--tier", default=os.environ.get("VERIF_TIER", "quick"), choices=["quick", "thorough"])
    ap.add_argument("--seed", type=int, default=None)
    a = ap.parse_args(argv)
    code = harness.run_property(a.prop, a.tier, a.seed)
    # the verdict is out (lines printed, evidence written): leave without interpreter teardown -- a changed tree whose compiled
    # kernel wrote past a buffer during a native replay would otherwise abort in free() and replace the exit code by 134
    sys.stdout.flush()
    sys.stderr.flush()
    os._exit(code)


if __name__ == "__main__":
    main()
