"""./check selftest [--jobs N] : mutation self-test (DESIGN 2.5).

Every seeded defect under /verif/seeded/<id>/patch.diff is applied to a scratch worktree of /repo
(never to /repo itself) and the check of its property must exit 1; every harmless refactoring under
/verif/mutants/harmless/*.diff must leave the listed checks at exit 0.  Scratch trees are removed at once."""
import glob
import json
import os
import subprocess
import sys
from concurrent.futures import ThreadPoolExecutor

from . import VERIF_ROOT

HARMLESS_CHECKS = {
    "H1_kernel_rename_reorder": ["C01", "C02", "C13", "C19"],
    "H2_earth_transform_equivalent_forms": ["C16", "C04", "C05", "C19"],
    "H3_kalman_filters_equivalent_forms": ["C07", "C09", "C12", "C19"],
    "H4_strapdown_error_model_equivalent_forms": ["C15", "C02", "C17", "C05", "C19"],
    "H5_filters_renamed_locals": ["C09", "C10", "C11", "C12", "C13", "C19"],
    "H6_import_style_numpy_scipy_aliases": ["C16", "C07", "C08", "C04", "C11", "C19"],
    "H7_import_style_filters_module_aliases": ["C09", "C10", "C11", "C12", "C13", "C08", "C19"],
}
# round-2 harmless refactorings (one per property, written by independent sub-agents): own property + C19 here;
# tools/harmless_matrix.sh runs every harmless patch against all 19 checks
for _k in range(1, 20):
    HARMLESS_CHECKS["R2_C%02d_refactor" % _k] = sorted({"C%02d" % _k, "C19"})
    # round 3: CORRECT performance optimisations (exact complete-key caches, hoisting, preallocation, exact early exits)
    HARMLESS_CHECKS["R3_C%02d_optimisation" % _k] = sorted({"C%02d" % _k, "C19"})
    # round 4: structural refactorings over several modules (import style, helpers renamed / moved / split, decorators, type hints)
    HARMLESS_CHECKS["R4_C%02d_structural" % _k] = sorted({"C%02d" % _k, "C19"})
    # round 5: numerically benign algebraic rewrites (NOT bit-identical: einsum, Horner, reciprocals, hoisting; a few ulps)
    HARMLESS_CHECKS["R5_C%02d_rounding" % _k] = sorted({"C%02d" % _k, "C19"})


# round 6: a CORRECT memo (lru_cache on a private helper, the public function hands out a copy): the counterpart of seed C17q
HARMLESS_CHECKS["R6_C17_memo_handing_out_copies"] = ["C16", "C17", "C19"]


def _run(patch, props):
    r = subprocess.run([os.path.join(VERIF_ROOT, "tools", "try_patch.sh"), patch] + props, capture_output=True, text=True)
    codes = {}
    for line in r.stdout.splitlines():
        if line.startswith("== "):
            _, p, _, c = line.split()
            codes[p] = int(c)
    return codes, r.stdout


def main(argv):
    jobs = 4
    if "--jobs" in argv:
        jobs = int(argv[argv.index("--jobs") + 1])
    tasks = []
    for d in sorted(glob.glob(os.path.join(VERIF_ROOT, "seeded", "*"))):
        meta = json.load(open(os.path.join(d, "meta.json")))
        # (a seed the machinery does NOT report is kept with its actual outcome -- `expected_exit` 3 / 2 -- so that the
        # accounting in DESIGN.md stays checkable; it never expects 0)
        tasks.append(("seeded", os.path.basename(d), os.path.join(d, "patch.diff"), [meta["property"]], int(meta.get("expected_exit", 1))))
    for pth in sorted(glob.glob(os.path.join(VERIF_ROOT, "mutants", "harmless", "*.diff"))):
        name = os.path.basename(pth)[:-5]
        tasks.append(("harmless", name, pth, HARMLESS_CHECKS.get(name, ["C19"]), 0))
    bad = 0

    def one(t):
        kind, name, patch, props, want = t
        codes, out = _run(patch, props)
        ok = all(codes.get(p) == want for p in props)
        return kind, name, props, want, codes, ok
    with ThreadPoolExecutor(jobs) as ex:
        for kind, name, props, want, codes, ok in ex.map(one, tasks):
            print("%-8s %-45s expect exit %d on %s: %s %s" % (kind, name, want, ",".join(props), codes, "ok" if ok else "<<< MISMATCH"))
            sys.stdout.flush()
            bad += 0 if ok else 1
    print("selftest: %d patches, %d mismatches" % (len(tasks), bad))
    return 1 if bad else 0
