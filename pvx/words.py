"""W domain: matrix expressions as polynomials in a free algebra with involution
(DESIGN 2.1-W, 2.3-e).  A value is  sum_k c_k * word_k  where a word is a tuple of
atoms (letter name, transposed flag); dimensions are *symbolic* (z3 Int terms), so an
identity proved here holds for all matrix sizes.  Declared relations (S S^-1 = I,
L L^T = S, P^T = P ...) are oriented rewrite rules applied to normal form.

Every value also carries its construction tree (`ast`) so that *syntactic* facts
("the result is a sum of congruences X P X^T + Y R Y^T") can be checked.
"""
from __future__ import annotations

import itertools
from fractions import Fraction

import z3

from .sym import decide, Concretization


class ShapeError(Exception):
    pass


class Dim:
    """symbolic non-negative integer dimension (z3 Int term)"""
    __slots__ = ("v",)

    def __init__(self, v):
        self.v = z3.Int(v) if isinstance(v, str) else (z3.IntVal(v) if isinstance(v, int) else v)

    def _c(self, o):
        return o.v if isinstance(o, Dim) else z3.IntVal(int(o))

    def __add__(self, o): return Dim(z3.simplify(self.v + self._c(o)))
    __radd__ = __add__
    def __sub__(self, o): return Dim(z3.simplify(self.v - self._c(o)))
    def __rsub__(self, o): return Dim(z3.simplify(self._c(o) - self.v))
    def __mul__(self, o): return Dim(z3.simplify(self.v * self._c(o)))
    __rmul__ = __mul__

    def same(self, o, ctx=None):
        o = o if isinstance(o, Dim) else Dim(int(o))
        s = z3.Solver()
        for a in (ctx.dim_assumptions if ctx else []):
            s.add(a)
        s.add(self.v != o.v)
        return s.check() == z3.unsat

    def __index__(self):
        v = z3.simplify(self.v)
        if z3.is_int_value(v):
            return v.as_long()
        raise Concretization("symbolic dimension %s used as a concrete integer" % self.v)

    # comparisons (`if model.n_states > 0:`): decided from the assumptions on the dimensions where they decide it, else the
    # run forks (pvx.sym.explore) and the chosen side becomes an assumption of that path
    def _cmp(self, o, op):
        from .sym import decide
        c = WCtx.current
        cond = z3.simplify(op(self.v, self._c(o)))
        if z3.is_true(cond):
            return True
        if z3.is_false(cond):
            return False
        assum = list(c.dim_assumptions) if c is not None else []
        for want, neg in ((True, z3.Not(cond)), (False, cond)):
            s_ = z3.Solver()
            for a in assum:
                s_.add(a)
            s_.add(neg)
            if s_.check() == z3.unsat:
                return want
        r = bool(decide(("dim", str(cond))))
        if c is not None:
            c.dim_assumptions.append(cond if r else z3.Not(cond))
        return r

    def __gt__(self, o): return self._cmp(o, lambda a, b: a > b)
    def __ge__(self, o): return self._cmp(o, lambda a, b: a >= b)
    def __lt__(self, o): return self._cmp(o, lambda a, b: a < b)
    def __le__(self, o): return self._cmp(o, lambda a, b: a <= b)
    def __bool__(self): return self._cmp(0, lambda a, b: a != b)

    def __repr__(self):
        return "Dim(%s)" % self.v


class WCtx:
    """rules and assumptions of one proof"""
    current = None

    def __init__(self):
        self.rules = []            # (lhs word tuple, rhs dict word->coeff)
        self.symmetric = set()
        self.dim_assumptions = []
        self.log = []
        self.letters = {}
        WCtx.current = self

    def letter(self, name, rows, cols, symmetric=False):
        if symmetric:
            self.symmetric.add(name)
        self.letters[name] = (rows, cols)
        return W({((name, False),): Fraction(1)}, rows, cols, ast=("letter", name))

    def add_rule(self, lhs, rhs):
        """lhs: W with a single word (coefficient 1); rhs: W.  Oriented lhs -> rhs."""
        (word, c), = lhs.terms.items()
        assert c == 1
        self.rules.append((word, dict(rhs.terms)))
        # the transposed rule holds as well
        wt = _tword(word, self)
        rt = {}
        for w_, c_ in rhs.terms.items():
            rt[_tword(w_, self)] = rt.get(_tword(w_, self), 0) + c_
        if wt != word:
            self.rules.append((wt, rt))


def wctx():
    return WCtx.current


def _tword(word, ctx):
    out = []
    for (name, t) in reversed(word):
        if name in ctx.symmetric:
            out.append((name, False))
        else:
            out.append((name, not t))
    return tuple(out)


def _find(word, sub):
    n, m = len(word), len(sub)
    for i in range(n - m + 1):
        if word[i:i + m] == sub:
            return i
    return -1


def normalize(terms, ctx, limit=20000):
    """apply the oriented rules until no left-hand side occurs (terminating: every rule shortens or is acyclic by construction)"""
    terms = {w: c for w, c in terms.items() if c != 0}
    steps = 0
    changed = True
    while changed:
        changed = False
        for word in list(terms):
            for lhs, rhs in ctx.rules:
                i = _find(word, lhs)
                if i >= 0:
                    c = terms.pop(word)
                    for rw, rc in rhs.items():
                        nw = word[:i] + rw + word[i + len(lhs):]
                        terms[nw] = terms.get(nw, 0) + c * rc
                        if terms[nw] == 0:
                            del terms[nw]
                    changed = True
                    steps += 1
                    if steps > limit:
                        raise RuntimeError("rewrite limit exceeded")
                    break
            if changed:
                break
    return terms


class W:
    """matrix (or vector) valued word polynomial with symbolic shape (rows, cols); vectors have cols = 1 (Dim(1))"""
    __array_ufunc__ = None
    __slots__ = ("terms", "rows", "cols", "ast")

    def __init__(self, terms, rows, cols, ast=None):
        self.terms = {w: Fraction(c) for w, c in terms.items() if c != 0}
        self.rows, self.cols = rows, cols
        self.ast = ast

    # ---- structure ----------------------------------------------------------------
    @property
    def T(self):
        c = wctx()
        out = {}
        for w, k in self.terms.items():
            tw = _tword(w, c)
            out[tw] = out.get(tw, 0) + k
        return W(out, self.cols, self.rows, ast=("T", self))

    def transpose(self):
        return self.T

    def setflags(self, *a, **k):        # numpy array method with no mathematical content
        return None

    def copy(self, *a, **k):
        return self

    @property
    def shape(self):
        return (self.rows, self.cols)

    @property
    def ndim(self):
        return 2

    def __len__(self):
        raise Concretization("len() of a symbolic matrix: use the module-level len shadow")

    def _lin(self, o, sign, op):
        if isinstance(o, (int, float)) and o == 0:
            return self
        if not isinstance(o, W):
            return NotImplemented
        c = wctx()
        if not (self.rows.same(o.rows, c) and self.cols.same(o.cols, c)):
            raise ShapeError("%s of shapes (%s,%s) and (%s,%s)" % (op, self.rows, self.cols, o.rows, o.cols))
        out = dict(self.terms)
        for w, k in o.terms.items():
            out[w] = out.get(w, 0) + sign * k
        return W(out, self.rows, self.cols, ast=(op, self, o))

    def __add__(self, o): return self._lin(o, 1, "add")
    def __radd__(self, o): return self._lin(o, 1, "add")
    def __sub__(self, o): return self._lin(o, -1, "sub")

    def __rsub__(self, o):
        if isinstance(o, W):
            return o._lin(self, -1, "sub")
        return NotImplemented

    def __neg__(self):
        return W({w: -k for w, k in self.terms.items()}, self.rows, self.cols, ast=("neg", self))

    def __mul__(self, o):
        if isinstance(o, Scalar):
            return o.scale(self)
        if isinstance(o, (int, float, Fraction)):
            return W({w: k * Fraction(o) for w, k in self.terms.items()}, self.rows, self.cols, ast=("scale", o, self))
        return NotImplemented

    __rmul__ = __mul__

    def __matmul__(self, o):
        if not isinstance(o, W):
            return NotImplemented
        c = wctx()
        if not self.cols.same(o.rows, c):
            raise ShapeError("matmul of shapes (%s,%s) @ (%s,%s)" % (self.rows, self.cols, o.rows, o.cols))
        out = {}
        for (w1, k1), (w2, k2) in itertools.product(self.terms.items(), o.terms.items()):
            w_ = w1 + w2
            out[w_] = out.get(w_, 0) + k1 * k2
        return W(out, self.rows, o.cols, ast=("mul", self, o))

    def dot(self, o):
        return self.__matmul__(o)

    def __rmatmul__(self, o):
        return NotImplemented

    # ---- comparison ----------------------------------------------------------------
    def nf(self):
        return normalize(dict(self.terms), wctx())

    def equals(self, o):
        d = dict(self.terms)
        for w, k in o.terms.items():
            d[w] = d.get(w, 0) - k
        return not normalize(d, wctx())

    def show(self, normal=True):
        t = self.nf() if normal else self.terms
        if not t:
            return "0"
        def sw(w):
            return " ".join(n + ("'" if tr else "") for n, tr in w) or "I"
        return " + ".join(("%s*" % k if k != 1 else "") + sw(w) for w, k in sorted(t.items(), key=lambda x: (len(x[0]), x[0])))

    def __repr__(self):
        return "W[%s]" % self.show(False)[:200]


def identity(n):
    return W({(): Fraction(1)}, n, n, ast=("I",))


def zero(rows, cols):
    return W({}, rows, cols, ast=("0",))


class Scalar:
    """a symbolic real scalar multiplying matrices (e.g. dt): kept as a commuting letter"""

    def __init__(self, name):
        self.name = name

    def scale(self, Wm):
        out = {}
        for w, k in Wm.terms.items():
            out[((self.name, False),) + w] = k
        return W(out, Wm.rows, Wm.cols, ast=("scale", self.name, Wm))

    def __mul__(self, o):
        if isinstance(o, W):
            return self.scale(o)
        if isinstance(o, BlockRec):
            return o * self
        return NotImplemented

    __rmul__ = __mul__


# ---------------------------------------------------------------------------------------------
# syntactic congruence check
# ---------------------------------------------------------------------------------------------
def flatten_sum(a):
    if a.ast and a.ast[0] == "add":
        return flatten_sum(a.ast[1]) + flatten_sum(a.ast[2])
    return [a]


def product_factors(a):
    if a.ast and a.ast[0] == "mul":
        return product_factors(a.ast[1]) + product_factors(a.ast[2])
    return [a]


def is_congruence_of(a, psd_names):
    """a is syntactically X M X^T with M a PSD letter (or itself a congruence / sum of congruences)"""
    fs = product_factors(a)
    if len(fs) == 1:
        f = fs[0]
        return bool(f.ast and f.ast[0] == "letter" and f.ast[1] in psd_names)
    for k in range(1, len(fs)):
        for j in range(k, len(fs)):
            left, mid, right = fs[:k], fs[k:j], fs[j:]
            if not mid or not right or len(left) != len(right):
                continue
            L = left[0]
            for x in left[1:]:
                L = L @ x
            Rr = right[0]
            for x in right[1:]:
                Rr = Rr @ x
            M = mid[0]
            for x in mid[1:]:
                M = M @ x
            if L.T.equals(Rr) and (is_sum_of_congruences(M, psd_names)):
                return True
    return False


def is_sum_of_congruences(a, psd_names):
    return all(is_congruence_of(t, psd_names) for t in flatten_sum(a))


# ---------------------------------------------------------------------------------------------
# recording block matrix (np.zeros((n, m)) with symbolic n, m)
# ---------------------------------------------------------------------------------------------
def _bound(x, default):
    if x is None:
        return default
    return x if isinstance(x, Dim) else Dim(int(x))


class BlockRec:
    """matrix allocated with symbolic shape whose block assignments are recorded"""
    __array_ufunc__ = None

    def __init__(self, rows, cols, blocks=None, factor=None, kind="zeros"):
        self.rows, self.cols = rows, cols
        self.blocks = blocks if blocks is not None else []     # (r0, r1, c0, c1, value)
        self.factor = factor
        self.kind = kind
        self.read_back = False

    @property
    def shape(self):
        return (self.rows, self.cols)

    def _sl(self, key):
        r, c = key
        return (_bound(r.start, Dim(0)), _bound(r.stop, self.rows), _bound(c.start, Dim(0)), _bound(c.stop, self.cols))

    def __setitem__(self, key, value):
        if not (isinstance(key, tuple) and len(key) == 2 and all(isinstance(k, slice) for k in key)):
            raise Concretization("block assignment with a non-slice key %r" % (key,))
        self.blocks.append(self._sl(key) + (value,))

    def __getitem__(self, key):
        # reading back a block that was assigned as a whole (H[n:, n:] = -H[:n, :n].T)
        if isinstance(key, tuple) and len(key) == 2 and all(isinstance(k, slice) for k in key):
            r0, r1, c0, c1 = self._sl(key)
            c = WCtx.current
            for (a0, a1, b0, b1, val) in reversed(self.blocks):
                if r0.same(a0, c) and r1.same(a1, c) and c0.same(b0, c) and c1.same(b1, c):
                    self.read_back = True
                    return val
        raise Concretization("reading a recorded block matrix before it is consumed")

    def __mul__(self, o):
        if isinstance(o, Scalar):
            return BlockRec(self.rows, self.cols, list(self.blocks), factor=o.name, kind=self.kind)
        return NotImplemented

    __rmul__ = __mul__
