"""Value-dependent control flow and call history inside a claim.

A claim (`claims.eq_spec`, `claims.taylor_spec`) runs the real function on symbols.  When the function branches on a
symbolic value (a tolerance test, a cache hit, a fast path) every outcome is explored (`sym.explore`); each path's result
must satisfy the contract *on the inputs that take the path*:

  * a path is only judged when a *witness* is found: a concrete input on which every recorded condition evaluates, in
    float64 and with the real numpy predicate, to the recorded outcome (paths without a witness are reported as skipped:
    possible miss, never an alarm);
  * on such a path the numeric refuter evaluates the residual at witnesses only (a random point of the box is not on
    the path); the proof, when it succeeds, is an unconditional identity.

History: the contracted functions are specified as *functions of their arguments*.  `history_runs` executes the real code
twice in the same symbolic world -- first on primed copies of the symbols, then on the symbols -- sharing whatever objects
the claim's closure captured and whatever module state the code keeps, and the second result must again equal the spec.
A cache with an incomplete or tolerant key, or state carried on an object between calls, shows up as a second result that
mentions primed symbols (or as a path "cache hit" whose result is stale).

State hygiene: objects of pyins classes captured by the claim's closure are snapshotted when the claim starts and
restored before every run, so a symbolic run never leaks symbols into a later native run (and vice versa).
"""
from __future__ import annotations

import copy
import itertools
import math
import types

import numpy as np
import sympy as sp

from .sym import explore, Node

PRIME = "__prev"


# ---------------------------------------------------------------------------
# captured state
# ---------------------------------------------------------------------------
def _closure_values(fn, seen):
    out = []
    if not isinstance(fn, types.FunctionType) or id(fn) in seen:
        return out
    seen.add(id(fn))
    for cell in (fn.__closure__ or ()):
        try:
            v = cell.cell_contents
        except ValueError:
            continue
        out.append(v)
        if isinstance(v, types.FunctionType):
            out.extend(_closure_values(v, seen))
    for v in (fn.__defaults__ or ()):
        out.append(v)
    return out


class Captured:
    """instances of pyins classes reachable from the closure of `code`, and pyins module-level mutable containers"""

    def __init__(self, code, py=None):
        self.objs = []
        for v in _closure_values(code, set()):
            items = v if isinstance(v, (list, tuple)) else [v]
            for o in items:
                mod = getattr(type(o), "__module__", "") or ""
                if mod.startswith("pyins") and hasattr(o, "__dict__") and not isinstance(o, (type, types.ModuleType, types.FunctionType)):
                    if all(o is not x for x, _ in self.objs):
                        self.objs.append((o, None))
        self.mods = []
        if py is not None:
            from .loader import MODULES
            for m in MODULES:
                mod = getattr(py, m)
                for k, v in list(vars(mod).items()):
                    if isinstance(v, (dict, list, set)) and not k.startswith("__"):
                        self.mods.append((mod, k, None))
        self.snapshot()

    def snapshot(self):
        objs = []
        for o, _ in self.objs:
            try:
                objs.append((o, copy.deepcopy(o.__dict__)))
            except Exception:
                objs.append((o, dict(o.__dict__)))
        self.objs = objs
        mods = []
        for mod, k, _ in self.mods:
            try:
                mods.append((mod, k, copy.deepcopy(getattr(mod, k))))
            except Exception:
                mods.append((mod, k, None))
        self.mods = mods

    def restore(self):
        for o, snap in self.objs:
            if snap is None:
                continue
            try:
                fresh = copy.deepcopy(snap)
            except Exception:
                fresh = dict(snap)
            o.__dict__.clear()
            o.__dict__.update(fresh)
        for mod, k, snap in self.mods:
            if snap is None:
                continue
            cur = getattr(mod, k, None)
            try:
                if isinstance(cur, dict):
                    cur.clear()
                    cur.update(copy.deepcopy(snap))
                elif isinstance(cur, list):
                    cur[:] = copy.deepcopy(snap)
                elif isinstance(cur, set):
                    cur.clear()
                    cur.update(copy.deepcopy(snap))
            except Exception:
                pass


# ---------------------------------------------------------------------------
# conditions
# ---------------------------------------------------------------------------
def _np_pred(fname):
    """np_<name>__<n1>_<n2>: the real numpy predicate on the flattened operands"""
    base, _, ar = fname.partition("__")
    name = base[3:]
    n1, n2 = (int(x) for x in ar.split("_")) if ar else (None, None)

    def f(*cells):
        cells = [float(c) for c in cells]
        a, b = (cells[:n1], cells[n1:]) if n1 is not None else (cells[:len(cells) // 2], cells[len(cells) // 2:])
        if len(b) == 1:
            b = b[0]
        if len(a) == 1 and not np.isscalar(b):
            a = a[0]
        return 1 if bool(getattr(np, name)(a, b)) else 0
    return f


def cond_evaluator(conds, symbols, consts):
    """callable(point: {name: float}) -> True iff every (condition, outcome) holds natively; None if not evaluable"""
    fns = []
    for cond, outcome in conds:
        if isinstance(cond, Node) or not isinstance(cond, sp.Basic):
            return None
        c = cond.xreplace(consts)
        table = {}
        for fa in c.atoms(sp.Function):
            nm = type(fa).__name__
            if nm.startswith("np_"):
                table[nm] = _np_pred(nm)
        free = sorted(c.free_symbols, key=lambda s: s.name)
        names = {s.name for s in symbols}
        if any(s.name not in names for s in free):
            return None
        try:
            f = sp.lambdify(free, c, modules=[table, {"Abs": abs}, "math"])
        except Exception:
            return None
        fns.append((f, [s.name for s in free], bool(outcome)))

    def ev(point):
        try:
            for f, names, outcome in fns:
                if bool(f(*[point[n] for n in names])) != outcome:
                    return False
            return True
        except (ZeroDivisionError, ValueError, OverflowError, KeyError, TypeError):
            return False
    return ev


SCALES = (0.0, 1e-13, 1e-11, 1e-9, 1e-7, 1e-5, 1e-3, 1e-2, 1e-1, 1.0)


def candidates(symbols, domain, rng, default_box, eps=None, primed=None, n_base=12):
    """structured sample of the input space: random points of the box, and -- for a second call (primed symbols) or a
    perturbation parameter -- the same point, a point differing in one coordinate only, and neighbours at every scale"""
    names = [s.name for s in symbols]
    box = {}
    for s in symbols:
        lo, hi = domain.get(s, default_box)
        box[s.name] = (float(lo), float(hi))
    primed = primed or {}
    base_names = [n for n in names if n not in primed.values() and (eps is None or n != eps.name)]
    def draw(n, k):
        lo, hi = box[n]
        if k % 2 == 0 or lo == hi:
            return rng.uniform(lo, hi)
        # every other base point mixes magnitudes: each coordinate is, with probability 1/2, within 10^-1 .. 10^-13 of
        # the box width from the point of the box closest to zero (tolerance tests look at small values)
        u = rng.random()
        if u < 0.4:
            return rng.uniform(lo, hi)
        if u < 0.6:
            # close to an END of the box (range limits such as the antimeridian or the poles are where wrap / clip branches live)
            end, other = (hi, lo) if rng.random() < 0.5 else (lo, hi)
            return end + (other - end) * 10.0 ** (-rng.uniform(1, 13))
        anchor = min(max(0.0, lo), hi)
        side = hi - anchor if hi - anchor >= anchor - lo else lo - anchor
        return anchor + side * 10.0 ** (-rng.uniform(1, 13))
    for k_base in range(n_base):
        p = {n: draw(n, k_base) for n in base_names}
        eps_vals = [None]
        if eps is not None:
            eps_vals = [0.0] + [sg * sc for sc in SCALES[1:] for sg in (1.0, -1.0)]
        for e in eps_vals:
            q = dict(p)
            if e is not None:
                q[eps.name] = e
            if not primed:
                yield q
                continue
            eprev = [q.get(eps.name)] if eps is not None else [None]
            for sc in SCALES:
                # all coordinates displaced
                r = dict(q)
                for n, pn in primed.items():
                    lo, hi = box[n]
                    if eps is not None and n == eps.name:
                        r[pn] = q[n]
                        continue
                    r[pn] = min(hi, max(lo, q[n] + sc * (hi - lo) * rng.choice([-1.0, 1.0]) * rng.uniform(0.3, 1.0)))
                yield r
                if sc == 0.0:
                    continue
                # one coordinate displaced, the others identical
                for n, pn in primed.items():
                    if eps is not None and n == eps.name:
                        continue
                    r = dict(q)
                    for n2, pn2 in primed.items():
                        r[pn2] = q[n2]
                    lo, hi = box[n]
                    r[pn] = min(hi, max(lo, q[n] + sc * (hi - lo) * rng.choice([-1.0, 1.0])))
                    yield r


def equality_projection(conds, symbols, consts, eps=None):
    """A path that decided `expr == 0` TRUE has no witness among random points.  For every such condition that is linear in one
    of the symbols, solve for that symbol: callable(point) -> the point moved onto the equalities (the other coordinates are
    kept), or None when the path has no equality / none is solvable.  The projected point is still judged by the native
    evaluation of ALL conditions, so a projection that is inexact in float64 simply yields no witness."""
    names = {s.name: s for s in symbols}
    steps = []
    sub = {}
    for cond, d in conds:
        if not isinstance(cond, sp.Basic):
            continue
        if not ((isinstance(cond, sp.Eq) and d) or (isinstance(cond, sp.Ne) and not d)):
            continue
        lhs, rhs = cond.args
        if isinstance(lhs, sp.Function) or isinstance(rhs, sp.Function):
            continue
        try:
            diff_ = sp.expand((lhs - rhs).xreplace(consts).xreplace(sub))
        except Exception:
            continue
        free = [x for x in diff_.free_symbols if x.name in names and (eps is None or x.name != eps.name) and x not in sub]
        free.sort(key=lambda x: (sp.count_ops(sp.diff(diff_, x)), x.name))
        for x in free:
            c1 = sp.diff(diff_, x)
            if c1 == 0 or x in c1.free_symbols:
                continue
            rest = sp.expand(diff_ - c1 * x)
            if x in rest.free_symbols:
                continue
            sol = -rest / c1
            args = sorted(sol.free_symbols, key=lambda s_: s_.name)
            if any(a.name not in names for a in args):
                continue
            try:
                f = sp.lambdify(args, sol, modules=["math"])
            except Exception:
                continue
            steps.append((x.name, f, [a.name for a in args]))
            sub[x] = sol
            break
    if not steps:
        return None

    def proj(point):
        q = dict(point)
        # later solutions may mention earlier solved symbols only through `sub` (already substituted), so one pass in
        # reverse dependency order is enough: evaluate each solution on the free coordinates
        try:
            for name, f, args in steps:
                q[name] = float(f(*[q[a] for a in args]))
        except (ZeroDivisionError, ValueError, OverflowError, KeyError, TypeError):
            return None
        return q
    return proj


def witnesses(conds, symbols, domain, consts, seed, default_box, eps=None, primed=None, want=3, budget=6000):
    """up to `want` inputs on which the recorded branch outcomes are reproduced by native evaluation of the conditions"""
    import random
    ev = cond_evaluator(conds, symbols, consts)
    if ev is None:
        return None
    rng = random.Random(seed)
    found = []
    proj = None
    for k, p in enumerate(candidates(symbols, domain, rng, default_box, eps=eps, primed=primed, n_base=40)):
        if k > budget or len(found) >= 60:
            break
        if ev(p):
            found.append(p)
    if not found:
        # no random point lies on the path: if the path decided equalities, move the candidates onto them
        try:
            proj = equality_projection(conds, symbols, consts, eps=eps)
        except Exception:
            proj = None
        if proj is not None:
            rng = random.Random(seed + 1)
            for k, p in enumerate(candidates(symbols, domain, rng, default_box, eps=eps, primed=primed, n_base=40)):
                if k > budget or len(found) >= 60:
                    break
                q = proj(p)
                if q is not None and ev(q):
                    found.append(q)
    if not found:
        return []

    # a diverse subset: the two calls far apart, close, very close, identical; the perturbation large and tiny
    in_conds = set()
    for c_, _ in conds:
        in_conds |= {s_.name for s_ in getattr(c_, "free_symbols", ())}

    def spread(p):
        """distance between the two calls measured in the coordinates the branch conditions look at"""
        d = 0.0
        for n, pn in (primed or {}).items():
            if n in p and pn in p and (pn in in_conds or n in in_conds):
                d = max(d, abs(p[n] - p[pn]) / (abs(p[n]) + 1.0))
        if eps is not None:
            d = d + abs(p.get(eps.name, 0.0))
        return d
    found.sort(key=spread)
    nz = [p for p in found if spread(p) > 0.0]
    picks = []
    for cand in ([nz[-1], nz[len(nz) // 2], nz[0]] if nz else []) + [found[0]]:
        if all(cand is not q for q in picks):
            picks.append(cand)
    for cand in found:
        if len(picks) >= max(want, 4):
            break
        if all(cand is not q for q in picks):
            picks.append(cand)
    return picks[:max(want, 4)]


def primed_symbols(symbols):
    return {s: sp.Symbol(s.name + PRIME, real=True) for s in symbols}


def show_conds(conds, limit=3):
    return [("%s is %s" % (str(c)[:140], d)) for c, d in conds[:limit]] + (["... (%d more)" % (len(conds) - limit)] if len(conds) > limit else [])


class ClaimRuns(list):
    truncated = False


def explore_claim(body, max_paths=24):
    """[(conds, result)] for every path of body(); body() must build its own symbolic world.  When the code branches on more
    data than the path budget covers, the paths explored are returned with `truncated` set: they are judged, and the claim
    gets an undecided `paths_exhausted` obligation for the rest (never a pass, never a crash)."""
    out = ClaimRuns()
    runs = explore(body, max_paths=max_paths, on_budget="stop")
    for path, res in runs:
        out.append((list(path.conds), res))
    out.truncated = bool(getattr(runs, "truncated", False))
    return out


def equalities_subst(conds):
    """{Symbol: expression} from the conditions a path decided TRUE that are equalities -- sympy Eq(a, b) and the exact numpy
    predicate np.array_equal -- so that a residual is judged on that path modulo them (an exact-key cache hit returns a
    value computed from the equal, earlier input)."""
    sub = {}

    def add(a, b):
        a, b = sp.sympify(a).xreplace(sub), sp.sympify(b).xreplace(sub)
        if a == b:
            return
        # replace the primed / later-named symbol by the other side
        for x, y in ((a, b), (b, a)):
            if isinstance(x, sp.Symbol) and x not in y.free_symbols and (x.name.endswith(PRIME) or not isinstance(y, sp.Symbol) or not y.name.endswith(PRIME)):
                for k in list(sub):
                    sub[k] = sub[k].xreplace({x: y})
                sub[x] = y
                return
        # a - b linear in exactly one primed symbol: solve for it
        d = sp.expand(a - b)
        pr = [x for x in d.free_symbols if x.name.endswith(PRIME)]
        if len(pr) == 1:
            x = pr[0]
            c1 = sp.diff(d, x)
            if c1 != 0 and not c1.free_symbols:
                y = sp.expand(x - d / c1)
                for k in list(sub):
                    sub[k] = sub[k].xreplace({x: y})
                sub[x] = y
    for cond, d in conds:
        if not isinstance(cond, sp.Basic):
            continue
        if isinstance(cond, sp.Eq) and d:
            lhs, rhs = cond.args
            if isinstance(lhs, sp.Function) and type(lhs).__name__.startswith("np_array_equal") and rhs == 1:
                base, _, ar = type(lhs).__name__.partition("__")
                try:
                    n1, n2 = (int(x) for x in ar.split("_"))
                except ValueError:
                    continue
                cells = list(lhs.args)
                if n1 == n2:
                    for a, b in zip(cells[:n1], cells[n1:]):
                        add(a, b)
            elif not isinstance(lhs, sp.Function):
                add(lhs, rhs)
        elif isinstance(cond, sp.Ne) and not d:
            add(*cond.args)
    return sub
