"""pvx -- contract-directed symbolic execution of the real pyins code objects.

See /verif/DESIGN.md section 2.  Nothing in this package imports pyins at
module import time; the code under verification is always (re-)imported from
/repo's working tree by `pvx.loader`.
"""
import os
import sys

VERIF_ROOT = os.path.dirname(os.path.dirname(os.path.abspath(__file__)))
_DEPS = os.path.join(VERIF_ROOT, "_deps")
if _DEPS not in sys.path:
    sys.path.insert(0, _DEPS)
if VERIF_ROOT not in sys.path:
    sys.path.insert(0, VERIF_ROOT)
