"""Import the code under verification from the working tree (never a cache)."""
from __future__ import annotations

import contextlib
import importlib
import os
import sys
import types
import warnings

import sympy as sp

from . import VERIF_ROOT  # noqa: F401  (sets sys.path)
from .npproxy import NpProxy, patched
from .sym import RSym, TSym
from spec import wgs84

REPO = os.environ.get("VERIF_REPO", "/repo")
MODULES = ["earth", "util", "transform", "_numba_integrate", "strapdown", "error_model",
           "kalman", "measurements", "inertial_sensor", "filters", "sim"]

_cache = {}


def load():
    """Return a namespace with the pyins modules imported from REPO's working tree."""
    if "py" in _cache:
        return _cache["py"]
    sys.dont_write_bytecode = True
    repo = os.path.realpath(REPO)
    if sys.path[0] != repo:
        sys.path.insert(0, repo)
    for k in [k for k in sys.modules if k == "pyins" or k.startswith("pyins.")]:
        del sys.modules[k]
    with warnings.catch_warnings():
        warnings.simplefilter("ignore")
        pkg = importlib.import_module("pyins")
        ns = types.SimpleNamespace(pyins=pkg)
        # every module of the package (new helper modules included), not a fixed list
        import pkgutil
        found = [mi.name for mi in pkgutil.iter_modules(pkg.__path__) if not mi.ispkg and mi.name not in ("setup", "conftest")]
        for m in found:
            if m not in MODULES:
                MODULES.append(m)
        for m in list(MODULES):
            try:
                setattr(ns, m, importlib.import_module("pyins." + m))
            except ModuleNotFoundError:
                MODULES.remove(m)
    got = os.path.realpath(os.path.dirname(os.path.dirname(pkg.__file__)))
    if got != repo:
        raise RuntimeError("pyins imported from %s, expected %s" % (got, repo))
    ns.repo = repo
    ns.reattached = _reattach_private(ns)
    _cache["py"] = ns
    return ns


# Private helpers the sidecar contracts name.  A sidecar contract is attached to a function by its name; when a private
# helper is renamed (the public interface is unchanged, so this is a harmless refactoring) the contract is re-attached by
# ROLE: the one private function that the same public callers call, with the same number of parameters (and, if several,
# the same parameter names), and that is not itself one of the names below.  No or several candidates: the contract stays unattached (interface outside the
# contract: exit 3, never a verdict).   (module, name) -> (callers, number of parameters)
PRIVATE_ROLES = {
    ("sim", "_compute_increment_readings"): (("generate_imu",), ("dt", "a", "b", "c", "d", "e")),
    ("filters", "_interpolate_pva"): (("run_feedback_filter", "run_feedforward_filter"), ("first", "second", "alpha")),
    ("filters", "_initialize_covariance"): (("run_feedback_filter", "run_feedforward_filter"),
                                            ("pva", "pos_sd", "vel_sd", "level_sd", "azimuth_sd", "error_model", "gyro_model", "accel_model")),
    ("filters", "_compute_error_propagation_matrices"): (("run_feedback_filter", "run_feedforward_filter"),
                                                         ("pva", "gyro", "accel", "time_delta", "error_model", "gyro_model", "accel_model")),
    ("filters", "_compute_sd"): (("run_feedback_filter", "_compute_feedforward_result"), ("P", "trajectory", "error_model", "gyro_model", "accel_model")),
    ("filters", "_compute_feedforward_result"): (("run_feedforward_filter",),
                                                 ("x", "P", "trajectory_nominal", "trajectory", "error_model", "gyro_model", "accel_model")),
    ("filters", "_correct_increments"): (("run_feedback_filter",), ("increments", "gyro_model", "accel_model")),
    ("error_model", "_phi_to_delta_rph"): (("InsErrorModel._transform_to_output_3d", "InsErrorModel.transform_to_output"), ("rph",)),
}


def _reattach_private(ns):
    import ast
    import inspect
    import textwrap
    known = {n for (_m, n) in PRIVATE_ROLES}
    done = {}
    for (m, name), (callers, pnames) in PRIVATE_ROLES.items():
        mod = getattr(ns, m, None)
        if mod is None or name in vars(mod):
            continue
        called = []
        for c in callers:
            obj = mod
            for part in c.split("."):
                obj = getattr(obj, part, None) if obj is not None else None
            f = py_func(getattr(obj, "__func__", obj)) if obj is not None else None
            if f is None:
                continue
            try:
                tree = ast.parse(textwrap.dedent(inspect.getsource(inspect.unwrap(f))))
            except (OSError, TypeError, SyntaxError):
                continue
            for n in ast.walk(tree):
                if isinstance(n, ast.Call) and isinstance(n.func, ast.Name) and n.func.id not in called:
                    called.append(n.func.id)
        cands = []
        for k in called:
            v = vars(mod).get(k)
            if not k.startswith("_") or k.startswith("__") or k in known or not callable(v) or isinstance(v, type):
                continue
            try:
                ps = tuple(inspect.signature(py_func(v)).parameters)
            except (TypeError, ValueError):
                continue
            if len(ps) == len(pnames):
                cands.append((k, ps))
        if len(cands) > 1:
            cands = [c for c in cands if c[1] == tuple(pnames)]          # several of that arity: the parameter names decide
        cands = [c[0] for c in cands]
        if len(cands) == 1:
            setattr(mod, name, vars(mod)[cands[0]])
            done["%s.%s" % (m, name)] = cands[0]
    return done


def source_of(module_name):
    with open(os.path.join(os.path.realpath(REPO), "pyins", module_name + ".py")) as f:
        return f.read()


def py_func(f):
    """The Python source numba compiles (assumption A4)."""
    return getattr(f, "py_func", f)


def identity_patches(py, proxy, rotation):
    """Rebind module globals by WHAT they are, not by how they are spelled: the numpy module under any alias
    (`import numpy`, `import numpy as np`), numpy functions imported by name (`from numpy import sin, cos`), scipy's Rotation
    under any alias -- so a change of import style changes nothing for the proofs."""
    import numpy as _np
    from scipy.spatial.transform import Rotation as _Rot
    out = []
    for m in MODULES:
        mod = getattr(py, m)
        names = {}
        for k, v in list(mod.__dict__.items()):
            if k.startswith("__"):
                continue
            if v is _np:
                names[k] = proxy
            elif v is _Rot and rotation is not None:
                names[k] = rotation
            elif callable(v) and getattr(v, "__name__", None) and getattr(_np, getattr(v, "__name__", ""), None) is v and not isinstance(v, type):
                names[k] = getattr(proxy, v.__name__)
            elif callable(v) and _scipy_dense_solver(v) is not None and hasattr(proxy, "linalg"):
                names[k] = _dense_solver_stub(_scipy_dense_solver(v), proxy, v)
        if names:
            out.append((mod, names))
    return out


def _scipy_dense_solver(v):
    """'lu_factor' / 'lu_solve' / 'solve' / 'inv' when `v` IS that function of scipy.linalg (whatever name it is imported under)"""
    try:
        import scipy.linalg as _sl
    except Exception:
        return None
    for nm in ("lu_factor", "lu_solve", "solve", "inv"):
        if getattr(_sl, nm, None) is v:
            return nm
    return None


class _LuToken(tuple):
    """what lu_factor returns in a symbolic world: (snapshot of the matrix at factorisation time, None)"""


def _dense_solver_stub(kind, proxy, real):
    """Assumed contracts (DESIGN section 4, LAPACK row): scipy.linalg.inv(A) = A^-1, solve(A, B) = A^-1 B,
    lu_solve(lu_factor(A), B) = A^-1 B with A AS IT WAS when lu_factor was called (the factorisation is a copy: later writes
    into A do not reach it), precondition det(A) != 0.  Float arguments go to the real function."""
    import numpy as _np

    def is_obj(*xs):
        return any(_np.asarray(x).dtype == object for x in xs if not isinstance(x, _LuToken))

    if kind == "lu_factor":
        def lu_factor(a, *args, **kw):
            if not is_obj(a):
                return real(a, *args, **kw)
            return _LuToken((_np.array(a, dtype=object, copy=True), None))
        return lu_factor
    if kind == "lu_solve":
        def lu_solve(lu_and_piv, b, trans=0, *args, **kw):
            if not isinstance(lu_and_piv, _LuToken):
                return real(lu_and_piv, b, trans, *args, **kw)
            a = lu_and_piv[0]
            return proxy.linalg.solve(a.T if trans else a, _np.asarray(b, dtype=object))
        return lu_solve
    if kind == "solve":
        def solve(a, b, *args, **kw):
            if not is_obj(a, b) or args or any(kw.get(k_) for k_ in ("lower", "transposed")):
                return real(a, b, *args, **kw)
            return proxy.linalg.solve(_np.asarray(a, dtype=object), _np.asarray(b, dtype=object))
        return solve

    def inv(a, *args, **kw):
        if not is_obj(a):
            return real(a, *args, **kw)
        return proxy.linalg.inv(_np.asarray(a, dtype=object))
    return inv


def dispatcher_patches(py, override=()):
    """Every numba dispatcher bound in a pyins module (kernels and the njit helpers they call, whatever their names)
    is replaced by the Python function numba compiles (A4); names in `override` are left to the caller."""
    out = []
    for m in MODULES:
        mod = getattr(py, m)
        names = {k: v.py_func for k, v in list(mod.__dict__.items())
                 if k not in override and hasattr(v, "py_func") and callable(getattr(v, "py_func", None))}
        if names:
            out.append((mod, names))
    return out


def real_constants(py):
    """The actual module constants (floats) as loaded from the tree."""
    e = py.earth
    return dict(A=e.A, E2=e.E2, RATE=e.RATE, GE=e.GE, GP=e.GP, F=e.F)


@contextlib.contextmanager
def rdomain(py, rotation=None, extra=(), symbolic_constants=True, proxy=None):
    """Run pyins code in the R domain: module-global `np` proxied for allocation,
    WGS-84 constants rebound to symbols, unit constants to exact multiples of pi,
    scipy Rotation replaced by its assumed contract."""
    from .deps import RotationStub
    rotation = rotation or RotationStub
    proxy = proxy or NpProxy(RSym)
    patches = identity_patches(py, proxy, rotation)
    if symbolic_constants:
        patches.append((py.earth, {k: RSym(v) for k, v in wgs84.CONSTANT_SYMBOLS.items()}))
    d2r = sp.pi / 180
    patches.append((py.transform, dict(
        DEG_TO_RAD=RSym(d2r), RAD_TO_DEG=RSym(1 / d2r), DH_TO_RS=RSym(d2r / 3600),
        RS_TO_DH=RSym(3600 / d2r), DRH_TO_RRS=RSym(d2r / 60))))
    patches.extend(dispatcher_patches(py))
    patches.extend(extra)
    with patched(*patches):
        yield proxy


# ---------------------------------------------------------------------------
# trace domain
# ---------------------------------------------------------------------------
class TRotation:
    """scipy Rotation in the trace domain: uninterpreted operations (no law used)."""

    def __init__(self, mats, single):
        self._m = mats
        self.single = single

    @classmethod
    def from_euler(cls, seq, angles, degrees=False):
        import numpy as _np
        from .sym import TSym, t_const
        if hasattr(angles, "values") and hasattr(angles, "index"):
            angles = angles.values
        arr = _np.asarray(angles, dtype=object)
        single = arr.ndim == 1
        rows = [list(arr)] if single else [list(r) for r in arr]
        mats = []
        for row in rows:
            args = [x.e if isinstance(x, TSym) else t_const(x) for x in row]
            M = _np.empty((3, 3), dtype=object)
            for i in range(3):
                for j in range(3):
                    M[i, j] = TSym(TSym._op("from_euler_%s_%s_%d%d" % (seq, degrees, i, j), *args))
            mats.append(M)
        return cls(mats, single)

    @classmethod
    def from_matrix(cls, mat):
        import numpy as _np
        arr = _np.asarray(mat, dtype=object)
        if arr.ndim == 2:
            return cls([arr], True)
        return cls([a for a in arr], False)

    def as_matrix(self):
        import numpy as _np
        return self._m[0].copy() if self.single else _np.stack(self._m)

    def as_euler(self, seq, degrees=False):
        import numpy as _np
        from .sym import TSym, t_const
        out = _np.empty((len(self._m), 3), dtype=object)
        for k, M in enumerate(self._m):
            args = [x.e if isinstance(x, TSym) else t_const(x) for x in M.reshape(-1)]
            for i in range(3):
                out[k, i] = TSym(TSym._op("as_euler_%s_%s_%d" % (seq, degrees, i), *args))
        return out[0] if self.single else out


@contextlib.contextmanager
def tdomain(py, extra=()):
    """Run pyins code in the trace domain (uninterpreted operation DAG, DESIGN 2.1-T)."""
    from .sym import T as _T
    proxy = NpProxy(TSym)
    patches = identity_patches(py, proxy, TRotation)
    patches.append((py.earth, {k: _T(k) for k in ("A", "E2", "RATE", "GE", "GP", "F")}))
    patches.append((py.transform, dict(DEG_TO_RAD=_T("DEG_TO_RAD"), RAD_TO_DEG=_T("RAD_TO_DEG"))))
    ni = py._numba_integrate

    def rot(rv, mat):
        for i in range(3):
            for j in range(3):
                mat[i, j] = TSym(TSym._op("expm%d%d" % (i, j), *[x.e for x in rv]))

    def grav(lat, alt):
        return TSym(TSym._op("gravity", lat.e, alt.e))
    patches.extend(dispatcher_patches(py))
    patches.append((ni, dict(gravity=grav, mat_from_rotvec=rot)))
    patches.extend(extra)
    with patched(*patches):
        yield proxy


def _t_from_rotvec(cls, rv, degrees=False):
    import numpy as _np
    from .sym import TSym, t_const
    arr = _np.asarray(rv, dtype=object)
    args = [x.e if isinstance(x, TSym) else t_const(x) for x in arr.reshape(-1)]
    M = _np.empty((3, 3), dtype=object)
    for i in range(3):
        for j in range(3):
            M[i, j] = TSym(TSym._op("from_rotvec_%d%d" % (i, j), *args))
    return cls([M], True)


TRotation.from_rotvec = classmethod(_t_from_rotvec)
