"""Import the code under verification from the working tree (never a cache)."""
from __future__ import annotations

import contextlib
import importlib
import os
import sys
import types
import warnings

import sympy as sp

from . import VERIF_ROOT  # noqa: F401  (sets sys.path)
from .npproxy import NpProxy, patched
from .sym import RSym, TSym
from spec import wgs84

REPO = os.environ.get("VERIF_REPO", "/repo")
MODULES = ["earth", "util", "transform", "_numba_integrate", "strapdown", "error_model",
           "kalman", "measurements", "inertial_sensor", "filters", "sim"]

_cache = {}


def load():
    """Return a namespace with the pyins modules imported from REPO's working tree."""
    if "py" in _cache:
        return _cache["py"]
    sys.dont_write_bytecode = True
    repo = os.path.realpath(REPO)
    if sys.path[0] != repo:
        sys.path.insert(0, repo)
    for k in [k for k in sys.modules if k == "pyins" or k.startswith("pyins.")]:
        del sys.modules[k]
    with warnings.catch_warnings():
        warnings.simplefilter("ignore")
        pkg = importlib.import_module("pyins")
        ns = types.SimpleNamespace(pyins=pkg)
        for m in MODULES:
            setattr(ns, m, importlib.import_module("pyins." + m))
    got = os.path.realpath(os.path.dirname(os.path.dirname(pkg.__file__)))
    if got != repo:
        raise RuntimeError("pyins imported from %s, expected %s" % (got, repo))
    ns.repo = repo
    _cache["py"] = ns
    return ns


def source_of(module_name):
    with open(os.path.join(os.path.realpath(REPO), "pyins", module_name + ".py")) as f:
        return f.read()


def py_func(f):
    """The Python source numba compiles (assumption A4)."""
    return getattr(f, "py_func", f)


def real_constants(py):
    """The actual module constants (floats) as loaded from the tree."""
    e = py.earth
    return dict(A=e.A, E2=e.E2, RATE=e.RATE, GE=e.GE, GP=e.GP, F=e.F)


@contextlib.contextmanager
def rdomain(py, rotation=None, extra=(), symbolic_constants=True, proxy=None):
    """Run pyins code in the R domain: module-global `np` proxied for allocation,
    WGS-84 constants rebound to symbols, unit constants to exact multiples of pi,
    scipy Rotation replaced by its assumed contract."""
    from .deps import RotationStub
    rotation = rotation or RotationStub
    proxy = proxy or NpProxy(RSym)
    patches = []
    for m in MODULES:
        mod = getattr(py, m)
        names = {}
        if "np" in mod.__dict__:
            names["np"] = proxy
        if "Rotation" in mod.__dict__:
            names["Rotation"] = rotation
        if names:
            patches.append((mod, names))
    if symbolic_constants:
        patches.append((py.earth, {k: RSym(v) for k, v in wgs84.CONSTANT_SYMBOLS.items()}))
    d2r = sp.pi / 180
    patches.append((py.transform, dict(
        DEG_TO_RAD=RSym(d2r), RAD_TO_DEG=RSym(1 / d2r), DH_TO_RS=RSym(d2r / 3600),
        RS_TO_DH=RSym(3600 / d2r), DRH_TO_RRS=RSym(d2r / 60))))
    ni = py._numba_integrate
    patches.append((ni, dict(gravity=py_func(ni.gravity), mat_from_rotvec=py_func(ni.mat_from_rotvec),
                             integrate=py_func(ni.integrate))))
    patches.append((py.strapdown, dict(integrate=py_func(ni.integrate))))
    patches.extend(extra)
    with patched(*patches):
        yield proxy
