"""Claim helpers: turn "real function == spec function" and "Taylor coefficient of
the real function == spec coefficient" into named obligations, with the CPython
cross-check (engine sanity) and native replay of refutations built in.

A *claim* supplies one domain-polymorphic callable `code(v)` that calls the real
pyins function with arguments built from `v` (a dict symbol-name -> value); the
same callable runs (i) symbolically, inside `rdomain`, with RSym values, and
(ii) natively on float64 with the real numpy / scipy / numba, for the
cross-check and for replaying counterexamples.
"""
from __future__ import annotations

import math
import time

import mpmath
import numpy as np
import sympy as sp

from . import field
from . import paths
from .harness import Ob
from .loader import load, rdomain, real_constants
from .sym import RSym, Sym, unwrap, record_divisors, Concretization
from . import nonzero
from spec import wgs84


# ---------------------------------------------------------------------------
# polymorphic unit helpers
# ---------------------------------------------------------------------------
def deg(x):
    """radians -> degrees in whichever domain `x` lives."""
    if isinstance(x, Sym):
        return RSym(sp.expand(x.e * 180 / sp.pi))
    return math.degrees(x)


def rad(x):
    if isinstance(x, Sym):
        return RSym(sp.expand(x.e * sp.pi / 180))
    return math.radians(x)


def flat(x):
    """array-like / sympy Matrix / tuple of scalars -> flat list of sympy expressions."""
    if isinstance(x, sp.MatrixBase):
        return [sp.sympify(v) for v in x]
    if isinstance(x, (tuple, list)):
        out = []
        for v in x:
            out.extend(flat(v))
        return out
    if hasattr(x, "values") and hasattr(x, "index"):
        x = x.values
    if isinstance(x, np.ndarray):
        u = unwrap(np.asarray(x, dtype=object)) if x.dtype == object else x
        if isinstance(u, np.ndarray):
            return [sp.sympify(v) for v in u.reshape(-1)]
        return [sp.sympify(u)]
    if isinstance(x, Sym):
        return [x.e]
    return [sp.sympify(x)]


def flat_float(x):
    if isinstance(x, (tuple, list)):
        out = []
        for v in x:
            out.extend(flat_float(v))
        return out
    if hasattr(x, "values") and hasattr(x, "index"):
        x = x.values
    return [float(v) for v in np.asarray(x, dtype=float).reshape(-1)]


def const_point(py):
    """Exact rationals of the real module constants (refuter samples the real ellipsoid)."""
    rc = real_constants(py)
    return {wgs84.CONSTANT_SYMBOLS[k]: sp.Rational(repr(float(v))) for k, v in rc.items()}


def full_domain(py, domain):
    d = dict(domain or {})
    for s, v in const_point(py).items():
        d.setdefault(s, (float(v), float(v)))
    return d


def _sample(symbols, domain, rng):
    pt = {}
    for s in symbols:
        lo, hi = domain.get(s, field.DEFAULT_BOX)
        pt[s] = rng.uniform(lo, hi)
    return pt


def lambdify_at_constants(py, exprs, symbols):
    consts = const_point(py)
    exprs = [sp.sympify(e).xreplace(consts) for e in exprs]
    return sp.lambdify(list(symbols), exprs, modules="mpmath")


def guarded_claim(fn):
    """An engine failure inside one claim is recorded under the claim's name (CHECKER-ERROR) and the check goes on with
    its other claims; it is never turned into a verdict."""
    import functools
    import traceback

    @functools.wraps(fn)
    def wrapper(ctx, name, *a, **k):
        from .harness import SectionTimeout, watchdog, section_budget
        wd = watchdog(0.5 * section_budget(ctx.tier), name)
        t_start = time.time()
        try:
            with wd:
                return fn(ctx, name, *a, **k)
        except SectionTimeout as exc:
            if exc.token is not wd.token:
                raise
            ctx.add(Ob(name + ".budget.claim", "guard", "undecided", "watchdog", wd.seconds,
                       "claim not decided within %.0f s (VERIF_SECTION_BUDGET): the engine does not finish on this code" % wd.seconds))
            return None
        except Exception:
            ctx.add(Ob(name + ".engine", "guard", "error", "python", 0.0, traceback.format_exc()[-1500:]))
            return None
        finally:
            try:
                ctx.claim_times.append((round(time.time() - t_start, 2), name))
            except AttributeError:
                pass
    return wrapper


# ---------------------------------------------------------------------------
# equality with a spec function
# ---------------------------------------------------------------------------
@guarded_claim
def eq_spec(ctx, name, symbols, code, spec, domain=None, kind="a", cos_nonneg=(),
            cell_names=None, crosscheck=True, tol=1e-9, py=None, extra_relations=(),
            rdomain_kw=None, derived=None, const_box=None, history=True):
    """Obligations `name[cell]`: code(v) == spec(v) cell by cell, for all values of
    `symbols` in `domain` (boxes are used only by the numeric refuter / cross-check;
    the proof itself is an identity in the fraction field).  Value-dependent branches of
    the code are explored path by path (pvx.paths); `name.history`: the result of a call
    does not depend on an earlier call."""
    py = py or load()
    dom = full_domain(py, domain)
    t0 = time.time()
    state = paths.Captured(code, py)
    consts = const_point(py)

    def ncode(v):
        state.restore()
        return code(v)

    def body(prev=None):
        state.restore()
        with rdomain(py, **(rdomain_kw or {})), record_divisors() as divs:
            if prev is not None:
                code({s.name: RSym(prev[s]) for s in symbols})
            res = code({s.name: RSym(s) for s in symbols})
            return flat(res), list(divs)

    want = flat(spec({s.name: s for s in symbols}))
    fwant = lambdify_at_constants(py, want, symbols)

    def spec_float(v):
        with mpmath.workdps(30):
            return [float(x) for x in fwant(*[mpmath.mpf(v[s.name]) for s in symbols])]

    def compare(g, w, _i=None):
        sc = max([abs(x) for x in w] + [1e-300])
        bad = [(i, g[i], w[i]) for i in range(min(len(g), len(w))) if not _close(g[i], w[i], tol, sc)]
        if _i is not None:
            bad = [b_ for b_ in bad if b_[0] == _i]
        return bad

    def native_fn(point, _i=None):
        v = {s.name: point.get(s.name, 0.0) for s in symbols}
        prev = {s.name: point[s.name + paths.PRIME] for s in symbols if s.name + paths.PRIME in point}
        state.restore()
        if prev and len(prev) == len(symbols):
            code(prev)
        g = flat_float(code(v))
        state.restore()
        bad = compare(g, spec_float(v), _i)
        out = dict(reproduced=bool(bad), inputs=v, real_code=[b_[1] for b_ in bad][:6], contract_demands=[b_[2] for b_ in bad][:6],
                   cells=[b_[0] for b_ in bad][:6])
        if prev:
            out["previous_call_inputs"] = prev
        return out

    try:
        runs = paths.explore_claim(body)
        if runs.truncated:
            ctx.ob(name + ".paths_exhausted", "guard", None, "path-enumeration", 0.0,
                   "the code under contract branches on its data: %d paths judged, path budget exhausted -- the remaining paths are undecided" % len(runs))
    except (TypeError, ValueError, Concretization) as exc:
        state.restore()
        if freshness_failure(ctx, name, symbols, code, dom, exc):
            state.restore()
            return None
        found = _native_falsify(ctx, symbols, dom, state, code, lambda v: compare(flat_float(code(v)), spec_float(v)))
        state.restore()
        if found is not None:
            ctx.add(Ob(name + ".native_fallback", kind, "failed", "bounded native falsification (call sequences; symbolic execution impossible)", time.time() - t0,
                       "the engine cannot execute this function symbolically (%s); natively the contract fails" % repr(exc)[:160],
                       cex=found, native=dict(reproduced=True, **found)))
        raise
    state.restore()
    freshness(ctx, name, symbols, code, dom)
    state.restore()
    multi = len(runs) > 1
    main_got = None
    for k, (conds, (got, divs)) in enumerate(runs):
        tag = ".path%d" % k if multi else ""
        pts = None
        if conds:
            wit = paths.witnesses(conds, symbols, dom, consts, ctx.seed + k, field.DEFAULT_BOX)
            if not wit:
                ctx.notes.append(dict(claim=name, path=k, skipped="no input found on which the recorded branch outcomes reproduce natively",
                                      conditions=paths.show_conds(conds)))
                continue
            pts = [{s: w_[s.name] for s in symbols} for w_ in wit]
        else:
            divisor_obligations(ctx, name + tag, divs, dom, ncode, symbols, py, derived=derived, const_box=const_box)
        if main_got is None:
            main_got = got
        if len(got) != len(want):
            ctx.add(Ob(name + tag + ".shape", "c", "failed", "shape", time.time() - t0,
                       "code returned %d cells, spec has %d%s" % (len(got), len(want), (" | path: %s" % paths.show_conds(conds)) if conds else ""),
                       cex=dict(code_cells=len(got), spec_cells=len(want)), native=dict(reproduced=True)))
            continue
        ctx.paths += 1
        for i, (g, w_) in enumerate(zip(got, want)):
            cn = cell_names[i] if cell_names else str(i)
            v = field.check_zero(g - w_, domain=dom, seed=ctx.seed + i, cos_nonneg=cos_nonneg,
                                 extra_relations=extra_relations, points=pts, sides=(g, w_))
            if conds and v.status != "proved":
                v.detail = (v.detail + " | on the path " + "; ".join(paths.show_conds(conds)))[:900]
            ctx.from_verdict("%s[%s]%s" % (name, cn, tag), kind, v, (lambda p, _i=i: native_fn(p, _i)))
        if crosscheck and not conds:
            cross_check(ctx, name, symbols, ncode, got, dom, py=py, tol=tol)
    if main_got is None:
        ctx.add(Ob(name + ".paths", "guard", "error", "path-enumeration", time.time() - t0, "no executable path of the claim had a witness input"))
        return None
    if history:
        _history(ctx, name, symbols, None, body, state, want, main_got, dom, consts, kind, cos_nonneg, extra_relations,
                 lambda p: native_fn(p))
    state.restore()
    return main_got


def _native_falsify(ctx, symbols, dom, state, code, failing, eps=None, n=60):
    """Bounded stand-in used only when the engine cannot execute a function symbolically: single calls and two-call
    sequences (same input, one coordinate changed, neighbours at several scales) on the real code."""
    import random
    rng = random.Random(ctx.seed + 99)
    prim = {s.name: s.name + paths.PRIME for s in symbols}
    tried = 0
    for p in paths.candidates(symbols, dom, rng, field.DEFAULT_BOX, eps=eps, primed=prim, n_base=3):
        tried += 1
        if tried > n * 10:
            break
        v = {s.name: p[s.name] for s in symbols}
        prev = {s.name: p[prim[s.name]] for s in symbols}
        for seq in ((v,), (prev, v)):
            try:
                state.restore()
                for q in seq[:-1]:
                    code(q)
                bad = failing(seq[-1])
            except Exception:
                continue
            if bad:
                return dict(call_sequence=list(seq), mismatches=[(b_[0], b_[1], b_[2]) for b_ in bad][:4], sequences_tried=tried)
    return None


def _history(ctx, name, symbols, eps, body, state, want, main_got, dom, consts, kind, cos_nonneg, extra_relations, native_fn,
             reduce_=None):
    """`name.history`: after a call on other (primed) inputs, the same world -- same captured objects, same module
    state -- returns a result that still satisfies the contract, on every path of the two-call sequence."""
    t0 = time.time()
    base = list(symbols) + ([eps] if eps is not None else [])
    prev = paths.primed_symbols(base)
    allsyms = base + [prev[s] for s in base]
    dom2 = dict(dom)
    for s in base:
        if s in dom:
            dom2[prev[s]] = dom[s]
    try:
        hruns = paths.explore_claim(lambda: body(prev))
    except Exception as exc:
        state.restore()
        # the engine cannot follow the state the function keeps (e.g. a float array allocated before the call): bounded
        # native search over two-call sequences; a hit is a violation with its input, a miss leaves the obligation undecided
        import random as _random
        rng_ = _random.Random(ctx.seed + 5)
        hit = None
        prim = {s_.name: s_.name + paths.PRIME for s_ in base}
        for n_try, pt in enumerate(paths.candidates(allsyms, dom2, rng_, field.DEFAULT_BOX, eps=eps, primed=prim, n_base=2)):
            if n_try > 40:
                break
            if n_try % 4:            # mostly far-apart and one-coordinate variants
                continue
            try:
                r_ = native_fn(pt)
            except Exception:
                state.restore()
                continue
            state.restore()
            if r_ and r_.get("reproduced"):
                hit = r_
                break
        if hit is not None:
            ctx.ob(name + ".history", "f", False, "bounded native falsification (two-call sequences; symbolic execution impossible)", time.time() - t0,
                   "the result of a call depends on an earlier call (the engine could not execute the second call symbolically: %s)" % repr(exc)[:160],
                   cex=dict(point=hit.get("inputs"), previous=hit.get("previous_call_inputs")), native=hit)
            return
        ctx.ob(name + ".history", "f", None, "symbolic-execution(two calls)", time.time() - t0,
               "the second of two calls could not be executed symbolically (%s): the function keeps state the engine cannot follow; "
               "no failing two-call sequence found natively" % repr(exc)[:200])
        return
    state.restore()
    n_paths = skipped = 0
    verdict = None
    verdict_wit = None
    for k, (conds, (got, divs)) in enumerate(hruns):
        if reduce_ is not None:
            got = reduce_(got)
        if got is None:
            continue
        same = len(got) == len(main_got) and all(a == b for a, b in zip(got, main_got))
        if same:
            n_paths += 1
            continue
        pts = None
        if conds:
            wit = paths.witnesses(conds, allsyms, dom2, consts, ctx.seed + 7 * k, field.DEFAULT_BOX, eps=eps,
                                  primed={s.name: prev[s].name for s in base})
            if eps is not None and wit:
                wit = [w_ for w_ in wit if w_.get(eps.name, 1.0) != 0.0]
            if not wit:
                skipped += 1
                continue
            pts = [{s: w_[s.name] for s in allsyms} for w_ in wit]
        n_paths += 1
        if len(got) != len(want):
            verdict = ("failed", "second call returns %d cells instead of %d" % (len(got), len(want)), None, conds, k)
            break
        sub = paths.equalities_subst(conds)
        for i, (g, w_) in enumerate(zip(got, want)):
            if g == main_got[i]:
                continue
            res_ = sp.sympify(g - w_).xreplace(sub) if sub else g - w_
            v = field.check_zero(res_, domain=dom2, seed=ctx.seed + i, cos_nonneg=cos_nonneg, extra_relations=extra_relations, points=pts)
            if v.status == "proved":
                continue
            st = "failed" if v.status == "refuted" else "undecided"
            if verdict is None or (st == "failed" and verdict[0] != "failed"):
                verdict = (st, "cell %d of the second call: %s" % (i, v.detail), v, conds, k)
                verdict_wit = pts
            if st == "failed":
                break
        if verdict is not None and verdict[0] == "failed":
            break
    dt = time.time() - t0
    if verdict is None:
        ctx.ob(name + ".history", "f", True, "symbolic-execution(two calls)+field-nf", dt,
               "second call after a call on other inputs: %d path(s), result is the single-call result / satisfies the contract%s"
               % (n_paths, (" (%d path(s) without a witness input skipped)" % skipped) if skipped else ""))
        return
    st, detail, v, conds, k = verdict
    native = None
    cex = dict(path=k, conditions=paths.show_conds(conds, 6))
    if st == "failed" and v is not None and v.point is not None:
        pt = {kk: float(sp.Rational(val)) for kk, val in v.point.items()}
        # the refuter reports only the coordinates the residual mentions: complete them from the witness they came from,
        # or (unconditional path) with a second call at the same remaining coordinates
        full = None
        for w_ in (verdict_wit or []):
            wn = {s_.name: val for s_, val in w_.items()}
            if all(abs(wn[kk] - pt[kk]) <= 1e-12 * (1 + abs(pt[kk])) for kk in pt if kk in wn):
                full = wn
                break
        if full is None:
            import random as _random
            rng_ = _random.Random(ctx.seed)
            full = dict(pt)
            for s_ in base:
                lo, hi = dom2.get(s_, field.DEFAULT_BOX)
                full.setdefault(s_.name, rng_.uniform(float(lo), float(hi)))
                full.setdefault(s_.name + paths.PRIME, full[s_.name])
        pt = full
        cex["point"] = pt
        try:
            native = native_fn(pt)
        except Exception as exc:
            native = dict(reproduced=None, replay_error=repr(exc))
        state.restore()
    ctx.ob(name + ".history", "f", False if st == "failed" else None, "symbolic-execution(two calls)+" + (v.backend if v is not None else "shape"), dt,
           ("the result of a call depends on an earlier call: " + detail + (" | path: " + "; ".join(paths.show_conds(conds)) if conds else ""))[:900],
           cex=cex, native=native)


def _close(a, b, tol, scale=1.0, atol=0.0):
    """|a-b| <= tol * max(|a|, |b|, 1e-3*scale) + atol; `scale` = magnitude of the whole output vector."""
    if math.isnan(a) or math.isnan(b):
        return False
    return abs(a - b) <= tol * max(abs(a), abs(b), 1e-3 * scale, 1e-300) + atol


def cross_check(ctx, name, symbols, code, got_exprs, domain, py=None, tol=1e-9, k=None, atol=0.0):
    """Engine sanity: the symbolic result evaluated at random points must equal the
    real function run natively (float64, real scipy, compiled numba).  A mismatch
    is a CHECKER-ERROR (engine or stub wrong), never a verdict."""
    py = py or load()
    k = k or (20 if ctx.tier == "quick" else 200)
    k = min(k, 20) if len(got_exprs) > 40 else k
    f = lambdify_at_constants(py, got_exprs, symbols)
    worst = 0.0
    t0 = time.time()
    n_ok = 0
    for _ in range(k):
        pt = _sample(symbols, domain, ctx.rng)
        try:
            native = flat_float(code({s.name: pt[s] for s in symbols}))
            with mpmath.workdps(30):
                sym = [float(mpmath.re(x)) for x in f(*[mpmath.mpf(pt[s]) for s in symbols])]
        except (ZeroDivisionError, ValueError, FloatingPointError):
            continue
        n_ok += 1
        sc = max([abs(x) for x in sym] + [1e-300])
        for idx_, (a, b) in enumerate(zip(native, sym)):
            if not _close(a, b, tol, sc, atol):
                # engine wrong, or the code numerically unstable in float64?  The expression the engine derived follows the
                # code's own operations: evaluated with 53-bit arithmetic it shows the same loss when the loss is the code's
                unstable = False
                try:
                    # (constants passed as arguments: substituting them first would let sympy re-collect the terms)
                    cp_ = const_point(py)
                    csyms = sorted(cp_, key=lambda s_: s_.name)
                    f53 = sp.lambdify(list(symbols) + csyms, [sp.sympify(got_exprs[idx_])], modules="mpmath")
                    with mpmath.workprec(53):
                        v53 = f53(*([mpmath.mpf(pt[s]) for s in symbols] + [mpmath.mpf(float(cp_[c_])) for c_ in csyms]))[0]
                    s53 = {idx_: float(mpmath.re(v53))}
                    unstable = not _close(s53[idx_], b, tol * 0.01, sc, atol * 0.01)
                except Exception:
                    s53 = None
                if unstable:
                    inputs = {s.name: pt[s] for s in symbols}
                    ctx.add(Ob(name + ".float64", "standin", "failed", "cpython-crosscheck(float64 run vs exact value of the same operations)", time.time() - t0,
                               "result cell %d: the real function returns %r in float64; the exact value of the operations it performs (the value the contract "
                               "is proved for) is %r; the same operations evaluated with 53-bit arithmetic give %r: the computation is numerically "
                               "unstable at this input (relative tolerance %g)" % (idx_, a, b, s53[idx_], tol),
                               cex=dict(point=inputs, cell=idx_),
                               native=dict(reproduced=True, inputs=inputs, cell=idx_, float64_result_of_real_code=a, exact_value=b,
                                           same_operations_53_bit=s53[idx_], tolerance=tol), bounded=True))
                    return False
                ctx.add(Ob(name + ".crosscheck", "guard", "error", "cpython-crosscheck", time.time() - t0,
                           "symbolic execution disagrees with native execution at %r: native %r, symbolic %r"
                           % ({s.name: pt[s] for s in symbols}, a, b)))
                return False
            worst = max(worst, abs(a - b) / max(abs(a), abs(b), 1e-3 * sc))
    ctx.crosscheck_points += n_ok
    if n_ok == 0:
        ctx.add(Ob(name + ".crosscheck", "guard", "error", "cpython-crosscheck", time.time() - t0,
                   "no cross-check point could be evaluated"))
        return False
    ctx.vacuity.append(dict(function=name, witness_inputs_run_natively=n_ok, worst_rel_diff=worst))
    return True


# ---------------------------------------------------------------------------
# Taylor coefficients
# ---------------------------------------------------------------------------
def taylor_coeffs(exprs, eps, order):
    """[[c0, c1, ... c_order] per expr]: d^k/d eps^k at 0 / k!  (by differentiation,
    never by series expansion of the whole expression)."""
    out = []
    for e in exprs:
        row = []
        d = sp.sympify(e)
        for k in range(order + 1):
            c = d.subs(eps, 0)
            if c.has(sp.nan, sp.zoo, sp.oo, -sp.oo):
                # removable singularity at eps = 0 (e.g. a slope b/dt later multiplied by dt): cancel first
                d = sp.cancel(sp.together(d))
                c = d.subs(eps, 0)
            row.append(c / sp.factorial(k))
            if k < order:
                d = sp.diff(d, eps)
        out.append(row)
    return out


@guarded_claim
def taylor_spec(ctx, name, symbols, eps, code, spec_coeffs, order, domain=None, kind="b",
                cos_nonneg=(), cell_names=None, py=None, fd_step=1e-4, tol=2e-5, crosscheck=True,
                orders=None, rdomain_kw=None, extra_relations=(), post=None, derived=None, const_box=None,
                cc_eps=(-0.5, 0.5), cc_tol=1e-5, cc_atol=0.0, history=True):
    """Obligations `name[cell].o<k>`: the k-th Taylor coefficient in `eps` of code(v)
    equals spec_coeffs(v)[cell][k] for k in `orders` (default 0..order).

    Native replay of a refuted coefficient: central finite differences of the real
    function (a measured sensitivity), compared with the spec coefficient.  Value-dependent
    branches are explored path by path; a path is judged only if some input with eps != 0 takes it."""
    py = py or load()
    dom = full_domain(py, domain)
    orders = list(range(order + 1)) if orders is None else orders
    t0 = time.time()
    state = paths.Captured(code, py)
    consts = const_point(py)
    base = list(symbols) + [eps]
    dome = dict(dom)
    dome[eps] = cc_eps

    def ncode(v):
        state.restore()
        return code(v)

    def body(prev=None):
        state.restore()
        with rdomain(py, **(rdomain_kw or {})), record_divisors() as divs:
            if prev is not None:
                code({s.name: RSym(prev[s]) for s in base})
            sv = {s.name: RSym(s) for s in base}
            res = code(sv)
            return flat(res), list(divs)

    want = spec_coeffs({s.name: s for s in symbols})
    n_spec = max(len(r_) for r_ in want) if want else 0
    fwant = lambdify_at_constants(py, [c_ for row in want for c_ in row], symbols)

    def spec_float(v):
        with mpmath.workdps(30):
            flat_w = [float(x) for x in fwant(*[mpmath.mpf(v[s.name]) for s in symbols])]
        out, k = [], 0
        for row in want:
            out.append(flat_w[k:k + len(row)])
            k += len(row)
        return out

    def model_misfit(v, e, out):
        """cells where the real output at (v, eps=e) is not c0 + c1 e (+ c2 e^2) up to the next order"""
        w = spec_float(v)
        sc = max([abs(r_[0]) for r_ in w] + [1e-300])
        bad = []
        for i, row in enumerate(w):
            known = [k for k in orders if k < len(row)]
            if 0 not in known or (1 not in known and order >= 1):
                continue
            kmax = max(known)
            pred = sum(row[k] * e ** k for k in range(kmax + 1) if k in known)
            c1 = abs(row[1]) if len(row) > 1 else 0.0
            allow = 1e3 * abs(e) ** (kmax + 1) * (sc + c1) + 1e-12 * max(abs(pred), 1e-3 * sc)
            if abs(out[i] - pred) > allow:
                bad.append((i, out[i], pred))
        return bad

    def native_path_fn(point):
        """replay at a witness of a path: the real output against the Taylor polynomial the contract demands"""
        v = {s.name: point.get(s.name, 0.0) for s in symbols}
        e = point.get(eps.name, 0.0)
        prev = {s.name: point[s.name + paths.PRIME] for s in base if s.name + paths.PRIME in point}
        state.restore()
        if prev and len(prev) == len(base):
            code(prev)
        out = flat_float(code(dict(v, **{eps.name: e})))
        state.restore()
        bad = model_misfit(v, e, out)
        r_ = dict(reproduced=bool(bad), inputs=dict(v, **{eps.name: e}), cells=[b_[0] for b_ in bad][:6], real_code=[b_[1] for b_ in bad][:6],
                  contract_demands_up_to_next_order=[b_[2] for b_ in bad][:6])
        if prev:
            r_["previous_call_inputs"] = prev
        return r_

    try:
        runs = paths.explore_claim(body)
        if runs.truncated:
            ctx.ob(name + ".paths_exhausted", "guard", None, "path-enumeration", 0.0,
                   "the code under contract branches on its data: %d paths judged, path budget exhausted -- the remaining paths are undecided" % len(runs))
    except (TypeError, ValueError, Concretization) as exc:
        state.restore()
        if freshness_failure(ctx, name, base, code, dome, exc):
            state.restore()
            return None
        found = None
        if post is None:
            found = _native_falsify(ctx, base, dome, state, code,
                                    lambda q: model_misfit({s.name: q[s.name] for s in symbols}, q[eps.name], flat_float(code(q))), eps=eps)
        state.restore()
        if found is not None:
            ctx.add(Ob(name + ".native_fallback", kind, "failed", "bounded native falsification (call sequences; symbolic execution impossible)", time.time() - t0,
                       "the engine cannot execute this function symbolically (%s); natively the contract fails" % repr(exc)[:160],
                       cex=found, native=dict(reproduced=True, **found)))
        raise
    state.restore()
    multi = len(runs) > 1
    main_got = main_coeffs = None
    discontinuous = []
    for kpath, (conds, (got, divs)) in enumerate(runs):
        tag = ".path%d" % kpath if multi else ""
        pts = wit = None
        if conds:
            wit = paths.witnesses(conds, base, dome, consts, ctx.seed + kpath, field.DEFAULT_BOX, eps=eps)
            wit = [w_ for w_ in (wit or []) if w_.get(eps.name, 0.0) != 0.0]
            if not wit:
                ctx.notes.append(dict(claim=name, path=kpath, skipped="no input with eps != 0 found on which the recorded branch outcomes reproduce natively",
                                      conditions=paths.show_conds(conds)))
                continue
            pts = [{s_: w_[s_.name] for s_ in symbols} for w_ in wit]
        else:
            divisor_obligations(ctx, name + tag, [d.subs(eps, 0) for d in divs], dom,
                                (lambda v: ncode(dict(v, **{eps.name: 0.0}))), symbols, py, derived=derived,
                                const_box=const_box)
        if post is not None:
            got = post(got)
        if len(got) != len(want):
            ctx.add(Ob(name + tag + ".shape", "c", "failed", "shape", 0.0,
                       "code returned %d cells, spec has %d" % (len(got), len(want)),
                       cex=dict(code_cells=len(got), spec_cells=len(want)), native=dict(reproduced=True)))
            continue
        ctx.paths += 1
        coeffs = taylor_coeffs(got, eps, order)
        if main_got is None:
            main_got, main_coeffs = got, coeffs

        def native_fn(point, i, k):
            v = {s.name: point.get(s.name, 0.0) for s in symbols}

            def f(e):
                vv = dict(v)
                vv[eps.name] = e
                out = flat_float(ncode(vv))
                return out[i]

            def fd(h):
                if k == 0:
                    return f(0.0)
                if k == 1:
                    return (8 * (f(h) - f(-h)) - (f(2 * h) - f(-2 * h))) / (12 * h)
                if k == 2:
                    return (-f(2 * h) + 16 * f(h) - 30 * f(0.0) + 16 * f(-h) - f(-2 * h)) / (12 * h * h) / 2
                return (f(2 * h) - 2 * f(h) + 2 * f(-h) - f(-2 * h)) / (2 * h ** 3) / 6
            g = fd(fd_step)
            g2 = fd(fd_step * 2)
            noise = abs(g - g2)                       # finite-difference error estimate (two step sizes)
            fw = lambdify_at_constants(py, [want[i][k]], symbols)
            with mpmath.workdps(30):
                w = float(fw(*[mpmath.mpf(v[s.name]) for s in symbols])[0])
            rep = abs(g - w) > 10 * noise + 1e-13 * max(abs(w), abs(g), 1e-3)
            return dict(reproduced=bool(rep), inputs=v, order=k,
                        measured_on_real_code=g, contract_demands=w, finite_difference_error_estimate=noise,
                        method="central finite differences of the real function, steps %g and %g" % (fd_step, 2 * fd_step))

        for i in range(len(got)):
            cn = cell_names[i] if cell_names else str(i)
            for k in orders:
                v = field.check_zero(coeffs[i][k] - want[i][k], domain=dom, seed=ctx.seed + 31 * i + k,
                                     cos_nonneg=cos_nonneg, extra_relations=extra_relations, points=pts, sides=(coeffs[i][k], want[i][k]))
                if conds and v.status != "proved":
                    v.detail = (v.detail + " | on the path " + "; ".join(paths.show_conds(conds)))[:900]
                if conds:
                    nf = (lambda p, _w=wit[0]: native_path_fn(_w)) if not post else None
                else:
                    nf = (lambda p, _i=i, _k=k: native_fn(p, _i, _k)) if not post else None
                ctx.from_verdict("%s[%s].o%d%s" % (name, cn, k, tag), kind, v, nf)
                if v.status == "undecided" and any(w_ in (v.detail or "") for w_ in ("floor(", "ceiling(", "sign(")):
                    discontinuous.append("%s[%s].o%d%s" % (name, cn, k, tag))
        if crosscheck and post is None and not conds:
            # cross-check the eps-dependent expression itself at small random eps
            cross_check(ctx, name, base, ncode, got, dome, py=py, tol=cc_tol, atol=cc_atol)
    if discontinuous and post is None:
        # The executed expression contains a step function (a rounding, a fold) of the inputs: Taylor's theorem -- the link
        # between the coefficient identities and "to first order" -- needs a smooth map, and the normal form cannot take the term.
        # The coefficients agree almost everywhere; what can be wrong is the behaviour ACROSS a step.  Bounded native search for
        # an input (ends of the ranges at every scale, perturbations of both signs and all sizes) where the real code leaves
        # the Taylor polynomial the contract demands; a hit is a violation with its input, a miss leaves the cells undecided.
        import random as _random
        rng_ = _random.Random(ctx.seed + 17)
        hit, tried = None, 0
        t_f = time.time()
        try:
            for pt in paths.candidates(base, dome, rng_, field.DEFAULT_BOX, eps=eps, primed=None, n_base=400):
                tried += 1
                if tried > 8000 or time.time() - t_f > 60:
                    break
                e_ = pt.get(eps.name, 0.0)
                if e_ == 0.0:
                    continue
                v_ = {s_.name: pt[s_.name] for s_ in symbols}
                try:
                    state.restore()
                    bad_ = model_misfit(v_, e_, flat_float(code(dict(v_, **{eps.name: e_}))))
                except Exception:
                    continue
                if bad_:
                    hit = dict(inputs=dict(v_, **{eps.name: e_}), cells=[b_[0] for b_ in bad_][:6], real_code=[b_[1] for b_ in bad_][:6],
                               contract_demands_up_to_next_order=[b_[2] for b_ in bad_][:6], points_tried=tried)
                    break
        finally:
            state.restore()
        if hit is not None:
            ctx.add(Ob(name + ".across_a_step", kind, "failed", "bounded native falsification (inputs next to a step of the executed expression)", time.time() - t_f,
                       "the code rounds / folds a quantity that depends on the inputs (%s); next to a step the real output leaves the Taylor polynomial the contract demands" % ", ".join(discontinuous[:3]),
                       cex=hit, native=dict(reproduced=True, **hit)))
    if main_got is None:
        ctx.add(Ob(name + ".paths", "guard", "error", "path-enumeration", time.time() - t0, "no executable path of the claim had a witness input"))
        return None
    if history:
        def reduce_(got):
            if post is not None:
                got = post(got)
            return got
        _history_taylor(ctx, name, symbols, eps, body, state, want, main_got, main_coeffs, order, orders, dom, dome, consts, kind,
                        cos_nonneg, extra_relations, native_path_fn if post is None else None, reduce_)
    state.restore()
    return main_coeffs


def _history_taylor(ctx, name, symbols, eps, body, state, want, main_got, main_coeffs, order, orders, dom, dome, consts, kind,
                    cos_nonneg, extra_relations, native_fn, reduce_):
    """`name.history` for a Taylor claim: the coefficients of the second of two calls still equal the spec coefficients"""
    t0 = time.time()
    base = list(symbols) + [eps]
    prev = paths.primed_symbols(base)
    allsyms = base + [prev[s] for s in base]
    dom2 = dict(dome)
    for s in base:
        if s in dome:
            dom2[prev[s]] = dome[s]
    try:
        hruns = paths.explore_claim(lambda: body(prev))
    except Exception as exc:
        state.restore()
        ctx.ob(name + ".history", "f", None, "symbolic-execution(two calls)", time.time() - t0,
               "the second of two calls could not be executed symbolically (%s): the function keeps state the engine cannot follow" % repr(exc)[:200])
        return
    state.restore()
    n_paths = skipped = 0
    verdict = None
    for kpath, (conds, (got, divs)) in enumerate(hruns):
        got = reduce_(got)
        same = len(got) == len(main_got) and all(a == b for a, b in zip(got, main_got))
        if same:
            n_paths += 1
            continue
        pts = wit = None
        if conds:
            wit = paths.witnesses(conds, allsyms, dom2, consts, ctx.seed + 7 * kpath, field.DEFAULT_BOX, eps=eps,
                                  primed={s.name: prev[s].name for s in base})
            wit = [w_ for w_ in (wit or []) if w_.get(eps.name, 0.0) != 0.0]
            if not wit:
                skipped += 1
                continue
            pts = [{s_: w_[s_.name] for s_ in allsyms if s_ is not eps} for w_ in wit]
        n_paths += 1
        if len(got) != len(want):
            verdict = ("failed", "second call returns %d cells instead of %d" % (len(got), len(want)), None, conds, kpath, None)
            break
        sub = {k_: v_ for k_, v_ in paths.equalities_subst(conds).items() if k_ is not eps and eps not in v_.free_symbols}
        coeffs = taylor_coeffs(got, eps, order)
        for i in range(len(got)):
            if got[i] == main_got[i]:
                continue
            for k in orders:
                res_ = coeffs[i][k] - want[i][k]
                if sub:
                    res_ = sp.sympify(res_).xreplace(sub)
                v = field.check_zero(res_, domain=dom2, seed=ctx.seed + 31 * i + k, cos_nonneg=cos_nonneg,
                                     extra_relations=extra_relations, points=pts)
                if v.status == "proved":
                    continue
                st = "failed" if v.status == "refuted" else "undecided"
                if verdict is None or (st == "failed" and verdict[0] != "failed"):
                    verdict = (st, "cell %d, order %d of the second call: %s" % (i, k, v.detail), v, conds, kpath, wit[0] if wit else None)
                if st == "failed":
                    break
            if verdict is not None and verdict[0] == "failed":
                break
        if verdict is not None and verdict[0] == "failed":
            break
    dt = time.time() - t0
    if verdict is None:
        ctx.ob(name + ".history", "f", True, "symbolic-execution(two calls)+field-nf", dt,
               "second call after a call on other inputs: %d path(s), Taylor coefficients are those of the single call / of the spec%s"
               % (n_paths, (" (%d path(s) without a witness input skipped)" % skipped) if skipped else ""))
        return
    st, detail, v, conds, kpath, w0 = verdict
    native = None
    cex = dict(path=kpath, conditions=paths.show_conds(conds, 6))
    if st == "failed" and native_fn is not None:
        pt = w0
        if pt is None and v is not None and v.point is not None:
            pt = {kk: float(sp.Rational(val)) for kk, val in v.point.items()}
            pt.setdefault(eps.name, 1e-6)
            pt.setdefault(eps.name + paths.PRIME, 1e-6)
        if pt is not None:
            cex["point"] = pt
            try:
                native = native_fn(pt)
            except Exception as exc:
                native = dict(reproduced=None, replay_error=repr(exc))
            state.restore()
    ctx.ob(name + ".history", "f", False if st == "failed" else None, "symbolic-execution(two calls)+" + (v.backend if v is not None else "shape"), dt,
           ("the result of a call depends on an earlier call: " + detail + (" | path: " + "; ".join(paths.show_conds(conds)) if conds else ""))[:900],
           cex=cex, native=native)


@guarded_claim
def history_independent(ctx, name, symbols, code, domain=None, kind="f", cos_nonneg=(), py=None, rdomain_kw=None,
                        extra_relations=(), tol=1e-9, before=None):
    """Obligation `name.history` without a spec: the result of code(v) after a call on other inputs (same captured
    objects, same module state) is the result of a single call, on every witnessed path of the two-call sequence.
    Use where the functional contract is checked by other means but the function belongs to a stateful object.
    `before`: the earlier call is this other function (on the primed inputs) instead of `code` itself."""
    py = py or load()
    dom = full_domain(py, domain)
    before = before or code
    state = paths.Captured(lambda: (code, before), py)
    consts = const_point(py)

    def body(prev=None):
        state.restore()
        with rdomain(py, **(rdomain_kw or {})):
            if prev is not None:
                before({s.name: RSym(prev[s]) for s in symbols})
            return flat(code({s.name: RSym(s) for s in symbols})), []

    runs = paths.explore_claim(body)
    state.restore()
    single = [r_ for r_ in runs if not r_[0]]
    if not single:
        ctx.ob(name + ".history", kind, None, "symbolic-execution(two calls)", 0.0, "the single call itself branches on its input; use eq_spec / taylor_spec")
        return None
    main_got = single[0][1][0]

    def native_fn(point):
        v = {s.name: point.get(s.name, 0.0) for s in symbols}
        prev = {s.name: point.get(s.name + paths.PRIME, v[s.name]) for s in symbols}
        state.restore()
        alone = flat_float(code(v))
        state.restore()
        before(prev)
        after = flat_float(code(v))
        state.restore()
        sc = max([abs(x) for x in alone] + [1e-300])
        bad = [(i, after[i], alone[i]) for i in range(min(len(alone), len(after))) if not _close(after[i], alone[i], tol, sc)]
        return dict(reproduced=bool(bad) or len(alone) != len(after), inputs=v, previous_call_inputs=prev, cells=[b_[0] for b_ in bad][:6],
                    after_an_earlier_call=[b_[1] for b_ in bad][:6], single_call=[b_[2] for b_ in bad][:6])

    _history(ctx, name, symbols, None, body, state, main_got, main_got, dom, consts, kind, cos_nonneg, extra_relations, native_fn)
    state.restore()
    return main_got


# ---------------------------------------------------------------------------
# divisor obligations
# ---------------------------------------------------------------------------
CONST_BOX = {wgs84.A: (6.0e6, 6.8e6), wgs84.E2: (0.0, 0.02), wgs84.RATE: (1e-5, 1e-3),
             wgs84.GE: (9.0, 10.5), wgs84.GP: (9.0, 10.5), wgs84.F: (0.0, 0.01),
             field.PI: (3.14159, 3.1416)}


def divisor_obligations(ctx, name, divisors, domain, code, symbols, py, derived=None, const_box=None):
    """One obligation per distinct divisor the code executed: it must not vanish on the
    contract's domain (boxes for the symbols; Earth-like ranges for the ellipsoid constants)."""
    box = dict(CONST_BOX)
    box.update(const_box or {})
    for s, b in (domain or {}).items():
        if s not in wgs84.CONSTANT_SYMBOLS.values():
            box[s] = b
    seen = []
    for d in divisors:
        d = sp.sympify(d)
        if d.is_number or any(d == x for x in seen):
            continue
        seen.append(d)
    for k, d in enumerate(seen):
        v = nonzero.check_nonzero(d, box, seed=ctx.seed + k, derived=derived)

        def native_fn(point, _d=d):
            vals = {s.name: point.get(s.name, 0.0) for s in symbols}
            try:
                out = flat_float(code(vals))
                bad = any(math.isnan(x) or math.isinf(x) for x in out)
                return dict(reproduced=bad, inputs=vals, real_code_output=out[:9],
                            note="non-finite output at a zero of the divisor" if bad else "output finite at this float point")
            except ZeroDivisionError as exc:
                return dict(reproduced=True, inputs=vals, raised=repr(exc))
            except Exception as exc:
                return dict(reproduced=None, inputs=vals, raised=repr(exc))
        ctx.from_verdict("%s.divisor[%d]" % (name, k), "d", v, native_fn)
        if ctx.obs and ctx.obs[-1].name.endswith(".divisor[%d]" % k):
            ctx.obs[-1].detail = (ctx.obs[-1].detail + " | divisor: " + str(d)[:160]).strip(" |")


# ---------------------------------------------------------------------------
# frame: results are fresh, no state shared between calls
# ---------------------------------------------------------------------------
def _arrays_of(res):
    out = []
    if isinstance(res, (tuple, list)):
        for r in res:
            out.extend(_arrays_of(r))
    elif hasattr(res, "values") and hasattr(res, "index"):
        out.append(np.asarray(res.values))
    elif isinstance(res, np.ndarray):
        out.append(res)
    return out


def two_call_aliasing(code, symbols, domain, rng):
    """Native: r1 = f(p1); snapshot; r2 = f(p2).  r1 must be unchanged and share no memory with r2."""
    p1 = _sample(symbols, domain, rng)
    p2 = _sample(symbols, domain, rng)
    r1 = code({s.name: p1[s] for s in symbols})
    a1 = _arrays_of(r1)
    snap = [a.copy() for a in a1]
    r2 = code({s.name: p2[s] for s in symbols})
    a2 = _arrays_of(r2)
    changed = any(not np.array_equal(a, b, equal_nan=True) for a, b in zip(a1, snap))
    shared = any(np.shares_memory(a, b) for a in a1 for b in a2 if a.size and b.size)
    return dict(reproduced=bool(changed or shared), first_result_changed_by_second_call=bool(changed),
                results_share_memory=bool(shared),
                inputs=[{s.name: p1[s] for s in symbols}, {s.name: p2[s] for s in symbols}])


def freshness(ctx, name, symbols, code, domain):
    """Frame obligation (run-time part): two consecutive calls return independent objects."""
    try:
        r = two_call_aliasing(code, symbols, domain, ctx.rng)
    except Exception as exc:
        return
    ctx.ob(name + ".frame.result_independent_of_later_calls", "f", not r["reproduced"], "native two-call aliasing test", 0.0,
           "first result unchanged by a second call, no shared memory", cex=r if r["reproduced"] else None,
           native=r if r["reproduced"] else None)


def freshness_failure(ctx, name, symbols, code, domain, exc):
    """The symbolic run could not store a symbol into an array it did not allocate during the call
    (a float array that pre-exists the call: module / class level state or a caller's argument).
    That is a frame violation iff it shows natively as aliasing between calls."""
    msg = repr(exc)
    if not isinstance(exc, Concretization) and "RSym" not in msg and "real number" not in msg and "float" not in msg:
        return False
    shared = _shared_array_in_traceback(exc)
    try:
        r = two_call_aliasing(code, symbols, domain, ctx.rng)
    except Exception:
        r = dict(reproduced=False)
    if not r["reproduced"] and shared is None:
        return False
    where = (" -- the array is the module/class level object %s" % shared) if shared else ""
    ctx.add(Ob(name + ".frame.writes_only_arrays_allocated_in_the_call", "f", "failed", "symbolic-execution(frame)", 0.0,
               "the function writes into an array that pre-exists the call (%s)%s; natively the first result is %s by a second call"
               % (msg[:120], where, ("changed" if r.get("first_result_changed_by_second_call") else "aliased") if r["reproduced"] else "not visibly affected"),
               cex=dict(shared_object=shared, two_call_test=r), native=r))
    return True


def _shared_array_in_traceback(exc):
    """If the failing store targeted an ndarray that is reachable from a pyins module global or class
    attribute, return its qualified name (a definite write to state that outlives the call)."""
    import sys
    shared = {}
    for mname, mod in list(sys.modules.items()):
        if not mname.startswith("pyins") or mod is None:
            continue
        for k, v in list(vars(mod).items()):
            if isinstance(v, np.ndarray):
                shared[id(v)] = "%s.%s" % (mname, k)
            elif isinstance(v, type) and getattr(v, "__module__", "").startswith("pyins"):
                for ck, cv in list(vars(v).items()):
                    if isinstance(cv, np.ndarray):
                        shared[id(cv)] = "%s.%s.%s" % (mname, k, ck)
    tb = exc.__traceback__
    while tb is not None:
        fr = tb.tb_frame
        if "pyins" in fr.f_code.co_filename:
            for v in fr.f_locals.values():
                if isinstance(v, np.ndarray):
                    base = v
                    while isinstance(base, np.ndarray):
                        if id(base) in shared:
                            return shared[id(base)]
                        base = base.base
        tb = tb.tb_next
    return None
