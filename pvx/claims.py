"""Claim helpers: turn "real function == spec function" and "Taylor coefficient of
the real function == spec coefficient" into named obligations, with the CPython
cross-check (engine sanity) and native replay of refutations built in.

A *claim* supplies one domain-polymorphic callable `code(v)` that calls the real
pyins function with arguments built from `v` (a dict symbol-name -> value); the
same callable runs (i) symbolically, inside `rdomain`, with RSym values, and
(ii) natively on float64 with the real numpy / scipy / numba, for the
cross-check and for replaying counterexamples.
"""
from __future__ import annotations

import math
import time

import mpmath
import numpy as np
import sympy as sp

from . import field
from .harness import Ob
from .loader import load, rdomain, real_constants
from .sym import RSym, Sym, unwrap, record_divisors, Concretization
from . import nonzero
from spec import wgs84


# ---------------------------------------------------------------------------
# polymorphic unit helpers
# ---------------------------------------------------------------------------
def deg(x):
    """radians -> degrees in whichever domain `x` lives."""
    if isinstance(x, Sym):
        return RSym(sp.expand(x.e * 180 / sp.pi))
    return math.degrees(x)


def rad(x):
    if isinstance(x, Sym):
        return RSym(sp.expand(x.e * sp.pi / 180))
    return math.radians(x)


def flat(x):
    """array-like / sympy Matrix / tuple of scalars -> flat list of sympy expressions."""
    if isinstance(x, sp.MatrixBase):
        return [sp.sympify(v) for v in x]
    if isinstance(x, (tuple, list)):
        out = []
        for v in x:
            out.extend(flat(v))
        return out
    if hasattr(x, "values") and hasattr(x, "index"):
        x = x.values
    if isinstance(x, np.ndarray):
        u = unwrap(np.asarray(x, dtype=object)) if x.dtype == object else x
        if isinstance(u, np.ndarray):
            return [sp.sympify(v) for v in u.reshape(-1)]
        return [sp.sympify(u)]
    if isinstance(x, Sym):
        return [x.e]
    return [sp.sympify(x)]


def flat_float(x):
    if isinstance(x, (tuple, list)):
        out = []
        for v in x:
            out.extend(flat_float(v))
        return out
    if hasattr(x, "values") and hasattr(x, "index"):
        x = x.values
    return [float(v) for v in np.asarray(x, dtype=float).reshape(-1)]


def const_point(py):
    """Exact rationals of the real module constants (refuter samples the real ellipsoid)."""
    rc = real_constants(py)
    return {wgs84.CONSTANT_SYMBOLS[k]: sp.Rational(repr(float(v))) for k, v in rc.items()}


def full_domain(py, domain):
    d = dict(domain or {})
    for s, v in const_point(py).items():
        d.setdefault(s, (float(v), float(v)))
    return d


def _sample(symbols, domain, rng):
    pt = {}
    for s in symbols:
        lo, hi = domain.get(s, field.DEFAULT_BOX)
        pt[s] = rng.uniform(lo, hi)
    return pt


def lambdify_at_constants(py, exprs, symbols):
    consts = const_point(py)
    exprs = [sp.sympify(e).xreplace(consts) for e in exprs]
    return sp.lambdify(list(symbols), exprs, modules="mpmath")


def guarded_claim(fn):
    """An engine failure inside one claim is recorded under the claim's name (CHECKER-ERROR) and the check goes on with
    its other claims; it is never turned into a verdict."""
    import functools
    import traceback

    @functools.wraps(fn)
    def wrapper(ctx, name, *a, **k):
        try:
            return fn(ctx, name, *a, **k)
        except Exception:
            ctx.add(Ob(name + ".engine", "guard", "error", "python", 0.0, traceback.format_exc()[-1500:]))
            return None
    return wrapper


# ---------------------------------------------------------------------------
# equality with a spec function
# ---------------------------------------------------------------------------
@guarded_claim
def eq_spec(ctx, name, symbols, code, spec, domain=None, kind="a", cos_nonneg=(),
            cell_names=None, crosscheck=True, tol=1e-9, py=None, extra_relations=(),
            rdomain_kw=None, derived=None, const_box=None):
    """Obligations `name[cell]`: code(v) == spec(v) cell by cell, for all values of
    `symbols` in `domain` (boxes are used only by the numeric refuter / cross-check;
    the proof itself is an identity in the fraction field)."""
    py = py or load()
    dom = full_domain(py, domain)
    t0 = time.time()
    try:
        with rdomain(py, **(rdomain_kw or {})), record_divisors() as divs:
            res = code({s.name: RSym(s) for s in symbols})
            got = flat(res)
    except (TypeError, ValueError, Concretization) as exc:
        if not freshness_failure(ctx, name, symbols, code, dom, exc):
            raise
        return None
    freshness(ctx, name, symbols, code, dom)
    divisor_obligations(ctx, name, divs, dom, code, symbols, py, derived=derived, const_box=const_box)
    want = flat(spec({s.name: s for s in symbols}))
    if len(got) != len(want):
        ctx.add(Ob(name + ".shape", "c", "failed", "shape", time.time() - t0,
                   "code returned %d cells, spec has %d" % (len(got), len(want)),
                   cex=dict(code_cells=len(got), spec_cells=len(want)), native=dict(reproduced=True)))
        return None
    ctx.paths += 1

    def native_fn(point, _i=None):
        v = {s.name: point.get(s.name, 0.0) for s in symbols}
        g = flat_float(code(v))
        f = lambdify_at_constants(py, want, symbols)
        with mpmath.workdps(30):
            w = [float(x) for x in f(*[mpmath.mpf(v[s.name]) for s in symbols])]
        sc = max([abs(x) for x in w] + [1e-300])
        bad = [(i, g[i], w[i]) for i in range(len(g)) if not _close(g[i], w[i], tol, sc)]
        if _i is not None:
            bad = [b for b in bad if b[0] == _i]
        return dict(reproduced=bool(bad), inputs=v,
                    real_code=[b[1] for b in bad][:6], contract_demands=[b[2] for b in bad][:6],
                    cells=[b[0] for b in bad][:6])

    for i, (g, w) in enumerate(zip(got, want)):
        cn = cell_names[i] if cell_names else str(i)
        v = field.check_zero(g - w, domain=dom, seed=ctx.seed + i, cos_nonneg=cos_nonneg,
                             extra_relations=extra_relations)
        ctx.from_verdict("%s[%s]" % (name, cn), kind, v, (lambda p, _i=i: native_fn(p, _i)))
    if crosscheck:
        cross_check(ctx, name, symbols, code, got, dom, py=py, tol=tol)
    return got


def _close(a, b, tol, scale=1.0, atol=0.0):
    """|a-b| <= tol * max(|a|, |b|, 1e-3*scale) + atol; `scale` = magnitude of the whole output vector."""
    if math.isnan(a) or math.isnan(b):
        return False
    return abs(a - b) <= tol * max(abs(a), abs(b), 1e-3 * scale, 1e-300) + atol


def cross_check(ctx, name, symbols, code, got_exprs, domain, py=None, tol=1e-9, k=None, atol=0.0):
    """Engine sanity: the symbolic result evaluated at random points must equal the
    real function run natively (float64, real scipy, compiled numba).  A mismatch
    is a CHECKER-ERROR (engine or stub wrong), never a verdict."""
    py = py or load()
    k = k or (20 if ctx.tier == "quick" else 200)
    k = min(k, 20) if len(got_exprs) > 40 else k
    f = lambdify_at_constants(py, got_exprs, symbols)
    worst = 0.0
    t0 = time.time()
    n_ok = 0
    for _ in range(k):
        pt = _sample(symbols, domain, ctx.rng)
        try:
            native = flat_float(code({s.name: pt[s] for s in symbols}))
            with mpmath.workdps(30):
                sym = [float(mpmath.re(x)) for x in f(*[mpmath.mpf(pt[s]) for s in symbols])]
        except (ZeroDivisionError, ValueError, FloatingPointError):
            continue
        n_ok += 1
        sc = max([abs(x) for x in sym] + [1e-300])
        for a, b in zip(native, sym):
            if not _close(a, b, tol, sc, atol):
                ctx.add(Ob(name + ".crosscheck", "guard", "error", "cpython-crosscheck", time.time() - t0,
                           "symbolic execution disagrees with native execution at %r: native %r, symbolic %r"
                           % ({s.name: pt[s] for s in symbols}, a, b)))
                return False
            worst = max(worst, abs(a - b) / max(abs(a), abs(b), 1e-3 * sc))
    ctx.crosscheck_points += n_ok
    if n_ok == 0:
        ctx.add(Ob(name + ".crosscheck", "guard", "error", "cpython-crosscheck", time.time() - t0,
                   "no cross-check point could be evaluated"))
        return False
    ctx.vacuity.append(dict(function=name, witness_inputs_run_natively=n_ok, worst_rel_diff=worst))
    return True


# ---------------------------------------------------------------------------
# Taylor coefficients
# ---------------------------------------------------------------------------
def taylor_coeffs(exprs, eps, order):
    """[[c0, c1, ... c_order] per expr]: d^k/d eps^k at 0 / k!  (by differentiation,
    never by series expansion of the whole expression)."""
    out = []
    for e in exprs:
        row = []
        d = sp.sympify(e)
        for k in range(order + 1):
            row.append(d.subs(eps, 0) / sp.factorial(k))
            if k < order:
                d = sp.diff(d, eps)
        out.append(row)
    return out


@guarded_claim
def taylor_spec(ctx, name, symbols, eps, code, spec_coeffs, order, domain=None, kind="b",
                cos_nonneg=(), cell_names=None, py=None, fd_step=1e-4, tol=2e-5, crosscheck=True,
                orders=None, rdomain_kw=None, extra_relations=(), post=None, derived=None, const_box=None,
                cc_eps=(-0.5, 0.5), cc_tol=1e-5, cc_atol=0.0):
    """Obligations `name[cell].o<k>`: the k-th Taylor coefficient in `eps` of code(v)
    equals spec_coeffs(v)[cell][k] for k in `orders` (default 0..order).

    Native replay of a refuted coefficient: central finite differences of the real
    function (a measured sensitivity), compared with the spec coefficient."""
    py = py or load()
    dom = full_domain(py, domain)
    orders = list(range(order + 1)) if orders is None else orders
    try:
        with rdomain(py, **(rdomain_kw or {})), record_divisors() as divs:
            sv = {s.name: RSym(s) for s in symbols}
            sv[eps.name] = RSym(eps)
            res = code(sv)
            got = flat(res)
    except (TypeError, ValueError, Concretization) as exc:
        d2 = dict(dom)
        d2[eps] = cc_eps
        if not freshness_failure(ctx, name, list(symbols) + [eps], code, d2, exc):
            raise
        return None
    divisor_obligations(ctx, name, [d.subs(eps, 0) for d in divs], dom,
                        (lambda v: code(dict(v, **{eps.name: 0.0}))), symbols, py, derived=derived,
                        const_box=const_box)
    if post is not None:
        got = post(got)
    ctx.paths += 1
    want = spec_coeffs({s.name: s for s in symbols})
    if len(got) != len(want):
        ctx.add(Ob(name + ".shape", "c", "failed", "shape", 0.0,
                   "code returned %d cells, spec has %d" % (len(got), len(want)),
                   cex=dict(code_cells=len(got), spec_cells=len(want)), native=dict(reproduced=True)))
        return None
    coeffs = taylor_coeffs(got, eps, order)

    def native_fn(point, i, k):
        v = {s.name: point.get(s.name, 0.0) for s in symbols}

        def f(e):
            vv = dict(v)
            vv[eps.name] = e
            out = flat_float(code(vv))
            return out[i]
        def fd(h):
            if k == 0:
                return f(0.0)
            if k == 1:
                return (8 * (f(h) - f(-h)) - (f(2 * h) - f(-2 * h))) / (12 * h)
            if k == 2:
                return (-f(2 * h) + 16 * f(h) - 30 * f(0.0) + 16 * f(-h) - f(-2 * h)) / (12 * h * h) / 2
            return (f(2 * h) - 2 * f(h) + 2 * f(-h) - f(-2 * h)) / (2 * h ** 3) / 6
        g = fd(fd_step)
        g2 = fd(fd_step * 2)
        noise = abs(g - g2)                       # finite-difference error estimate (two step sizes)
        fw = lambdify_at_constants(py, [want[i][k]], symbols)
        with mpmath.workdps(30):
            w = float(fw(*[mpmath.mpf(v[s.name]) for s in symbols])[0])
        rep = abs(g - w) > 10 * noise + 1e-13 * max(abs(w), abs(g), 1e-3)
        return dict(reproduced=bool(rep), inputs=v, order=k,
                    measured_on_real_code=g, contract_demands=w, finite_difference_error_estimate=noise,
                    method="central finite differences of the real function, steps %g and %g" % (fd_step, 2 * fd_step))

    for i in range(len(got)):
        cn = cell_names[i] if cell_names else str(i)
        for k in orders:
            v = field.check_zero(coeffs[i][k] - want[i][k], domain=dom, seed=ctx.seed + 31 * i + k,
                                 cos_nonneg=cos_nonneg, extra_relations=extra_relations)
            ctx.from_verdict("%s[%s].o%d" % (name, cn, k), kind, v,
                             (lambda p, _i=i, _k=k: native_fn(p, _i, _k)) if not post else None)
    if crosscheck and post is None:
        # cross-check the eps-dependent expression itself at small random eps
        d2 = dict(dom)
        d2[eps] = cc_eps
        cross_check(ctx, name, list(symbols) + [eps], code, got, d2, py=py, tol=cc_tol, atol=cc_atol)
    return coeffs


# ---------------------------------------------------------------------------
# divisor obligations
# ---------------------------------------------------------------------------
CONST_BOX = {wgs84.A: (6.0e6, 6.8e6), wgs84.E2: (0.0, 0.02), wgs84.RATE: (1e-5, 1e-3),
             wgs84.GE: (9.0, 10.5), wgs84.GP: (9.0, 10.5), wgs84.F: (0.0, 0.01),
             field.PI: (3.14159, 3.1416)}


def divisor_obligations(ctx, name, divisors, domain, code, symbols, py, derived=None, const_box=None):
    """One obligation per distinct divisor the code executed: it must not vanish on the
    contract's domain (boxes for the symbols; Earth-like ranges for the ellipsoid constants)."""
    box = dict(CONST_BOX)
    box.update(const_box or {})
    for s, b in (domain or {}).items():
        if s not in wgs84.CONSTANT_SYMBOLS.values():
            box[s] = b
    seen = []
    for d in divisors:
        d = sp.sympify(d)
        if d.is_number or any(d == x for x in seen):
            continue
        seen.append(d)
    for k, d in enumerate(seen):
        v = nonzero.check_nonzero(d, box, seed=ctx.seed + k, derived=derived)

        def native_fn(point, _d=d):
            vals = {s.name: point.get(s.name, 0.0) for s in symbols}
            try:
                out = flat_float(code(vals))
                bad = any(math.isnan(x) or math.isinf(x) for x in out)
                return dict(reproduced=bad, inputs=vals, real_code_output=out[:9],
                            note="non-finite output at a zero of the divisor" if bad else "output finite at this float point")
            except ZeroDivisionError as exc:
                return dict(reproduced=True, inputs=vals, raised=repr(exc))
            except Exception as exc:
                return dict(reproduced=None, inputs=vals, raised=repr(exc))
        ctx.from_verdict("%s.divisor[%d]" % (name, k), "d", v, native_fn)
        if ctx.obs and ctx.obs[-1].name.endswith(".divisor[%d]" % k):
            ctx.obs[-1].detail = (ctx.obs[-1].detail + " | divisor: " + str(d)[:160]).strip(" |")


# ---------------------------------------------------------------------------
# frame: results are fresh, no state shared between calls
# ---------------------------------------------------------------------------
def _arrays_of(res):
    out = []
    if isinstance(res, (tuple, list)):
        for r in res:
            out.extend(_arrays_of(r))
    elif hasattr(res, "values") and hasattr(res, "index"):
        out.append(np.asarray(res.values))
    elif isinstance(res, np.ndarray):
        out.append(res)
    return out


def two_call_aliasing(code, symbols, domain, rng):
    """Native: r1 = f(p1); snapshot; r2 = f(p2).  r1 must be unchanged and share no memory with r2."""
    p1 = _sample(symbols, domain, rng)
    p2 = _sample(symbols, domain, rng)
    r1 = code({s.name: p1[s] for s in symbols})
    a1 = _arrays_of(r1)
    snap = [a.copy() for a in a1]
    r2 = code({s.name: p2[s] for s in symbols})
    a2 = _arrays_of(r2)
    changed = any(not np.array_equal(a, b, equal_nan=True) for a, b in zip(a1, snap))
    shared = any(np.shares_memory(a, b) for a in a1 for b in a2 if a.size and b.size)
    return dict(reproduced=bool(changed or shared), first_result_changed_by_second_call=bool(changed),
                results_share_memory=bool(shared),
                inputs=[{s.name: p1[s] for s in symbols}, {s.name: p2[s] for s in symbols}])


def freshness(ctx, name, symbols, code, domain):
    """Frame obligation (run-time part): two consecutive calls return independent objects."""
    try:
        r = two_call_aliasing(code, symbols, domain, ctx.rng)
    except Exception as exc:
        return
    ctx.ob(name + ".frame.result_independent_of_later_calls", "f", not r["reproduced"], "native two-call aliasing test", 0.0,
           "first result unchanged by a second call, no shared memory", cex=r if r["reproduced"] else None,
           native=r if r["reproduced"] else None)


def freshness_failure(ctx, name, symbols, code, domain, exc):
    """The symbolic run could not store a symbol into an array it did not allocate during the call
    (a float array that pre-exists the call: module / class level state or a caller's argument).
    That is a frame violation iff it shows natively as aliasing between calls."""
    msg = repr(exc)
    if not isinstance(exc, Concretization) and "RSym" not in msg and "real number" not in msg and "float" not in msg:
        return False
    shared = _shared_array_in_traceback(exc)
    try:
        r = two_call_aliasing(code, symbols, domain, ctx.rng)
    except Exception:
        r = dict(reproduced=False)
    if not r["reproduced"] and shared is None:
        return False
    where = (" -- the array is the module/class level object %s" % shared) if shared else ""
    ctx.add(Ob(name + ".frame.writes_only_arrays_allocated_in_the_call", "f", "failed", "symbolic-execution(frame)", 0.0,
               "the function writes into an array that pre-exists the call (%s)%s; natively the first result is %s by a second call"
               % (msg[:120], where, ("changed" if r.get("first_result_changed_by_second_call") else "aliased") if r["reproduced"] else "not visibly affected"),
               cex=dict(shared_object=shared, two_call_test=r), native=r))
    return True


def _shared_array_in_traceback(exc):
    """If the failing store targeted an ndarray that is reachable from a pyins module global or class
    attribute, return its qualified name (a definite write to state that outlives the call)."""
    import sys
    shared = {}
    for mname, mod in list(sys.modules.items()):
        if not mname.startswith("pyins") or mod is None:
            continue
        for k, v in list(vars(mod).items()):
            if isinstance(v, np.ndarray):
                shared[id(v)] = "%s.%s" % (mname, k)
            elif isinstance(v, type) and getattr(v, "__module__", "").startswith("pyins"):
                for ck, cv in list(vars(v).items()):
                    if isinstance(cv, np.ndarray):
                        shared[id(cv)] = "%s.%s.%s" % (mname, k, ck)
    tb = exc.__traceback__
    while tb is not None:
        fr = tb.tb_frame
        if "pyins" in fr.f_code.co_filename:
            for v in fr.f_locals.values():
                if isinstance(v, np.ndarray):
                    base = v
                    while isinstance(base, np.ndarray):
                        if id(base) in shared:
                            return shared[id(base)]
                        base = base.base
        tb = tb.tb_next
    return None
