"""Obligations, verdict aggregation, evidence / replay files, exit codes.

Exit codes (DESIGN 2.6): 0 held, 1 violation (VIOLATION line), 2 undecided,
3 checker error.  `unknown`, time-outs and tracebacks are never mapped to 1.
"""
from __future__ import annotations

import importlib
import json
import os
import random
import sys
import time
import traceback

from . import VERIF_ROOT

EVIDENCE_DIR = os.environ.get("VERIF_EVIDENCE_DIR") or os.path.join(VERIF_ROOT, "evidence")
REPLAY_DIR = os.environ.get("VERIF_REPLAY_DIR") or os.path.join(VERIF_ROOT, "replays")
KNOWN_FILE = os.path.join(VERIF_ROOT, "KNOWN_FINDINGS.txt")

GLOBAL_ASSUMPTIONS = [
    "A1 machine arithmetic treated as mathematical: float64 -> R, ints -> Z, decimal literals = the rationals they spell (except in the trace domain, where no arithmetic law is used)",
    "A2 numpy/pandas structural operations are executed (object dtype), not modelled; assumed: the float64 path of an operation computes elementwise what its object path computes",
    "A3 transcendental functions are sympy's",
    "A4 numba compiles py_func faithfully and deterministically",
    "A5 WGS-84 constants are symbols during proofs (A>0, 0<E2<1, RATE,GE,GP>0); module values checked at run time",
    "A6 no exceptions other than those raised explicitly by the code under verification or a violated stub precondition; no threads; no aliasing between distinct arguments",
]


class Ob:
    """One named obligation and its verdict."""

    def __init__(self, name, kind, status, backend="", time_s=0.0, detail="",
                 cex=None, native=None, bounded=False):
        self.name = name
        self.kind = kind            # a..f, T, lemma, guard, standin
        self.status = status        # proved | failed | undecided | error
        self.backend = backend
        self.time_s = float(time_s)
        self.detail = detail
        self.cex = cex              # counterexample (json-able) or None
        self.native = native        # dict: result of replaying cex on the real code
        self.bounded = bounded      # True for bounded stand-ins (never counted as proved)

    def to_json(self):
        d = dict(name=self.name, kind=self.kind, status=self.status, backend=self.backend,
                 time_s=round(self.time_s, 4))
        if self.detail:
            d["detail"] = self.detail[:2000]
        if self.cex is not None:
            d["counterexample"] = self.cex
        if self.native is not None:
            d["native_replay"] = self.native
        if self.bounded:
            d["bounded"] = True
        return d


class SectionTimeout(BaseException):
    """raised by the watchdog (BaseException: code under test that catches Exception does not swallow it)"""

    def __init__(self, token, label):
        BaseException.__init__(self, label)
        self.token, self.label = token, label


_DEADLINES = []          # stack of (deadline, token, label): the timer is armed for the nearest one


def _rearm():
    import signal
    if not _DEADLINES:
        signal.setitimer(signal.ITIMER_REAL, 0)
        return
    d = min(x[0] for x in _DEADLINES)
    signal.setitimer(signal.ITIMER_REAL, max(d - time.time(), 0.01))


def _on_alarm(signum, frame):
    now = time.time()
    due = [x for x in _DEADLINES if x[0] <= now + 0.005]
    if not due:
        _rearm()
        return
    d = due[0]                      # the outermost expired level: everything inside it is abandoned
    raise SectionTimeout(d[1], d[2])


class watchdog:
    """with watchdog(seconds, label) as w: ...   -- nestable; on expiry SectionTimeout(token) is raised in the main thread;
    catch it and compare `exc.token is w.token` (a foreign one is re-raised).  A check never hangs: what is not finished in
    its budget is recorded as undecided."""

    def __init__(self, seconds, label):
        self.seconds, self.label, self.token = float(seconds), label, object()
        self.armed = False

    def __enter__(self):
        import signal
        import threading
        if threading.current_thread() is not threading.main_thread():
            return self
        try:
            if not _DEADLINES:
                signal.signal(signal.SIGALRM, _on_alarm)
            _DEADLINES.append((time.time() + self.seconds, self.token, self.label))
            self.armed = True
            _rearm()
        except (ValueError, AttributeError):
            pass
        return self

    def __exit__(self, *exc):
        if self.armed:
            for i, x in enumerate(_DEADLINES):
                if x[1] is self.token:
                    del _DEADLINES[i:]
                    break
            try:
                _rearm()
            except (ValueError, AttributeError):
                pass
        return False


def section_budget(tier):
    return float(os.environ.get("VERIF_SECTION_BUDGET", "300" if tier == "quick" else "1500"))


class Ctx:
    """Collector handed to a property module's `run(ctx)`."""

    def __init__(self, prop, tier, seed, module_name):
        self.prop = prop
        self.tier = tier
        self.seed = seed
        self.module_name = module_name
        self.rng = random.Random(seed)
        self.obs = []
        self.functions = []
        self.assumptions = []
        self.trusted = []
        self.standins = []
        self.crosscheck_points = 0
        self.claim_times = []
        self.paths = 0
        self.vacuity = []
        self.samples = []
        self.notes = []
        self.t0 = time.time()

    # -- bookkeeping ---------------------------------------------------------
    def under_contract(self, *qualnames):
        for q in qualnames:
            if q not in self.functions:
                self.functions.append(q)

    def assume(self, *texts):
        for t in texts:
            if t not in self.assumptions:
                self.assumptions.append(t)

    def trust(self, *texts):
        for t in texts:
            if t not in self.trusted:
                self.trusted.append(t)

    def add(self, ob):
        self.obs.append(ob)
        if os.environ.get("VERIF_VERBOSE"):
            print("  [%7.2fs] %-9s %-55s %s %.2fs %s" % (time.time() - self.t0, ob.status, ob.name, ob.backend, ob.time_s, ob.detail[:80] if ob.status != "proved" else ""), flush=True)
        if len(self.samples) < 6 and ob.status == "proved" and not ob.bounded:
            self.samples.append(dict(obligation=ob.name, kind=ob.kind, backend=ob.backend,
                                     detail=ob.detail[:300]))
        return ob

    def guard(self, fn, *a, **k):
        """Run one section of a check; an engine failure inside it is recorded (CHECKER-ERROR, exit 3 unless a violation is
        found elsewhere) and the remaining sections still run, so one construct the engine cannot execute does not hide
        the obligations that can still be decided."""
        from .sym import explore, current_path
        sect = getattr(fn, "__name__", "section").lstrip("_")
        if current_path() is not None:
            return fn(*a, **k)                  # already inside an explored path
        start = len(self.obs)
        budget = section_budget(self.tier)
        wd = watchdog(budget, sect)
        try:
            # a section that does not fork runs exactly once; if the code under test branches on a symbolic value outside
            # any claim-level exploration, the whole section is re-run on every path and obligations of the same name
            # are merged: the worst verdict wins (proved only if proved on every path)
            with wd:
                runs = explore(lambda: fn(*a, **k), max_paths=16, on_budget="stop")
        except SectionTimeout as exc:
            if exc.token is not wd.token:
                raise
            # the changed code leads the engine into a computation it does not finish (e.g. a dense symbolic solve): the
            # section is left undecided (exit 2), the check goes on -- a check never hangs
            self.add(Ob("%s.budget.%s" % (self.prop, sect), "guard", "undecided", "watchdog", budget,
                        "section not finished within %.0f s (VERIF_SECTION_BUDGET); obligations it would have generated are undecided" % budget))
            return None
        except Exception:
            tb = traceback.format_exc()
            self.add(Ob("%s.engine.%s" % (self.prop, sect), "guard", "error", "python", 0.0, tb[-1500:]))
            return None
        if len(runs) > 1:
            rank = dict(proved=0, undecided=1, error=2, failed=3)
            merged, order = {}, []
            for o in self.obs[start:]:
                cur = merged.get(o.name)
                if cur is None:
                    merged[o.name] = o
                    order.append(o.name)
                elif rank.get(o.status, 1) > rank.get(cur.status, 1):
                    merged[o.name] = o
            del self.obs[start:]
            for nm in order:
                o = merged[nm]
                o.detail = (o.detail + " [section explored on %d paths]" % len(runs))[:1200]
                self.obs.append(o)
            if getattr(runs, "truncated", False):
                self.add(Ob("%s.paths_exhausted.%s" % (self.prop, sect), "guard", "undecided", "path-enumeration", 0.0,
                            "the code under test branches on data: %d paths run, path budget exhausted" % len(runs)))
        return runs[0][1] if runs else None

    def ob(self, name, kind, ok, backend="", time_s=0.0, detail="", cex=None, native=None):
        """Record an obligation decided by the caller: ok True/False/None(undecided)."""
        if ok is not None:
            ok = bool(ok)
        status = "proved" if ok is True else ("failed" if ok is False else "undecided")
        return self.add(Ob(name, kind, status, backend, time_s, detail, cex, native))

    def from_verdict(self, name, kind, v, native_fn=None):
        """Record a pvx.field.Verdict.  `native_fn(point)` replays a refutation on the
        real code and returns dict(reproduced=bool, ...)."""
        if v.status == "proved":
            return self.add(Ob(name, kind, "proved", v.backend, v.time_s, v.detail, bounded=bool(getattr(v, "bounded", False))))
        if v.status == "refuted":
            native = None
            if native_fn is not None and v.point is not None:
                try:
                    native = native_fn({k: float(_frac(val)) for k, val in v.point.items()})
                except Exception as exc:  # replay harness problem: keep the verifier's verdict
                    native = dict(reproduced=None, error=repr(exc))
            return self.add(Ob(name, kind, "failed", v.backend, v.time_s, v.detail,
                               cex=dict(point=v.point, value=v.value), native=native))
        return self.add(Ob(name, kind, "undecided", v.backend, v.time_s, v.detail))

    def standin(self, name, bound, evaluations, failures, detail="", cex=None, native=None, time_s=0.0):
        """Bounded stand-in (run-time contract on the real function).  Never counted as proved."""
        self.standins.append(dict(name=name, bound=bound, evaluations=evaluations,
                                  failures=len(failures) if hasattr(failures, "__len__") else int(failures)))
        nf = len(failures) if hasattr(failures, "__len__") else int(failures)
        if nf and not detail and hasattr(failures, "__getitem__"):
            try:
                detail = "%d of %s evaluations fail; first: %s" % (nf, evaluations, json.dumps(failures[0], default=str)[:400])
            except Exception:
                detail = "%d evaluations fail" % nf
        ob = Ob(name, "standin", "proved" if nf == 0 else "failed", "runtime-contract(CPython)",
                time_s, detail, cex=cex if cex is not None else (failures[0] if nf and hasattr(failures, "__getitem__") else None),
                native=native if native is not None else (dict(reproduced=True) if nf else None), bounded=True)
        return self.add(ob)


def _kmatch(pattern, name):
    """known-finding obligation patterns: literal, with `*` as the only wildcard."""
    import re
    return re.fullmatch(".*".join(re.escape(x) for x in (pattern or "").split("*")), name) is not None


def _frac(s):
    from fractions import Fraction
    return Fraction(str(s))


# ---------------------------------------------------------------------------
# known findings
# ---------------------------------------------------------------------------
def load_known():
    """Lines:  known: property=<id> obligation=<name> <what fails>
               fixed: property=<id> <commit> <what failed>      (suppresses nothing)"""
    known = []
    if os.path.exists(KNOWN_FILE):
        for line in open(KNOWN_FILE):
            line = line.strip()
            if not line or line.startswith("#"):
                continue
            if line.startswith("known:"):
                fields = dict(tok.split("=", 1) for tok in line[6:].split() if "=" in tok)
                rest = " ".join(tok for tok in line[6:].split() if not (tok.startswith("property=") or tok.startswith("obligation=")))
                known.append(dict(property=fields.get("property"), obligation=fields.get("obligation"), what=rest))
    return known


# ---------------------------------------------------------------------------
# driver
# ---------------------------------------------------------------------------
def write_replay(prop, ob, module_name):
    d = os.path.join(REPLAY_DIR, prop)
    os.makedirs(d, exist_ok=True)
    path = os.path.join(d, ob.name.replace("/", "_").replace(" ", "_") + ".json")
    with open(path, "w") as f:
        json.dump(dict(property=prop, obligation=ob.name, kind=ob.kind, module=module_name,
                       verifier=dict(backend=ob.backend, output=ob.detail),
                       counterexample=ob.cex, native_replay=ob.native,
                       how_to_replay="./check replay %s" % path), f, indent=1, default=str)
    return path


def finish(ctx, level, level_note="", checker_cmd=None):
    """Aggregate, write evidence, print verdict lines, return exit code."""
    known = [k for k in load_known() if k["property"] == ctx.prop]
    wall = time.time() - ctx.t0
    # precision contract: no floating allocation narrower than float64 while the code under contract ran symbolically
    try:
        from .npproxy import NARROW_DTYPES
        if NARROW_DTYPES:
            ctx.add(Ob(ctx.prop + ".precision.float64_intermediates", "c", "failed", "symbolic-execution(allocation log)", 0.0,
                       "the code under contract stores intermediate results in a floating type narrower than float64: %s -- the values it returns carry "
                       "~1e-7 relative error, outside every tolerance of this property (the proofs treat floats as reals; the float64 link is what the "
                       "cross-checks cover)" % ", ".join("%s (%s)" % x for x in NARROW_DTYPES[:6]),
                       cex=dict(allocations=[list(x) for x in NARROW_DTYPES[:12]])))
    except Exception:
        pass
    # vacuity guard: every obligation family recorded for this property on the unchanged tree (required_obligations.json,
    # generated by tools/gen_required.py, committed) must be present again -- a check that loses obligations must not pass
    try:
        import re as _re
        req_file = os.path.join(os.path.dirname(os.path.dirname(os.path.abspath(__file__))), "required_obligations.json")
        required = json.load(open(req_file)).get(ctx.prop, []) if os.path.exists(req_file) else []

        def _fam(n):
            n = _re.sub(r"\[[^\]]*\]", "", n)
            n = _re.sub(r"\.(path|n|o)\d+\b", "", n)
            return _re.sub(r"\.\d+\b", "", n)
        present = {_fam(o.name) for o in ctx.obs}
        engine_errors = any(o.status == "error" or ".budget." in o.name for o in ctx.obs)
        missing = [r_ for r_ in required if r_ not in present]
        if missing and not engine_errors:
            ctx.add(Ob(ctx.prop + ".guard.required_obligations", "guard", "error", "vacuity-guard", 0.0,
                       "%d obligation families of this property produced no obligation on this run (and no engine error explains it): %s" % (len(missing), missing[:8])))
    except Exception as exc:
        ctx.add(Ob(ctx.prop + ".guard.required_obligations", "guard", "error", "vacuity-guard", 0.0, "guard itself failed: %r" % (exc,)))
    proof_obs = [o for o in ctx.obs if not o.bounded]
    n_ob = len(proof_obs)
    n_dis = sum(1 for o in proof_obs if o.status == "proved")
    failed = [o for o in ctx.obs if o.status == "failed"]
    undec = [o for o in ctx.obs if o.status == "undecided"]
    errors = [o for o in ctx.obs if o.status == "error"]

    lines = []
    violations = 0
    solid = 0
    matched = []
    for o in failed:
        k = next((k for k in known if _kmatch(k["obligation"], o.name)), None)
        if k is not None:
            matched.append(o.name)
            lines.append("KNOWN-FINDING: property=%s %s (%s)" % (ctx.prop, o.name, k["what"]))
            continue
        path = write_replay(ctx.prop, o, ctx.module_name)
        reproduced = bool(o.native and o.native.get("reproduced"))
        violations += 1
        solid += 1 if reproduced else 0
        lines.append("VIOLATION property=%s replay=%s%s" % (
            ctx.prop, path, "" if reproduced else " no-failing-input-found"))
        lines.append("  obligation %s [%s] failed (%s): %s" % (o.name, o.kind, o.backend, o.detail[:300]))
    for o in undec:
        lines.append("UNDECIDED property=%s obligation=%s (%s): %s" % (ctx.prop, o.name, o.backend, o.detail[:300]))
    for o in errors:
        lines.append("CHECKER-ERROR property=%s obligation=%s: %s" % (ctx.prop, o.name, o.detail[:500]))

    if n_ob == 0:
        lines.append("CHECKER-ERROR property=%s: zero obligations generated (vacuous run)" % ctx.prop)
        code = 3
    elif violations:
        code = 1          # a failed obligation stands even if the engine tripped afterwards (errors are listed too)
    elif errors:
        code = 3
    elif undec:
        code = 2
    else:
        code = 0

    # a known finding that no longer fails is reported (not an error): the file may be stale
    for k in known:
        if not any(_kmatch(k["obligation"], o.name) for o in failed):
            lines.append("NOTE: known finding %s did not fail on this run" % k["obligation"])

    backends = {}
    for o in ctx.obs:
        b = backends.setdefault(o.backend or "-", dict(obligations=0, time_s=0.0))
        b["obligations"] += 1
        b["time_s"] = round(b["time_s"] + o.time_s, 4)
    # assumption scan: dependency contracts (stubs) actually exercised on this run
    try:
        from . import deps as _deps
        used = sorted(_deps.USED)
    except Exception:
        used = []
    assumptions = list(GLOBAL_ASSUMPTIONS) + ctx.assumptions + ["dependency contract exercised on this run: " + u for u in used]
    try:
        from . import zdomain as _zd
        second = dict(_zd.SECOND, time_s=round(_zd.SECOND["time_s"], 2))
    except Exception:
        second = None
    ev = dict(
        property_id=ctx.prop, tier=ctx.tier, seed=ctx.seed, level=level,
        coverage=dict(
            obligations=n_ob - len([m for m in matched if not next(o for o in ctx.obs if o.name == m).bounded]),
            obligations_total_including_known_findings=n_ob, discharged=n_dis,
            checker_cmd=checker_cmd or ("./check %s --tier %s" % (ctx.prop, ctx.tier)),
            trusted_base=ctx.trusted,
            explanation=level_note,
            functions_under_contract=ctx.functions,
            backends=backends,
            solver_time_s=round(sum(o.time_s for o in ctx.obs), 3),
            second_solver_cvc5=second,
            slowest_claims=[dict(claim=n_, seconds=t_) for t_, n_ in sorted(ctx.claim_times, reverse=True)[:3]],
            watchdog_budgets_s=dict(section=section_budget(ctx.tier), claim=0.5 * section_budget(ctx.tier)),
            contracts_reattached_by_role=dict(getattr(__import__("pvx.loader", fromlist=["_cache"])._cache.get("py"), "reattached", {}) or {}),
            paths=ctx.paths,
            crosscheck_points=ctx.crosscheck_points,
            vacuity_witnesses=ctx.vacuity,
            bounded_standins=ctx.standins,
            known_findings_matched=matched,
            undecided=[o.name for o in undec],
            failed=[o.name for o in failed],
            samples=ctx.samples or [o.to_json() for o in ctx.obs[:3]],
            obligation_list=[o.to_json() for o in ctx.obs],
            notes=ctx.notes,
        ),
        assumptions=assumptions,
        wall_s=round(wall, 3),
        violations=violations,
    )
    os.makedirs(EVIDENCE_DIR, exist_ok=True)
    with open(os.path.join(EVIDENCE_DIR, ctx.prop + ".json"), "w") as f:
        json.dump(ev, f, indent=1, default=str)
    for ln in lines:
        print(ln)
    print("%s: %d obligations, %d discharged, %d failed (%d known), %d undecided, %d stand-ins, %.1fs -> exit %d"
          % (ctx.prop, n_ob, n_dis, len(failed), len(matched), len(undec), len(ctx.standins), wall, code))
    sys.stdout.flush()
    return code


def run_property(prop, tier="quick", seed=None):
    seed = int(os.environ.get("VERIF_SEED", "0")) if seed is None else seed
    module_name = "props." + prop
    ctx = Ctx(prop, tier, seed, module_name)
    try:
        from . import field as _field
        _field.N_POINTS = 3 if tier == "quick" else 12      # numeric refuter points evaluated before every normal-form proof
        from . import zdomain as _zd
        _zd.SECOND["enabled"] = (tier != "quick") and os.path.exists(_zd.CVC5)   # thorough: every z3 'unsat' re-run through cvc5
    except Exception:
        pass
    try:
        mod = importlib.import_module(module_name)
    except Exception:
        print("CHECKER-ERROR property=%s: cannot import %s\n%s" % (prop, module_name, traceback.format_exc()))
        return 3
    total = float(os.environ.get("VERIF_TOTAL_BUDGET", "1500" if tier == "quick" else "5400"))
    wd = watchdog(total, "whole check")
    try:
        with wd:
            mod.run(ctx)
    except SectionTimeout as exc:
        ctx.add(Ob(prop + ".budget.total", "guard", "undecided", "watchdog", total,
                   "check not finished within %.0f s (VERIF_TOTAL_BUDGET; stopped in: %s); the obligations not generated are undecided" % (total, exc.label)))
    except Exception:
        tb = traceback.format_exc()
        ctx.add(Ob(prop + ".engine", "guard", "error", "python", 0.0, tb[-1500:]))
    return finish(ctx, getattr(mod, "LEVEL", "proof"), getattr(mod, "LEVEL_NOTE", ""))


def replay_file(path):
    """Re-decide one recorded obligation on the CURRENT tree: the whole check of its property is re-run (quick tier, same seed)
    and the obligation is looked up by name; exit 1 iff it fails again (its native replay, where it has one, is shown)."""
    d = json.load(open(path))
    prop = d["property"]
    name = d["obligation"]
    mod = importlib.import_module(d["module"])
    ctx = Ctx(prop, "quick", int(os.environ.get("VERIF_SEED", "0")), d["module"])
    try:
        from . import field as _field
        _field.N_POINTS = 3
    except Exception:
        pass
    try:
        mod.run(ctx)
    except Exception:
        ctx.add(Ob(prop + ".engine", "guard", "error", "python", 0.0, traceback.format_exc()[-800:]))
    o = next((o for o in ctx.obs if o.name == name), None)
    if o is None:
        import re as _re
        fam = _re.sub(r"\.path\d+", "", name)
        o = next((o for o in ctx.obs if _re.sub(r"\.path\d+", "", o.name) == fam), None)
    res = dict(obligation=name, property=prop,
               status_on_this_tree=(o.status if o is not None else "not generated on this tree"),
               reproduced=bool(o is not None and o.status == "failed"),
               verifier_detail=(o.detail[:600] if o is not None else None),
               counterexample=(o.cex if o is not None else None),
               native_replay=(o.native if o is not None else None),
               recorded=dict(counterexample=d.get("counterexample"), native_replay=d.get("native_replay")))
    print(json.dumps(res, indent=1, default=str))
    return 1 if res["reproduced"] else 0
