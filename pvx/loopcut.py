"""AST loop cutting (DESIGN 2.4): the real `while` of a function is rewritten, on every run, into

    <statements before the loop>
    __pvx.head('init', locals())                 # assert Inv
    __h = __pvx.havoc(locals())                  # havoc every name assigned in the loop (+ ghost state)
    <name> = __h[<name>] ...                     # assume Inv (inside havoc)
    if <the real loop test>:
        for __once in (0,):                      # so that `continue` ends the iteration
            <the real loop body, unmodified nodes; top-level `break` -> raise __pvx.Break>
        __pvx.head('preserved', locals())        # assert Inv and variant
        raise __pvx.Stop
    __pvx.head('exit', locals())                 # assert exit postcondition
    <the real statements after the loop>

Nothing of the body is dropped.  The result is compiled and executed in a copy of
the module namespace in which contracted callees are replaced by stubs.
"""
from __future__ import annotations

import ast
import inspect
import textwrap


class Break(Exception):
    pass


class _BreakRewriter(ast.NodeTransformer):
    """`break` that belongs to the cut loop (not to an inner loop) -> raise __pvx.Break"""

    def __init__(self):
        self.depth = 0

    def visit_For(self, node):
        self.depth += 1
        self.generic_visit(node)
        self.depth -= 1
        return node

    visit_While = visit_For

    def visit_Break(self, node):
        if self.depth == 0:
            return ast.copy_location(ast.Raise(exc=ast.Attribute(value=ast.Name(id="__pvx", ctx=ast.Load()), attr="Break", ctx=ast.Load()), cause=None), node)
        return node

    def visit_FunctionDef(self, node):
        return node


def _call(attr, *args):
    return ast.Call(func=ast.Attribute(value=ast.Name(id="__pvx", ctx=ast.Load()), attr=attr, ctx=ast.Load()),
                    args=list(args), keywords=[])


def _locals():
    return ast.Call(func=ast.Name(id="locals", ctx=ast.Load()), args=[], keywords=[])


def cut(func, loop_ordinal=0):
    """Return (code object, info) for the cut version of `func` (its top-level while loop #ordinal)."""
    src = textwrap.dedent(inspect.getsource(func))
    tree = ast.parse(src)
    fn = tree.body[0]
    whiles = [i for i, s in enumerate(fn.body) if isinstance(s, ast.While)]
    if len(whiles) <= loop_ordinal:
        raise ValueError("function %s has no top-level while loop #%d" % (func.__name__, loop_ordinal))
    idx = whiles[loop_ordinal]
    loop = fn.body[idx]
    if loop.orelse:
        raise ValueError("while/else is outside the supported subset")
    pre, post = fn.body[:idx], fn.body[idx + 1:]
    assigned = sorted({n.id for n in ast.walk(loop) if isinstance(n, ast.Name) and isinstance(n.ctx, ast.Store)})
    has_continue = any(isinstance(n, ast.Continue) for n in ast.walk(loop))
    body = [_BreakRewriter().visit(s) for s in loop.body]
    new = list(pre)
    new.append(ast.Expr(_call("head", ast.Constant("init"), _locals())))
    new.append(ast.Assign(targets=[ast.Name(id="__h", ctx=ast.Store())], value=_call("havoc", _locals()), lineno=loop.lineno))
    for n in assigned:
        new.append(ast.If(test=ast.Compare(left=ast.Constant(n), ops=[ast.In()], comparators=[ast.Name(id="__h", ctx=ast.Load())]),
                          body=[ast.Assign(targets=[ast.Name(id=n, ctx=ast.Store())],
                                           value=ast.Subscript(value=ast.Name(id="__h", ctx=ast.Load()), slice=ast.Constant(n), ctx=ast.Load()),
                                           lineno=loop.lineno)], orelse=[]))
    once = ast.For(target=ast.Name(id="__once", ctx=ast.Store()), iter=ast.Tuple(elts=[ast.Constant(0)], ctx=ast.Load()),
                   body=body, orelse=[], lineno=loop.lineno)
    new.append(ast.If(test=loop.test,
                      body=[once, ast.Expr(_call("head", ast.Constant("preserved"), _locals())),
                            ast.Raise(exc=ast.Attribute(value=ast.Name(id="__pvx", ctx=ast.Load()), attr="Stop", ctx=ast.Load()), cause=None)],
                      orelse=[]))
    new.append(ast.Expr(_call("head", ast.Constant("exit"), _locals())))
    new.extend(post)
    fn.body = new
    fn.decorator_list = []
    mod = ast.Module(body=[fn], type_ignores=[])
    ast.fix_missing_locations(mod)
    code = compile(mod, "<cut:%s>" % func.__qualname__, "exec")
    info = dict(assigned=assigned, loop_test=ast.unparse(loop.test), has_continue=has_continue,
                n_body_statements=len(loop.body), loop_line=loop.lineno,
                dropped="nothing: every statement of the function is in the cut version; the loop back-edge is replaced by the invariant")
    return code, info


def instantiate(func, code, namespace):
    """exec the cut function definition in `namespace` (a dict) and return the function object."""
    import types
    ns = dict(namespace)
    # helper functions of the same module (whatever their names) must see the same stubbed globals as the cut function:
    # every plain function defined in func's module that the caller did not override is re-bound to `ns`
    home = getattr(func, "__globals__", None)
    if home is not None:
        for k, v in list(ns.items()):
            if isinstance(v, types.FunctionType) and v.__globals__ is home and home.get(k) is v:
                ns[k] = types.FunctionType(v.__code__, ns, v.__name__, v.__defaults__, v.__closure__)
                ns[k].__kwdefaults__ = v.__kwdefaults__
    exec(code, ns)
    return ns[func.__name__], ns
