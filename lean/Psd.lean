/-
  Positive-semidefiniteness lemmas behind C07 / C08 / C11 (were "assumed theorems" in DESIGN section 4).

  The checks on the REAL code establish syntactic facts about what kalman.correct / compute_process_matrices return:
  "the covariance is the sum of congruences X P Xᵀ + Y R Yᵀ" (C07.cov.sum_of_congruences), "cholesky is called on
  S = H P Hᵀ + R" (C07.cholesky.precondition), "P minus the result is W S⁻¹ Wᵀ" (C07.cov.never_larger).  That such
  expressions ARE symmetric positive semidefinite / definite, for all dimensions, is proved here (Mathlib only).
-/
import Mathlib.LinearAlgebra.Matrix.PosDef

open Matrix

namespace Pvx

set_option linter.unusedSectionVars false

variable {n m : Type*} [Fintype n] [Fintype m] [DecidableEq n] [DecidableEq m]

/-- congruence of a PSD matrix is PSD:  X P Xᵀ -/
theorem congr_psd (P : Matrix n n ℝ) (X : Matrix m n ℝ) (hP : P.PosSemidef) :
    (X * P * Xᵀ).PosSemidef := by
  have h := hP.mul_mul_conjTranspose_same X
  simpa [conjTranspose_eq_transpose_of_trivial] using h

/-- sums of PSD matrices are PSD -/
theorem sum_psd (A B : Matrix n n ℝ) (hA : A.PosSemidef) (hB : B.PosSemidef) : (A + B).PosSemidef :=
  hA.add hB

/-- Cholesky precondition of kalman.correct: S = H P Hᵀ + R is positive definite for PSD P and PD R -/
theorem innovation_cov_pd (P : Matrix n n ℝ) (H : Matrix m n ℝ) (R : Matrix m m ℝ)
    (hP : P.PosSemidef) (hR : R.PosDef) : (H * P * Hᵀ + R).PosDef :=
  PosDef.posSemidef_add (congr_psd P H hP) hR

/-- a PD matrix is symmetric (what `cholesky(S, lower=True)` additionally requires) -/
theorem pd_symmetric (S : Matrix m m ℝ) (hS : S.PosDef) : Sᵀ = S := by
  have h := hS.isHermitian
  simpa [IsHermitian, conjTranspose_eq_transpose_of_trivial] using h

/-- the Joseph form (I - K H) P (I - K H)ᵀ + K R Kᵀ is PSD for EVERY gain K -/
theorem joseph_psd (P : Matrix n n ℝ) (R : Matrix m m ℝ) (K : Matrix n m ℝ) (H : Matrix m n ℝ)
    (hP : P.PosSemidef) (hR : R.PosSemidef) :
    ((1 - K * H) * P * (1 - K * H)ᵀ + K * R * Kᵀ).PosSemidef :=
  (congr_psd P (1 - K * H) hP).add (congr_psd R K hR)

/-- the Joseph form is symmetric -/
theorem joseph_symmetric (P : Matrix n n ℝ) (R : Matrix m m ℝ) (K : Matrix n m ℝ) (H : Matrix m n ℝ)
    (hP : P.PosSemidef) (hR : R.PosSemidef) :
    ((1 - K * H) * P * (1 - K * H)ᵀ + K * R * Kᵀ)ᵀ = (1 - K * H) * P * (1 - K * H)ᵀ + K * R * Kᵀ := by
  have h := (joseph_psd P R K H hP hR).isHermitian
  simpa [IsHermitian, conjTranspose_eq_transpose_of_trivial] using h

/-- "never larger than the prior": P - (P - W S⁻¹ Wᵀ) is PSD for PD S (W = P Hᵀ) -/
theorem never_larger (P : Matrix n n ℝ) (W : Matrix n m ℝ) (S : Matrix m m ℝ) (hS : S.PosDef) :
    (P - (P - W * S⁻¹ * Wᵀ)).PosSemidef := by
  rw [sub_sub_cancel]
  exact congr_psd S⁻¹ W hS.inv.posSemidef

/-- discrete noise of one Van Loan step composed over sub-steps: Φ Qd₁ Φᵀ + Qd₂ stays PSD -/
theorem composed_noise_psd (Q1 Q2 : Matrix n n ℝ) (Phi : Matrix n n ℝ)
    (h1 : Q1.PosSemidef) (h2 : Q2.PosSemidef) : (Phi * Q1 * Phiᵀ + Q2).PosSemidef :=
  (congr_psd Q1 Phi h1).add h2

/-- time update keeps PSD: Φ P Φᵀ + Qd -/
theorem predict_psd (P Qd Phi : Matrix n n ℝ) (hP : P.PosSemidef) (hQ : Qd.PosSemidef) :
    (Phi * P * Phiᵀ + Qd).PosSemidef :=
  (congr_psd P Phi hP).add hQ

/-- order independence of independent measurement blocks: the information form is additive, and addition commutes -/
theorem information_additive (Pinv I1 I2 : Matrix n n ℝ) : Pinv + I1 + I2 = Pinv + I2 + I1 :=
  add_right_comm Pinv I1 I2

end Pvx

#print axioms Pvx.congr_psd
#print axioms Pvx.innovation_cov_pd
#print axioms Pvx.joseph_psd
#print axioms Pvx.joseph_symmetric
#print axioms Pvx.never_larger
#print axioms Pvx.predict_psd
#print axioms Pvx.composed_noise_psd
#print axioms Pvx.pd_symmetric
#print axioms Pvx.information_additive
