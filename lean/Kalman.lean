/-
  Second, independent back end for two matrix-word identities that pvx/words.py decides by rewriting on the REAL code
  (C07.cov.joseph_equals_posterior, C08.composition.lemma): the same identities in an arbitrary (non-commutative) ring,
  transposes as separate letters constrained only by the hypotheses named below.  Mathlib only.
-/
import Mathlib.Tactic.NoncommRing
import Mathlib.Algebra.Ring.Basic
import Mathlib.Tactic.Abel

namespace Pvx

/-- Joseph form = short form.  Letters: `Kt = Kᵀ`, `Ht = Hᵀ`; hypotheses: `S = H P Hᵀ + R` (what cholesky is called on) and
    `K S = P Hᵀ` (the gain solves the normal equations: cho_solve contract).  No symmetry, no invertibility needed. -/
theorem joseph_eq_short {A : Type*} [Ring A] (P K H Kt Ht R S : A)
    (hS : S = H * P * Ht + R) (hK : K * S = P * Ht) :
    (1 - K * H) * P * (1 - Ht * Kt) + K * R * Kt = P - K * H * P := by
  have h1 : (1 - K * H) * P * (1 - Ht * Kt) + K * R * Kt
      = P - K * H * P - P * Ht * Kt + K * (H * P * Ht + R) * Kt := by noncomm_ring
  rw [h1, ← hS, hK]
  noncomm_ring

/-- posterior mean in gain form: x + K (z - H x) with K S = P Hᵀ is x + P Hᵀ S⁻¹ (z - H x) when `Sinv` inverts `S` -/
theorem gain_is_PHtSinv {A : Type*} [Ring A] (P K Ht S Sinv : A)
    (hK : K * S = P * Ht) (hinv : S * Sinv = 1) : K = P * Ht * Sinv := by
  calc K = K * (S * Sinv) := by rw [hinv, mul_one]
    _ = (K * S) * Sinv := by rw [mul_assoc]
    _ = P * Ht * Sinv := by rw [hK]

/-- Van Loan composition: with E(s+t) = E(t) E(s) (block upper triangular) and `E22(s) E11(s)ᵀ = 1`, the returned noise
    matrix `E12 E11ᵀ` composes as Qd(s+t) = Φ(t) Qd(s) Φ(t)ᵀ + Qd(t).
    Letters: `a b d` = E11, E12, E22 of each factor, `aT` = E11ᵀ. -/
theorem vanloan_composition {A : Type*} [Ring A] (a_t b_t b_s d_s aT_s aT_t : A)
    (h : d_s * aT_s = 1) :
    (a_t * b_s + b_t * d_s) * (aT_s * aT_t) = a_t * (b_s * aT_s) * aT_t + b_t * aT_t := by
  have h1 : (a_t * b_s + b_t * d_s) * (aT_s * aT_t)
      = a_t * b_s * aT_s * aT_t + b_t * (d_s * aT_s) * aT_t := by noncomm_ring
  rw [h1, h]
  noncomm_ring

/-- time update then measurement update in information form is order independent for two independent blocks
    (the sum of the two information contributions commutes) -/
theorem information_two_blocks {A : Type*} [Ring A] (Pinv I1 I2 : A) : Pinv + I1 + I2 = Pinv + I2 + I1 := by
  abel

/-- Woodbury / information form: with `S = H P Hᵀ + R`, inverses `Pinv, Rinv, Sinv` (one-sided identities as needed),
    `(P⁻¹ + Hᵀ R⁻¹ H) (P - P Hᵀ S⁻¹ H P) = 1`: the covariance returned by `kalman.correct` is the inverse of the information
    matrix of the Bayesian posterior. -/
theorem information_form {A : Type*} [Ring A] (P Pinv H Ht R Rinv S Sinv : A)
    (hS : S = H * P * Ht + R) (hP : Pinv * P = 1) (hR : Rinv * R = 1) (hSi : S * Sinv = 1) :
    (Pinv + Ht * Rinv * H) * (P - P * Ht * Sinv * H * P) = 1 := by
  have hHPHt : H * P * Ht = S - R := by rw [hS]; noncomm_ring
  have e1 : (Pinv + Ht * Rinv * H) * (P - P * Ht * Sinv * H * P)
      = Pinv * P - (Pinv * P) * Ht * Sinv * H * P + Ht * Rinv * H * P
        - Ht * Rinv * (H * P * Ht) * Sinv * H * P := by noncomm_ring
  rw [e1, hP, hHPHt]
  have e2 : Ht * Rinv * (S - R) * Sinv * H * P
      = Ht * Rinv * (S * Sinv) * H * P - Ht * (Rinv * R) * Sinv * H * P := by noncomm_ring
  rw [e2, hSi, hR]
  noncomm_ring

/-- the gain maps into the information form:  (P⁻¹ + Hᵀ R⁻¹ H) P Hᵀ S⁻¹ = Hᵀ R⁻¹ -/
theorem information_times_gain {A : Type*} [Ring A] (P Pinv H Ht R Rinv S Sinv : A)
    (hS : S = H * P * Ht + R) (hP : Pinv * P = 1) (hR : Rinv * R = 1) (hSi : S * Sinv = 1) :
    (Pinv + Ht * Rinv * H) * (P * Ht * Sinv) = Ht * Rinv := by
  have e1 : (Pinv + Ht * Rinv * H) * (P * Ht * Sinv)
      = (Pinv * P) * Ht * Sinv + Ht * Rinv * (H * P * Ht) * Sinv := by noncomm_ring
  have hHPHt : H * P * Ht = S - R := by rw [hS]; noncomm_ring
  rw [e1, hP, hHPHt]
  have e2 : 1 * Ht * Sinv + Ht * Rinv * (S - R) * Sinv
      = Ht * Sinv + Ht * Rinv * (S * Sinv) - Ht * (Rinv * R) * Sinv := by noncomm_ring
  rw [e2, hSi, hR]
  noncomm_ring

/-- One measurement update is the Gauss-Markov (weighted least squares, BLUE) estimate of the linear-Gaussian model: the mean
    `x0 + K (z - H x0)` with `K = P Hᵀ S⁻¹` solves the normal equations
    `(P⁻¹ + Hᵀ R⁻¹ H) x = P⁻¹ x0 + Hᵀ R⁻¹ z`. -/
theorem gain_form_solves_normal_equations {A : Type*} [Ring A] (P Pinv H Ht R Rinv S Sinv x0 z : A)
    (hS : S = H * P * Ht + R) (hP : Pinv * P = 1) (hR : Rinv * R = 1) (hSi : S * Sinv = 1) :
    (Pinv + Ht * Rinv * H) * (x0 + P * Ht * Sinv * (z - H * x0)) = Pinv * x0 + Ht * Rinv * z := by
  have hk := information_times_gain P Pinv H Ht R Rinv S Sinv hS hP hR hSi
  have e1 : (Pinv + Ht * Rinv * H) * (x0 + P * Ht * Sinv * (z - H * x0))
      = (Pinv + Ht * Rinv * H) * x0 + ((Pinv + Ht * Rinv * H) * (P * Ht * Sinv)) * (z - H * x0) := by noncomm_ring
  rw [e1, hk]
  noncomm_ring

end Pvx

#print axioms Pvx.joseph_eq_short
#print axioms Pvx.gain_is_PHtSinv
#print axioms Pvx.vanloan_composition
#print axioms Pvx.information_form
#print axioms Pvx.gain_form_solves_normal_equations
