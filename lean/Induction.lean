/-
  Mechanised induction steps behind the whole-run statements of C02, C09, C10, C11, C12(a).

  The per-iteration obligations (loop.init.*, loop.preserved.*, loop.variant, exit.*, the kernel's "same step map every
  iteration", the slice VCs) are discharged by the checks on the REAL code.  What was a paper argument in DESIGN 10.6 --
  "per-iteration obligations imply the statement about the whole run" -- is proved here once and for all, over an
  abstract state space.  The hypotheses of each theorem are named after the obligations that establish them.
-/
import Mathlib.Data.List.Basic
import Mathlib.Data.List.Nodup
import Mathlib.Order.WellFounded
import Mathlib.Data.Prod.Lex

namespace Pvx

/-- A loop is a partial step function: `none` means the loop test failed (exit). -/
abbrev Loop (S : Type) := S → Option S

/-- `Reach step s t`: `t` is reachable from `s` by finitely many iterations. -/
inductive Reach {S : Type} (step : Loop S) : S → S → Prop
  | refl (s : S) : Reach step s s
  | tail {s t u : S} : Reach step s t → step t = some u → Reach step s u

/-- Loop rule (partial correctness).
    `hinit`  = loop.init.*            (invariant on loop entry)
    `hpres`  = loop.preserved.*       (invariant re-established by every path through the body)
    `hexit`  = exit.*                 (invariant and failed loop test give the post-condition) -/
theorem loop_rule {S : Type} (step : Loop S) (Inv Post : S → Prop) (s0 : S)
    (hinit : Inv s0)
    (hpres : ∀ s s', Inv s → step s = some s' → Inv s')
    (hexit : ∀ s, Inv s → step s = none → Post s) :
    ∀ t, Reach step s0 t → (Inv t ∧ (step t = none → Post t)) := by
  intro t h
  induction h with
  | refl => exact ⟨hinit, hexit _ hinit⟩
  | tail _ hstep ih =>
      have hi := hpres _ _ ih.1 hstep
      exact ⟨hi, hexit _ hi⟩

/-- Termination from a lexicographic variant (loop.variant): the measure `(N - applied, K - processed)` decreases in the
    lexicographic order on ℕ × ℕ at every iteration that does not exit, hence some reachable state exits. -/
theorem terminates {S : Type} (step : Loop S) (μ : S → ℕ ×ₗ ℕ)
    (hvar : ∀ s s', step s = some s' → μ s' < μ s) (s0 : S) :
    ∃ t, Reach step s0 t ∧ step t = none := by
  have wf : WellFounded (fun a b : ℕ ×ₗ ℕ => a < b) := wellFounded_lt
  -- strong induction on the measure
  suffices h : ∀ m : ℕ ×ₗ ℕ, ∀ s, μ s = m → ∃ t, Reach step s t ∧ step t = none from h (μ s0) s0 rfl
  intro m
  induction m using wf.induction with
  | _ m ih =>
    intro s hs
    cases hstep : step s with
    | none => exact ⟨s, Reach.refl s, hstep⟩
    | some s' =>
      have hlt : μ s' < m := hs ▸ hvar s s' hstep
      obtain ⟨t, hr, ht⟩ := ih (μ s') hlt s' rfl
      refine ⟨t, ?_, ht⟩
      -- prepend one step to the reachability proof
      clear ht
      induction hr with
      | refl => exact Reach.tail (Reach.refl s) hstep
      | tail _ h2 ih2 => exact Reach.tail ih2 h2

/-- C02 fold lemma: integrating a table in ANY sequence of consecutive chunks (empty ones included) is integrating it in
    one call.  `F` is the kernel's step map ("same step map every iteration", C01.kernel.frame.*.same_step_map...), the
    Integrator's `integrate(chunk)` is `List.foldl F` from the last stored state (C02.*.integrate.inv, slice VCs). -/
theorem chunking_independent {σ ι : Type} (F : σ → ι → σ) (s : σ) (chunks : List (List ι)) :
    chunks.foldl (fun st c => c.foldl F st) s = (chunks.flatten).foldl F s := by
  induction chunks generalizing s with
  | nil => simp
  | cons c cs ih => simp [List.foldl_append, ih]

/-- C09 / C10 "exactly once": the loop invariant states that the processed stamps are the first `mi` elements of the
    sorted-unique merged array `M` (prologue.M.sorted_unique, loop.measurement.index_advance); then no stamp is
    processed twice, and at exit (every stamp before the end has index < mi: exit.every_stamp_before_end_processed)
    every such stamp has been processed. -/
theorem processed_once {α : Type} [DecidableEq α] (M : List α) (hM : M.Nodup) (mi : ℕ) (x : α) :
    (M.take mi).count x ≤ 1 :=
  List.nodup_iff_count_le_one.mp (hM.sublist (List.take_sublist mi M)) x

theorem processed_all {α : Type} (M : List α) (mi : ℕ) (P : α → Prop)
    (hexit : ∀ k, (h : k < M.length) → P (M.get ⟨k, h⟩) → k < mi) :
    ∀ k, (h : k < M.length) → P (M.get ⟨k, h⟩) → M.get ⟨k, h⟩ ∈ M.take mi := by
  intro k h hp
  have hk : k < mi := hexit k h hp
  have hlen : k < (M.take mi).length := by
    simp [List.length_take]; omega
  have : (M.take mi).get ⟨k, hlen⟩ = M.get ⟨k, h⟩ := by
    simp [List.getElem_take]
  exact this ▸ List.get_mem _ _

/-- C12(a): if the correction branch is unreachable (C12.a.correction_branch_unreachable) every iteration is a plain
    `integrate(batch)` with contiguous batches (loop.batch.contiguous): the whole run is one fold over the table.
    This is `chunking_independent` with the batches the loop selects. -/
theorem transparent_run {σ ι : Type} (F : σ → ι → σ) (s : σ) (batches : List (List ι)) (table : List ι)
    (hcontig : batches.flatten = table) :
    batches.foldl (fun st c => c.foldl F st) s = table.foldl F s := by
  rw [← hcontig]; exact chunking_independent F s batches

end Pvx

-- no `sorry`, no extra axioms: the kernel's standard ones only
#print axioms Pvx.loop_rule
#print axioms Pvx.terminates
#print axioms Pvx.chunking_independent
#print axioms Pvx.processed_once
#print axioms Pvx.processed_all
#print axioms Pvx.transparent_run
