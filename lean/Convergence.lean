/-
  The stability half of "a consistent, Lipschitz one-step method is convergent" (Lax / Dahlquist), used by C01 and C03
  to go from the per-step obligations proved on the REAL kernel (identity at dt = 0, dF/dt at 0 = right-hand side of the
  navigation ODE, divisors non-zero hence F is C^1 and locally Lipschitz) to "no error component survives dt -> 0".
  What stays assumed after this file: Taylor's theorem (first-order consistency gives a local truncation error h tau(h)
  with tau(h) -> 0) and "C^1 on a compact domain is Lipschitz".  Mathlib only.
-/
import Mathlib.Analysis.SpecialFunctions.Exp
import Mathlib.Algebra.Field.GeomSum
import Mathlib.Tactic

namespace Pvx

open Finset

/-- discrete Grönwall: a one-step error recursion `e (k+1) ≤ a e k + b` with `a ≥ 0` unrolls to
    `e k ≤ a^k e 0 + b Σ_{i<k} a^i`. -/
theorem discrete_gronwall (e : ℕ → ℝ) (a b : ℝ) (ha : 0 ≤ a)
    (hstep : ∀ k, e (k + 1) ≤ a * e k + b) :
    ∀ k, e k ≤ a ^ k * e 0 + b * ∑ i ∈ range k, a ^ i := by
  intro k
  induction k with
  | zero => simp
  | succ k ih =>
    have h1 : e (k + 1) ≤ a * (a ^ k * e 0 + b * ∑ i ∈ range k, a ^ i) + b :=
      le_trans (hstep k) (by nlinarith [mul_le_mul_of_nonneg_left ih ha])
    have h2 : ∑ i ∈ range (k + 1), a ^ i = a * ∑ i ∈ range k, a ^ i + 1 := by
      rw [sum_range_succ', mul_sum]
      simp [pow_succ, mul_comm]
    rw [h2]
    calc e (k + 1) ≤ a * (a ^ k * e 0 + b * ∑ i ∈ range k, a ^ i) + b := h1
      _ = a ^ (k + 1) * e 0 + b * (a * ∑ i ∈ range k, a ^ i + 1) := by ring

/-- Convergence of a consistent, Lipschitz one-step method (the stability half of Lax / Dahlquist):
    global error `e`, step `h > 0`, Lipschitz constant `L > 0` of the increment function, local truncation error per unit
    step at most `τ ≥ 0` (i.e. `e (k+1) ≤ (1 + h L) e k + h τ`), exact start `e 0 = 0`, horizon `N h ≤ T`.
    Then `e N ≤ τ (exp (L T) - 1) / L`: the global error is bounded by the local truncation error times a constant that
    does not depend on `h`, so it vanishes with `τ` (consistency: `τ → 0` as `h → 0`). -/
theorem one_step_convergence (e : ℕ → ℝ) (h L τ T : ℝ) (N : ℕ)
    (hh : 0 < h) (hL : 0 < L) (hτ : 0 ≤ τ) (h0 : e 0 = 0) (hT : (N : ℝ) * h ≤ T)
    (hstep : ∀ k, e (k + 1) ≤ (1 + h * L) * e k + h * τ) :
    e N ≤ τ * (Real.exp (L * T) - 1) / L := by
  have ha : 0 ≤ 1 + h * L := by positivity
  have hg := discrete_gronwall e (1 + h * L) (h * τ) ha hstep N
  rw [h0, mul_zero, zero_add] at hg
  have hne : (1 + h * L) ≠ 1 := by
    have : 0 < h * L := mul_pos hh hL
    linarith
  have hgeom : ∑ i ∈ range N, (1 + h * L) ^ i = ((1 + h * L) ^ N - 1) / (h * L) := by
    rw [geom_sum_eq hne N]; congr 1; ring
  rw [hgeom] at hg
  have hpow : (1 + h * L) ^ N ≤ Real.exp (L * T) := by
    have h1 : 1 + h * L ≤ Real.exp (h * L) := by
      have := Real.add_one_le_exp (h * L); linarith
    calc (1 + h * L) ^ N ≤ (Real.exp (h * L)) ^ N := pow_le_pow_left₀ ha h1 N
      _ = Real.exp ((N : ℝ) * (h * L)) := by rw [← Real.exp_nat_mul]
      _ ≤ Real.exp (L * T) := by
          apply Real.exp_le_exp.mpr
          have : (N : ℝ) * (h * L) = ((N : ℝ) * h) * L := by ring
          rw [this, mul_comm L T]
          exact mul_le_mul_of_nonneg_right hT hL.le
  have hhL : 0 < h * L := mul_pos hh hL
  calc e N ≤ h * τ * (((1 + h * L) ^ N - 1) / (h * L)) := hg
    _ = τ * ((1 + h * L) ^ N - 1) / L := by field_simp
    _ ≤ τ * (Real.exp (L * T) - 1) / L := by
        apply div_le_div_of_nonneg_right _ hL.le
        apply mul_le_mul_of_nonneg_left _ hτ
        linarith

end Pvx

#print axioms Pvx.discrete_gronwall
#print axioms Pvx.one_step_convergence
