/-
  Remainder bounds of the small-angle branch of `_numba_integrate.mat_from_rotvec` (C17; was the assumed
  "alternating-series remainder theorem").  With x = |rv|^2 the branch evaluates
      cos ~ 1 - x/2 + x^2/24,   k1 = sin t / t ~ 1 - x/6 + x^2/120,   k2 = (1 - cos t)/t^2 ~ 1/2 - x/24 + x^2/720.
  Proved here for every real t with |t| <= 1 (t != 0 for k1, k2), from Mathlib's bound on the exponential series
  (`Complex.exp_bound`), the way Mathlib proves `cos_bound` / `sin_bound`:
      |cos t - (1 - t^2/2 + t^4/24)|              <= |t|^6 * 7/4320
      |sin t / t - (1 - t^2/6 + t^4/120)|         <= |t|^6 / 4410
      |(1 - cos t)/t^2 - (1/2 - t^2/24 + t^4/720)| <= |t|^6 / 35840
  (constants 7/6, 8/7, 9/8 times the first omitted term).  The check `C17.rotvec.branch_small.remainder.*` compares
  threshold^3 times these constants with 2^-53.
-/
import Mathlib.Analysis.Complex.Trigonometric

open Finset Complex

namespace Pvx

theorem ccos_bound6 {x : ℂ} (hx : ‖x‖ ≤ 1) :
    ‖cos x - (1 - x ^ 2 / 2 + x ^ 4 / 24)‖ ≤ ‖x‖ ^ 6 * (7 / 4320) :=
  calc
    ‖cos x - (1 - x ^ 2 / 2 + x ^ 4 / 24)‖ =
        ‖(exp (-x * I) - ∑ m ∈ range 6, (-x * I) ^ m / m.factorial) / 2 +
         (exp (x * I) - ∑ m ∈ range 6, (x * I) ^ m / m.factorial) / 2‖ := by
      simp [cos, field, Finset.sum_range_succ, Nat.factorial]
      grind [I_sq, two_ne_zero]
    _ ≤ ‖exp (-x * I) - ∑ m ∈ range 6, (-x * I) ^ m / m.factorial‖ / 2 +
        ‖exp (x * I) - ∑ m ∈ range 6, (x * I) ^ m / m.factorial‖ / 2 := by
      grw [norm_add_le]
      simp
    _ ≤ ‖-x * I‖ ^ 6 * (Nat.succ 6 * (Nat.factorial 6 * (6 : ℕ) : ℝ)⁻¹) / 2 +
        ‖x * I‖ ^ 6 * (Nat.succ 6 * (Nat.factorial 6 * (6 : ℕ) : ℝ)⁻¹) / 2 := by
      grw [exp_bound (by simpa) (by simp), exp_bound (by simpa) (by simp)]
    _ ≤ ‖x‖ ^ 6 * (7 / 4320) := by norm_num [Nat.factorial]

theorem ccos_bound8 {x : ℂ} (hx : ‖x‖ ≤ 1) :
    ‖cos x - (1 - x ^ 2 / 2 + x ^ 4 / 24 - x ^ 6 / 720)‖ ≤ ‖x‖ ^ 8 * (1 / 35840) :=
  calc
    ‖cos x - (1 - x ^ 2 / 2 + x ^ 4 / 24 - x ^ 6 / 720)‖ =
        ‖(exp (-x * I) - ∑ m ∈ range 8, (-x * I) ^ m / m.factorial) / 2 +
         (exp (x * I) - ∑ m ∈ range 8, (x * I) ^ m / m.factorial) / 2‖ := by
      simp [cos, field, Finset.sum_range_succ, Nat.factorial]
      grind [I_sq, two_ne_zero]
    _ ≤ ‖exp (-x * I) - ∑ m ∈ range 8, (-x * I) ^ m / m.factorial‖ / 2 +
        ‖exp (x * I) - ∑ m ∈ range 8, (x * I) ^ m / m.factorial‖ / 2 := by
      grw [norm_add_le]
      simp
    _ ≤ ‖-x * I‖ ^ 8 * (Nat.succ 8 * (Nat.factorial 8 * (8 : ℕ) : ℝ)⁻¹) / 2 +
        ‖x * I‖ ^ 8 * (Nat.succ 8 * (Nat.factorial 8 * (8 : ℕ) : ℝ)⁻¹) / 2 := by
      grw [exp_bound (by simpa) (by simp), exp_bound (by simpa) (by simp)]
    _ ≤ ‖x‖ ^ 8 * (1 / 35840) := by norm_num [Nat.factorial]

theorem csin_bound7 {x : ℂ} (hx : ‖x‖ ≤ 1) :
    ‖sin x - (x - x ^ 3 / 6 + x ^ 5 / 120)‖ ≤ ‖x‖ ^ 7 * (1 / 4410) :=
  calc
    ‖sin x - (x - x ^ 3 / 6 + x ^ 5 / 120)‖ =
        ‖(exp (-x * I) - ∑ m ∈ range 7, (-x * I) ^ m / m.factorial) * I / 2 -
         (exp (x * I) - ∑ m ∈ range 7, (x * I) ^ m / m.factorial) * I / 2‖ := by
      simp [sin, field, Finset.sum_range_succ, Nat.factorial]
      grind [I_sq, two_ne_zero]
    _ ≤ ‖exp (-x * I) - ∑ m ∈ range 7, (-x * I) ^ m / m.factorial‖ / 2 +
        ‖exp (x * I) - ∑ m ∈ range 7, (x * I) ^ m / m.factorial‖ / 2 := by
      grw [norm_sub_le]
      simp
    _ ≤ ‖-x * I‖ ^ 7 * (Nat.succ 7 * (Nat.factorial 7 * (7 : ℕ) : ℝ)⁻¹) / 2 +
        ‖x * I‖ ^ 7 * (Nat.succ 7 * (Nat.factorial 7 * (7 : ℕ) : ℝ)⁻¹) / 2 := by
      grw [exp_bound (by simpa) (by simp), exp_bound (by simpa) (by simp)]
    _ ≤ ‖x‖ ^ 7 * (1 / 4410) := by norm_num [Nat.factorial]

/-- the `cos` cell of the small branch -/
theorem cos_small {t : ℝ} (ht : |t| ≤ 1) :
    |Real.cos t - (1 - t ^ 2 / 2 + t ^ 4 / 24)| ≤ |t| ^ 6 * (7 / 4320) := by
  have h := ccos_bound6 (x := (t : ℂ)) (by simpa using ht)
  have e : Complex.cos (t : ℂ) - (1 - (t : ℂ) ^ 2 / 2 + (t : ℂ) ^ 4 / 24)
      = ((Real.cos t - (1 - t ^ 2 / 2 + t ^ 4 / 24) : ℝ) : ℂ) := by push_cast; ring
  rw [e, Complex.norm_real, Complex.norm_real, Real.norm_eq_abs, Real.norm_eq_abs] at h
  exact h

theorem cos_small8 {t : ℝ} (ht : |t| ≤ 1) :
    |Real.cos t - (1 - t ^ 2 / 2 + t ^ 4 / 24 - t ^ 6 / 720)| ≤ |t| ^ 8 * (1 / 35840) := by
  have h := ccos_bound8 (x := (t : ℂ)) (by simpa using ht)
  have e : Complex.cos (t : ℂ) - (1 - (t : ℂ) ^ 2 / 2 + (t : ℂ) ^ 4 / 24 - (t : ℂ) ^ 6 / 720)
      = ((Real.cos t - (1 - t ^ 2 / 2 + t ^ 4 / 24 - t ^ 6 / 720) : ℝ) : ℂ) := by push_cast; ring
  rw [e, Complex.norm_real, Complex.norm_real, Real.norm_eq_abs, Real.norm_eq_abs] at h
  exact h

theorem sin_small7 {t : ℝ} (ht : |t| ≤ 1) :
    |Real.sin t - (t - t ^ 3 / 6 + t ^ 5 / 120)| ≤ |t| ^ 7 * (1 / 4410) := by
  have h := csin_bound7 (x := (t : ℂ)) (by simpa using ht)
  have e : Complex.sin (t : ℂ) - ((t : ℂ) - (t : ℂ) ^ 3 / 6 + (t : ℂ) ^ 5 / 120)
      = ((Real.sin t - (t - t ^ 3 / 6 + t ^ 5 / 120) : ℝ) : ℂ) := by push_cast; ring
  rw [e, Complex.norm_real, Complex.norm_real, Real.norm_eq_abs, Real.norm_eq_abs] at h
  exact h

/-- k1 = sin t / t of the small branch -/
theorem k1_small {t : ℝ} (ht : |t| ≤ 1) (h0 : t ≠ 0) :
    |Real.sin t / t - (1 - t ^ 2 / 6 + t ^ 4 / 120)| ≤ |t| ^ 6 * (1 / 4410) := by
  have hpos : 0 < |t| := abs_pos.mpr h0
  have key : Real.sin t / t - (1 - t ^ 2 / 6 + t ^ 4 / 120)
      = (Real.sin t - (t - t ^ 3 / 6 + t ^ 5 / 120)) / t := by
    field_simp
  rw [key, abs_div, div_le_iff₀ hpos]
  calc |Real.sin t - (t - t ^ 3 / 6 + t ^ 5 / 120)| ≤ |t| ^ 7 * (1 / 4410) := sin_small7 ht
    _ = |t| ^ 6 * (1 / 4410) * |t| := by ring

/-- k2 = (1 - cos t) / t^2 of the small branch -/
theorem k2_small {t : ℝ} (ht : |t| ≤ 1) (h0 : t ≠ 0) :
    |(1 - Real.cos t) / t ^ 2 - (1 / 2 - t ^ 2 / 24 + t ^ 4 / 720)| ≤ |t| ^ 6 * (1 / 35840) := by
  have hpos : 0 < |t| ^ 2 := by positivity
  have key : (1 - Real.cos t) / t ^ 2 - (1 / 2 - t ^ 2 / 24 + t ^ 4 / 720)
      = -(Real.cos t - (1 - t ^ 2 / 2 + t ^ 4 / 24 - t ^ 6 / 720)) / t ^ 2 := by
    field_simp
    ring
  rw [key, abs_div, abs_neg, abs_pow, div_le_iff₀ hpos]
  calc |Real.cos t - (1 - t ^ 2 / 2 + t ^ 4 / 24 - t ^ 6 / 720)| ≤ |t| ^ 8 * (1 / 35840) := cos_small8 ht
    _ = |t| ^ 6 * (1 / 35840) * |t| ^ 2 := by ring

end Pvx

#print axioms Pvx.cos_small
#print axioms Pvx.k1_small
#print axioms Pvx.k2_small
