#!/usr/bin/env python3
"""Regenerate MANIFEST.json from props/*.py metadata (MANIFEST dict in each module)
and validate it.  Properties without a props module are listed under
not_applicable with the reason given in NOT_CLAIMED below."""
import ast, json, os, sys
HERE = os.path.dirname(os.path.abspath(__file__))
ALL = ["C%02d" % i for i in range(1, 20)]
NOT_CLAIMED_DEFAULT = "check not built yet (work in progress, see DESIGN.md section 9 order of work); nothing is claimed for this property"

def meta(pid):
    p = os.path.join(HERE, "props", pid + ".py")
    if not os.path.exists(p):
        return None
    tree = ast.parse(open(p).read())
    for node in tree.body:
        if isinstance(node, ast.Assign) and any(getattr(t, "id", None) == "MANIFEST" for t in node.targets):
            v = node.value
            if isinstance(v, ast.Call):
                return {kw.arg: ast.literal_eval(kw.value) for kw in v.keywords}
            return ast.literal_eval(v)
    return None

checks, na = [], []
for pid in ALL:
    m = meta(pid)
    if m is None or m.get("not_applicable"):
        na.append(dict(property_id=pid, reason=(m or {}).get("not_applicable", NOT_CLAIMED_DEFAULT)))
        continue
    checks.append(dict(
        property_id=pid,
        quick_cmd="./check %s --tier quick" % pid,
        thorough_cmd="./check %s --tier thorough" % pid,
        evidence_file="evidence/%s.json" % pid,
        replay_cmd_template="./check replay {path}",
        engine="pvx",
        level_claimed=dict(category=m["category"], text=m["text"], design_ref=m.get("design_ref", "DESIGN.md section 5, " + pid)),
        level_note=m["note"],
        technique=m["technique"]))
man = dict(
    version=1,
    setup_cmd="./setup.sh",
    hooks=dict(guard="NMAYOROV_PYINS_VERIF", enable="no source hooks: the checks import /repo's working tree and execute the real function objects (numba kernels via .py_func); the guard variable is exported by ./check but read nowhere in /repo",
               baseline_off_cmd="cd /repo && /venv/bin/python -m pytest -ra -q -p no:cacheprovider --timeout=900 --continue-on-collection-errors",
               source_commits=[], add_only=True),
    engines=[dict(name="pvx", path="pvx/", serves_properties=[c["property_id"] for c in checks],
                  kind_free_text="contract-directed symbolic execution of the real pyins function objects on sympy reals / z3 terms / free-algebra words / an uninterpreted operation DAG; sidecar contracts; obligations discharged by a fraction-field normal form (sympy polys), interval arithmetic (mpmath.iv), z3 (every unsat re-run through cvc5 in the thorough tier), word normal forms, an AST freshness analysis; value-dependent branches explored path by path with native witnesses; history obligations (second call in the same world); CPython cross-check and native replay of every refutation"),
             dict(name="lean-induction", path="lean/Induction.lean", serves_properties=["C02", "C09", "C10", "C11", "C12"],
                  kind_free_text="Lean 4 + Mathlib proofs of the induction steps from the per-iteration obligations to the whole-run statements (loop rule, termination from a lexicographic variant, chunking independence of a fold, exactly-once from the cursor invariant); re-checked by `lean` in the thorough tier (Cxx.induction.mechanised)"),
             dict(name="lean-theorems", path="lean/Psd.lean, lean/Convergence.lean, lean/Trig.lean, lean/Kalman.lean", serves_properties=["C01", "C07", "C08", "C11", "C17"],
                  kind_free_text="Lean 4 + Mathlib proofs of mathematical steps that were assumed theorems: positive (semi)definiteness of the syntactic forms the checks establish on kalman.correct / compute_process_matrices (congruence, sum, PSD + PD, Joseph form for every gain, prior minus posterior), the stability half of Lax-Dahlquist (discrete Gronwall, global error <= local truncation error x (exp(LT) - 1)/L), the remainder bounds of the small-angle series of mat_from_rotvec, and -- as a second back end of the word normal form -- Joseph = short form and the Van Loan composition law in an arbitrary ring; re-checked by `lean` in the thorough tier (Cxx.psd / convergence / series / words .mechanised), listed as named assumptions in the quick tier"),
             dict(name="bounded-standins", path="props/forms.py, props/C19.py (module_purity), pvx/isolated.py", serves_properties=[c["property_id"] for c in checks],
                  kind_free_text="bounded native contracts, labelled bounded in the evidence and never counted as discharged: argument-form battery, dynamic purity contract against pristine process states, differential tests of rebound external names, float64 stand-ins of the clauses a real-arithmetic proof cannot see")],
    checks=checks,
    not_applicable=na,
    notes="Contract-based deductive verification; no Python deductive verifier is installed, so the VC generator is built here (DESIGN.md section 1). Exit codes: 0 held, 1 VIOLATION, 2 undecided, 3 checker error. DESIGN.md sections 10-12, 14 and 15 are the build reports (first build, harder seeds + harmless refactorings, dependency defects + correct optimisations, edge inputs + floating-point-only changes + structural refactorings); a check never hangs (watchdog: VERIF_SECTION_BUDGET / VERIF_TOTAL_BUDGET seconds, unfinished work is undecided); KNOWN_FINDINGS.txt lists the genuine defects (fixed: F1-F8, F12-F15 as `fix:` commits in /repo; known: F9-F11). Self-tests: `./check selftest` (160 seeded defects: 159 must exit 1, C15h is the one the machinery does not report and must exit 3; 72 harmless patches must exit 0), tools/harmless_matrix.sh (every harmless patch against all 19 checks).")
json.dump(man, open(os.path.join(HERE, "MANIFEST.json"), "w"), indent=1)
try:
    sys.path.insert(0, os.path.join(HERE, "_deps"))
    import jsonschema
    jsonschema.validate(man, json.load(open("/root/.vp/MANIFEST.schema.json")))
    print("MANIFEST.json valid:", len(checks), "checks,", len(na), "not claimed")
except ImportError:
    print("MANIFEST.json written (jsonschema not available to validate):", len(checks), "checks")
