"""The exact continuous navigation equations on the rotating ellipsoid (Groves 2nd ed.
ch. 5.4, Savage part 2) -- the independent physical solution C01, C03, C04 refer to.

State: phi, lam (rad), h (m), V = (VN, VE, VD) in NED, C = body->NED attitude matrix.
Inputs: w = angular rate of the body w.r.t. inertial space in body axes, f = specific force
in body axes."""
import sympy as sp

from . import wgs84, frames


def transport_rate(phi, h, V):
    M_h, N_h, _ = wgs84.principal_radii(phi, h)
    return sp.Matrix([V[1] / N_h, -V[0] / M_h, -V[1] * sp.tan(phi) / N_h])


def rhs(phi, lam, h, V, C, w, f, with_altitude=True):
    """Returns (phi_dot, lam_dot, h_dot, V_dot (3x1), C_dot (3x3)); angles in rad/s."""
    V = sp.Matrix(V)
    C = sp.Matrix(C)
    w = sp.Matrix(w)
    f = sp.Matrix(f)
    M_h, N_h, _ = wgs84.principal_radii(phi, h)
    Om = wgs84.earth_rate_n(phi)
    rho = transport_rate(phi, h, V)
    g = sp.Matrix([0, 0, wgs84.normal_gravity(phi, h)])
    phi_dot = V[0] / M_h
    lam_dot = V[1] / (N_h * sp.cos(phi))
    h_dot = -V[2]
    V_dot = C * f + g - (2 * Om + rho).cross(V)
    C_dot = C * frames.skew(w) - frames.skew(Om + rho) * C
    if not with_altitude:
        # altitude channel frozen: the vertical velocity is identically zero and altitude constant
        V_dot = sp.Matrix([V_dot[0], V_dot[1], 0])
        h_dot = 0
    return phi_dot, lam_dot, h_dot, V_dot, C_dot
