"""Specification module (the oracle).  Written from the property statements and
textbook definitions (Groves 2nd ed., Savage 1998, Maybeck vol. 1, Van Loan
1978), not from pyins.  Pure sympy; angles are in *radians* here."""
