"""Ellipsoid geometry and normal gravity with *symbolic* ellipsoid constants
(assumption A5: identities are proved for every ellipsoid with A>0, 0<E2<1)."""
import sympy as sp

A, RATE, GE, GP = sp.symbols("A RATE GE GP", positive=True)
E2 = sp.Symbol("E2", positive=True)          # 0 < E2 < 1 is a stated side condition
F = sp.Symbol("F", real=True)                # Somigliana constant, see F_DEFINITION
F_DEFINITION = sp.sqrt(1 - E2) * GP / GE - 1  # b*GP/(a*GE) - 1 with b/a = sqrt(1-E2)

CONSTANT_SYMBOLS = dict(A=A, E2=E2, RATE=RATE, GE=GE, GP=GP, F=F)
# WGS-84 values (NIMA TR8350.2) used only to check the module constants at run time
WGS84_VALUES = dict(A=6378137.0, E2=6.6943799901413e-3, RATE=7.292115e-5,
                    GE=9.7803253359, GP=9.8321849378)


def W2(phi):
    return 1 - E2 * sp.sin(phi) ** 2


def prime_vertical_radius(phi):          # N
    return A / sp.sqrt(W2(phi))


def meridian_radius(phi):                # M
    return A * (1 - E2) / W2(phi) ** sp.Rational(3, 2)


def r_e(phi, lam, h):
    """ECEF position of geodetic (phi, lam, h)."""
    N = prime_vertical_radius(phi)
    return sp.Matrix([(N + h) * sp.cos(phi) * sp.cos(lam),
                      (N + h) * sp.cos(phi) * sp.sin(lam),
                      ((1 - E2) * N + h) * sp.sin(phi)])


def principal_radii(phi, h):
    """(M+h, N+h, (N+h) cos phi)"""
    return (meridian_radius(phi) + h, prime_vertical_radius(phi) + h,
            (prime_vertical_radius(phi) + h) * sp.cos(phi))


def normal_gravity(phi, h):
    """Somigliana closed form with the linear free-air factor."""
    s2 = sp.sin(phi) ** 2
    return GE * (1 + F * s2) / sp.sqrt(1 - E2 * s2) * (1 - 2 * h / A)


def earth_rate_n(phi):
    return sp.Matrix([RATE * sp.cos(phi), 0, -RATE * sp.sin(phi)])
