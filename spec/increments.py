"""Exact rotation vector and start-frame velocity increment for polynomial signals.

Bortz equation  phi' = w + 1/2 phi x w + 1/12 phi x (phi x w) + O(|phi|^4 |w|),
solved by Picard iteration on polynomials in tau (truncated at `order`);
dv = int_0^h exp([phi(tau) x]) f(tau) dtau  with the exponential series.
Independent of pyins (Savage 1998 part 1 eq. 25 / part 2 eq. 31-33; Bortz 1971)."""
import sympy as sp


def _cross(u, v):
    return sp.Matrix(u).cross(sp.Matrix(v))


def _trunc(vec, tau, order):
    out = []
    for e in vec:
        p = sp.Poly(sp.expand(e), tau)
        out.append(sum(c * tau ** m[0] for m, c in p.terms() if m[0] <= order))
    return sp.Matrix(out)


def rotation_vector_series(omega_of_tau, tau, order=4):
    """phi(tau) as a polynomial in tau through tau^order, for polynomial omega(tau)."""
    w = sp.Matrix(omega_of_tau)
    phi = sp.zeros(3, 1)
    for _ in range(order + 1):
        rhs = w + _cross(phi, w) / 2 + _cross(phi, _cross(phi, w)) / 12
        rhs = _trunc(rhs, tau, order - 1)
        phi = _trunc(sp.Matrix([sp.integrate(e, (tau, 0, tau)) for e in rhs]), tau, order)
    return phi


def velocity_increment_series(omega_of_tau, f_of_tau, tau, order=4):
    """int_0^tau C(s) f(s) ds through tau^order, C = exp([phi x]) (series to the needed order)."""
    phi = rotation_vector_series(omega_of_tau, tau, order)
    f = sp.Matrix(f_of_tau)
    integrand = f
    term = f
    for k in range(1, order + 1):
        term = _cross(phi, term) / k
        integrand = integrand + term
    integrand = _trunc(integrand, tau, order - 1)
    return _trunc(sp.Matrix([sp.integrate(e, (tau, 0, tau)) for e in integrand]), tau, order)


def second_order_rotation_term(a, c, h):
    """the h^3 coefficient part 1/2 int alpha x (alpha x f): a x (a x c) h^3 / 6"""
    return _cross(a, _cross(a, c)) * h ** 3 / 6
