"""Frames and attitude.  Radians."""
import sympy as sp


def Rx(a):
    c, s = sp.cos(a), sp.sin(a)
    return sp.Matrix([[1, 0, 0], [0, c, -s], [0, s, c]])


def Ry(a):
    c, s = sp.cos(a), sp.sin(a)
    return sp.Matrix([[c, 0, s], [0, 1, 0], [-s, 0, c]])


def Rz(a):
    c, s = sp.cos(a), sp.sin(a)
    return sp.Matrix([[c, -s, 0], [s, c, 0], [0, 0, 1]])


AXIS = {"x": Rx, "y": Ry, "z": Rz}


def ned_axes_in_ecef(phi, lam):
    """Unit north, east, down vectors of the local level frame, in ECEF."""
    sphi, cphi, sl, cl = sp.sin(phi), sp.cos(phi), sp.sin(lam), sp.cos(lam)
    north = sp.Matrix([-sphi * cl, -sphi * sl, cphi])
    east = sp.Matrix([-sl, cl, 0])
    down = sp.Matrix([-cphi * cl, -cphi * sl, -sphi])
    return north, east, down


def C_en(phi, lam):
    """Matrix projecting NED components to ECEF (columns = north, east, down)."""
    n, e, d = ned_axes_in_ecef(phi, lam)
    return sp.Matrix.hstack(n, e, d)


def attitude(roll, pitch, heading):
    """Body -> NED: heading about down, then pitch about the new east axis, then
    roll about the new body x axis."""
    return Rz(heading) * Ry(pitch) * Rx(roll)


def euler_of(C):
    """(roll, pitch, heading) of a proper rotation, |C[2,0]| < 1."""
    return (sp.atan2(C[2, 1], C[2, 2]), -sp.asin(C[2, 0]), sp.atan2(C[1, 0], C[0, 0]))


def skew(v):
    return sp.Matrix([[0, -v[2], v[1]], [v[2], 0, -v[0]], [-v[1], v[0], 0]])


def rodrigues(v):
    """exp([v x]) in closed form, |v| > 0."""
    v = sp.Matrix(v)
    n2 = v.dot(v)
    n = sp.sqrt(n2)
    K = skew(v)
    return sp.eye(3) + sp.sin(n) / n * K + (1 - sp.cos(n)) / n2 * K * K


def expmap_series(v, order):
    """sum_{j<=order} [v x]^j / j!  (exact in every Taylor coefficient <= order)."""
    K = skew(sp.Matrix(v))
    out = sp.eye(3)
    term = sp.eye(3)
    for j in range(1, order + 1):
        term = term * K / j
        out = out + term
    return out
