#!/bin/sh
# setup_cmd: offline install of the solver / algebra libraries the engine needs
# into /verif/_deps (git-ignored) for /venv's python.  Idempotent.
set -e
cd "$(dirname "$0")"
DEPS="$PWD/_deps"
if [ -f "$DEPS/.ok" ] && /venv/bin/python -c "import sys; sys.path.insert(0,'$DEPS'); import sympy, mpmath, z3" 2>/dev/null; then
  exit 0
fi
rm -rf "$DEPS"
PIP_NO_INDEX=1 /venv/bin/python -m pip install --quiet --no-index \
   --find-links /opt/veriftools/wheels --target "$DEPS" sympy mpmath z3-solver
touch "$DEPS/.ok"
