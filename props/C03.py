"""C03 -- Synthesised IMU matches the motion's true kinematics and inverts strapdown."""
import math
import time

import numpy as np
import pandas as pd
import sympy as sp

from pvx import field
from pvx.claims import flat, full_domain, eq_spec
from pvx.deps import RotationStub
from pvx.harness import Ob
from pvx.loader import load, rdomain
from pvx.sym import RSym, unwrap, explore, Concretization
from spec import wgs84, frames, nav_ode, increments as SI

MANIFEST = dict(
    category="proof",
    technique="the real generate_imu executed on symbolic smooth functions of time (sympy Functions; scipy spline constructors replaced by the contract 'a spline stands for the smooth function it interpolates'); its rate outputs are proved equal to the (w, f) obtained by solving the exact navigation ODE, for all three input forms; the increment series of _compute_increment_readings is proved as exact polynomial identities; coefficient glue checked on letter arrays; run-time stand-ins on the real splines (closed-form motion; fixed-point post-condition of the latitude iteration at every sample, out-and-back trajectories included); Bounded stand-ins shared by all properties (labelled bounded, never counted as proved): the argument-form battery of the modules under contract (batches of 1 and 1200 rows, integer-typed values, labels / columns in other orders, extra labels); where the frame analysis finds state that outlives a call (a cache, a memo) the frame obligation becomes a dynamic purity contract against pristine process states; names the proofs replace by scipy contracts are checked to be bound to the library's functions (else a differential test).",
    text="With arbitrary smooth lat(t), lon(t), alt(t), roll(t), pitch(t), heading(t) (symbolic functions, all derivatives free) the real generate_imu's gyro and accelerometer rate outputs are proved identical to the body angular rate and specific force that the exact navigation equations on the rotating ellipsoid (the same specification the integrator is proved consistent with in C01) require for that motion -- so integrating the synthesised readings reproduces the trajectory without comparing the two programs with each other; the velocity returned for position-only input equals the kinematic velocity, the Hermite derivative data of the position+velocity form is the true inertial velocity, and the initial-position form integrates exactly the kinematic equations (the latitude iteration's fixed point; its 0.01 m early exit is a stated tolerance); at rest the outputs are exactly Earth rate and minus gravity in body axes. For the increment type the eight gyro and eight accelerometer series coefficients are proved to be the exact Taylor coefficients of the body rate / rotated specific force for a cubic rotation vector and linear inertial acceleration, integrated over the interval, and the glue passes the spline coefficient arrays in the documented order. That the real splines approximate the smooth functions with an error shrinking with the sampling interval is an assumed theorem, exercised by the stand-in only.",
    note="A1-A6; scipy CubicSpline / CubicHermiteSpline / RotationSpline: interpolate the data (and given derivatives), k-th derivative error O(h^(4-k)) for smooth data (assumed, not checked), coefficient layout c[0] highest power (documented); Rotation contracts (C17); truncation of the two increment series at 4th order in the rotation vector is declared.",
)
LEVEL = "proof"
LEVEL_NOTE = MANIFEST["text"]

t = sp.Symbol("t", real=True)
FN = {k: sp.Function(k)(t) for k in ("lat", "lon", "alt", "roll", "pitch", "head")}
SYM = {}
for k in FN:
    for d in range(4):
        SYM[(k, d)] = sp.Symbol("%s_%d" % (k, d), real=True)
BOX = {SYM[("lat", 0)]: (-1.45, 1.45), SYM[("pitch", 0)]: (-1.45, 1.45), SYM[("alt", 0)]: (-500.0, 2e4)}
for k in FN:
    BOX.setdefault(SYM[(k, 0)], (-3.0, 3.0))
    BOX[SYM[(k, 1)]] = (-0.5, 0.5) if k not in ("alt",) else (-50.0, 50.0)
    BOX[SYM[(k, 2)]] = (-0.5, 0.5) if k not in ("alt",) else (-5.0, 5.0)
    BOX[SYM[(k, 3)]] = (-0.5, 0.5)
for k in ("lat", "lon"):
    BOX[SYM[(k, 1)]] = (-5e-5, 5e-5)
    BOX[SYM[(k, 2)]] = (-5e-6, 5e-6)
BOX[t] = (-50.0, 50.0)
COSNN = (SYM[("lat", 0)], SYM[("pitch", 0)])


def flatten_derivs(e):
    """replace f(t), f'(t), f''(t) ... by independent symbols"""
    e = sp.sympify(e)
    rep = {}
    for a in e.atoms(sp.Derivative):
        f = a.expr
        k = f.func.__name__
        if k in FN and a.variables == (t,) * len(a.variables):
            rep[a] = SYM[(k, len(a.variables))]
    e = e.xreplace(rep)
    return e.xreplace({FN[k]: SYM[(k, 0)] for k in FN})


# ---------------------------------------------------------------------------------------------
# spline contracts, function mode: a spline stands for the smooth function it interpolates
# ---------------------------------------------------------------------------------------------
class Smooth:
    def __init__(self, exprs, shape):
        self.e = exprs          # flat list of sympy expressions in t
        self.shape = shape

    @classmethod
    def of(cls, y):
        arr = np.asarray(y, dtype=object)
        return cls([sp.sympify(unwrap(v)) for v in arr.reshape(-1)], arr.shape)

    def derivative(self, nu=1):
        return Smooth([sp.diff(x, t, nu) for x in self.e], self.shape)

    def antiderivative(self, nu=1):
        out = []
        for x in self.e:
            out.append(_antiderivative(x))
        return Smooth(out, self.shape)

    def __call__(self, time_, nu=0):
        vals = [RSym(sp.diff(x, t, nu) if nu else x) for x in self.e]
        a = np.empty(len(vals), dtype=object)
        for i, v in enumerate(vals):
            a[i] = v
        return a.reshape(self.shape)


_AD_COUNT = [0]
AD_DERIV = {}


def _antiderivative(integrand):
    _AD_COUNT[0] += 1
    name = "AD%d" % _AD_COUNT[0]

    class AD(sp.Function):
        nargs = 1

        def fdiff(self, argindex=1):
            return AD_DERIV[type(self).__name__].subs(t, self.args[0])
    AD.__name__ = name
    AD_DERIV[name] = integrand
    return AD(t)


def CubicSplineStub(time_, y, *a, **k):
    return Smooth.of(y)


def CubicHermiteStub(log):
    def f(time_, y, dydx, *a, **k):
        log.append(("hermite", Smooth.of(y), Smooth.of(dydx)))
        return Smooth.of(y)
    return f


class RotSplineFn:
    """RotationSpline in function mode: __call__(t, 1) is the body angular rate vee(C^T C')"""

    def __init__(self, time_, rotations):
        self.C = rotations._m[0]

    def __call__(self, time_, order=0):
        if order != 1:
            raise Concretization("RotationSpline(t, %r) outside the contract" % order)
        W = self.C.T * sp.diff(self.C, t)
        w = [W[2, 1] - W[1, 2], W[0, 2] - W[2, 0], W[1, 0] - W[0, 1]]
        a = np.empty((1, 3), dtype=object)
        for i in range(3):
            a[0, i] = RSym(w[i] / 2)
        return a


def _inputs(form):
    k = 180 / sp.pi
    lat, lon, alt = FN["lat"], FN["lon"], FN["alt"]
    M_h, N_h, rp = wgs84.principal_radii(lat, alt)
    V = [M_h * sp.diff(lat, t), rp * sp.diff(lon, t), -sp.diff(alt, t)]
    time_ = np.array([RSym(t)], dtype=object)
    lla = np.array([[RSym(lat * k), RSym(lon * k), RSym(alt)]], dtype=object)
    rph = np.array([[RSym(FN["roll"] * k), RSym(FN["pitch"] * k), RSym(FN["head"] * k)]], dtype=object)
    vel = np.array([[RSym(v) for v in V]], dtype=object)
    return time_, lla, rph, vel, V


def spec_w_f():
    lat, lon, alt = FN["lat"], FN["lon"], FN["alt"]
    M_h, N_h, rp = wgs84.principal_radii(lat, alt)
    V = sp.Matrix([M_h * sp.diff(lat, t), rp * sp.diff(lon, t), -sp.diff(alt, t)])
    C = frames.attitude(FN["roll"], FN["pitch"], FN["head"])
    Om = wgs84.earth_rate_n(lat)
    rho = nav_ode.transport_rate(lat, alt, V)
    g = sp.Matrix([0, 0, wgs84.normal_gravity(lat, alt)])
    Wm = C.T * (sp.diff(C, t) + frames.skew(Om + rho) * C)
    w = sp.Matrix([Wm[2, 1] - Wm[1, 2], Wm[0, 2] - Wm[2, 0], Wm[1, 0] - Wm[0, 1]]) / 2
    f = C.T * (sp.diff(V, t) - g + (2 * Om + rho).cross(V))
    return w, f, V


def run(ctx):
    py = load()
    ctx.under_contract("pyins.sim.generate_imu (three input forms, rate type; increment glue)", "pyins.sim._compute_increment_readings",
                       "pyins.sim.generate_sine_velocity_motion (glue)", "pyins.earth.gravitation_ecef / transform.lla_to_ecef / mat_en_from_ll (C16 contracts, executed)")
    ctx.trust("scipy CubicSpline / CubicHermiteSpline / RotationSpline contracts (a spline stands for the smooth function it interpolates; error O(h^(4-k)): assumed theorem)",
              "scipy Rotation contracts (C17)", "spec/nav_ode.py, spec/wgs84.py, spec/frames.py", "sympy, field normal form")
    ctx.assume("interpolation error of the real splines shrinks with the sampling interval (analysis theorem, not checked; stand-in only)",
               "the two increment series are truncated at 4th order in the rotation vector (declared)", "|lat| < 90, |pitch| < 90 deg")
    ctx.guard(_rate, ctx, py)
    ctx.guard(_increment_series, ctx, py)
    ctx.guard(_increment_glue, ctx, py)
    ctx.guard(_sine_motion, ctx, py)
    ctx.guard(_schema, ctx, py)
    ctx.guard(_standin, ctx, py)
    ctx.guard(_fixed_point_standin, ctx, py)
    # "integrating the synthesised readings reproduces the trajectory" goes through strapdown.compute_increments_from_imu: its
    # interface contract (rows, columns, stamps, dt = exact stamp differences; C15) is re-established under this property
    from props import C15 as _C15
    ctx.guard(_C15._schema, ctx, py)

    # frame of the modules under contract (no state kept between calls, arguments left alone): same analysis as C19
    from props import C19 as _C19
    ctx.guard(_C19.frame_obligations, ctx, py, "C03", {'earth', 'transform', 'util', 'sim'})


# ---------------------------------------------------------------------------------------------
def _sine_motion(ctx, py):
    """generate_sine_velocity_motion hands generate_imu the DOCUMENTED motion: V = V_mean + V_ampl sin(2 pi t / period + offset),
    roll 0, pitch / heading along the velocity -- for every mean, amplitude, period and phase offset (symbols), and for the
    literal argument forms a caller writes (offsets omitted, all zero, a scalar; amplitude omitted)."""
    from pvx.npproxy import patched as _patched
    SIM = py.sim
    m = sp.symbols("vm0:3", real=True)
    a = sp.symbols("va0:3", real=True)
    o = sp.symbols("vo0:3", real=True)
    Tp = sp.Symbol("Tper", positive=True)
    dom = {x: (-30, 30) for x in m}
    dom.update({x: (-5, 5) for x in a})
    dom.update({x: (-180, 180) for x in o})
    dom[Tp] = (5, 120)
    dt_, total = 0.5, 2.0
    stamps = [0.0, 0.5, 1.0, 1.5]

    def call(v, offsets, ampl=True):
        cap = {}

        def generate_imu(time, lla, rph, velocity_n=None, sensor_type="rate"):
            cap.update(time=time, lla=lla, rph=rph, vel=velocity_n, sensor_type=sensor_type)
            return None, None
        sym = isinstance(v["vm0"], RSym)
        arr = lambda names: np.array([v[n_.name] for n_ in names], dtype=object if sym else float)
        kw = {}
        if isinstance(offsets, str) and offsets == "symbols":
            kw["velocity_change_phase_offset"] = arr(o)
        elif not isinstance(offsets, str):
            kw["velocity_change_phase_offset"] = offsets
        if ampl:
            kw["velocity_change_amplitude"] = arr(a)
        with _patched((SIM, dict(generate_imu=generate_imu))):
            SIM.generate_sine_velocity_motion(dt_, total, [50.0, 30.0, 100.0], arr(m), velocity_change_period=v["Tper"], **kw)
        return cap

    def spec(v, offsets, ampl=True):
        from pvx.sym import exact as _exact
        if isinstance(offsets, str) and offsets == "symbols":
            off = [v[x.name] * sp.pi / 180 for x in o]
        else:
            # a literal offset is converted by the real np.deg2rad (float64): the contract is stated for that very number
            lit = [0, 90, 0] if isinstance(offsets, str) else offsets
            off = [_exact(float(x)) for x in np.deg2rad(np.broadcast_to(np.asarray(lit, dtype=float), (3,)))]
        out = []
        for t_ in stamps:
            for i in range(3):
                amp = v[a[i].name] if ampl else 0
                out.append(v[m[i].name] + amp * sp.sin(2 * sp.pi * sp.Rational(repr(t_)) / v["Tper"] + off[i]))
        return out

    forms = [("symbolic_offsets", "symbols", True), ("offsets_omitted", "omitted", True), ("offsets_all_zero", [0, 0, 0], True),
             ("offsets_zero_array", np.zeros(3), True), ("offset_scalar_zero", 0, True), ("offset_scalar_30", 30.0, True),
             ("amplitude_omitted", [0, 90, 0], False)]
    for tag, offs, ampl in forms:
        syms = list(m) + (list(a) if ampl else []) + [Tp] + (list(o) if isinstance(offs, str) and offs == "symbols" else [])
        eq_spec(ctx, "C03.sine_motion.velocity.%s" % tag, syms,
                lambda v, offs=offs, ampl=ampl: list(np.asarray(call(v, offs, ampl)["vel"], dtype=object).reshape(-1)),
                lambda v, offs=offs, ampl=ampl: spec(v, offs, ampl), dom, py=py, tol=1e-9, history=False)
    # stamps, initial position, roll and the sensor type are passed through
    with rdomain(py):
        cap = call({x.name: RSym(x) for x in list(m) + list(a) + list(o) + [Tp]}, "symbols")
    ok = ([float(x) for x in np.asarray(cap["time"], dtype=object)] == stamps and [float(x) for x in np.asarray(cap["lla"], dtype=object).reshape(-1)] == [50.0, 30.0, 100.0]
          and all(sp.sympify(unwrap(x)) == 0 for x in np.asarray(cap["rph"], dtype=object)[:, 0]) and cap["sensor_type"] == "rate")
    ctx.ob("C03.sine_motion.passthrough", "c", ok, "symbolic-execution", 0.0, "stamps arange(0, total, dt), lla0, roll = 0 and the sensor type reach generate_imu unchanged")


def _run_form(py, form, log):
    SIM = py.sim
    time_, lla, rph, vel, V = _inputs(form)
    stubs = dict(extra=[(SIM, dict(CubicSpline=CubicSplineStub, CubicHermiteSpline=CubicHermiteStub(log), RotationSpline=RotSplineFn))])
    with rdomain(py, **stubs):
        if form == "pos+vel":
            traj, imu = SIM.generate_imu(time_, lla, rph, vel, "rate")
        elif form == "pos":
            traj, imu = SIM.generate_imu(time_, lla, rph, None, "rate")
        else:
            traj, imu = SIM.generate_imu(time_, lla[0], rph, vel, "rate")
    return traj, imu


def _rate(ctx, py):
    t0 = time.time()
    w, f, V = spec_w_f()
    w = [flatten_derivs(x) for x in w]
    f = [flatten_derivs(x) for x in f]
    Vf = [flatten_derivs(x) for x in V]
    dom = full_domain(py, BOX)
    k = 180 / sp.pi
    for form in ("pos+vel", "pos"):
        log = []
        try:
            traj, imu = _run_form(py, form, log)
        except Exception as exc:
            ctx.ob("C03.rate.%s.executes" % form, "c", False, "symbolic-execution", time.time() - t0, "raised %r" % (exc,), cex=dict(error=repr(exc)), native=_native_rate(py))
            continue
        ctx.paths += 1
        g = [flatten_derivs(unwrap(imu.iloc[0][c])) for c in ("gyro_x", "gyro_y", "gyro_z")]
        a = [flatten_derivs(unwrap(imu.iloc[0][c])) for c in ("accel_x", "accel_y", "accel_z")]
        for i, ax in enumerate("xyz"):
            v = field.check_zero(g[i] - w[i], domain=dom, seed=ctx.seed + i, cos_nonneg=COSNN)
            ctx.from_verdict("C03.rate.%s.gyro_%s" % (form, ax), "a", v, lambda pt: _native_rate(py))
            v = field.check_zero(a[i] - f[i], domain=dom, seed=ctx.seed + 10 + i, cos_nonneg=COSNN)
            ctx.from_verdict("C03.rate.%s.accel_%s" % (form, ax), "a", v, lambda pt: _native_rate(py))
        # returned trajectory: the input position / attitude, and the kinematic velocity
        want = [SYM[("lat", 0)] * k, SYM[("lon", 0)] * k, SYM[("alt", 0)]] + Vf + [SYM[("roll", 0)] * k, SYM[("pitch", 0)] * k, SYM[("head", 0)] * k]
        for c, wv in zip(traj.columns, want):
            v = field.check_zero(flatten_derivs(unwrap(traj.iloc[0][c])) - wv, domain=dom, seed=ctx.seed, cos_nonneg=COSNN)
            ctx.from_verdict("C03.forms.%s.trajectory[%s]" % (form, c), "a", v, lambda pt: _native_rate(py))
        if form == "pos+vel":
            herm = [x for x in log if x[0] == "hermite"]
            ok = len(herm) == 1
            ctx.ob("C03.forms.pos+vel.hermite_used", "c", ok, "stub-log", 0.0, "CubicHermiteSpline(time, r_i, v_i) is the position interpolant")
            if ok:
                y, dy = herm[0][1], herm[0][2]
                for i in range(3):
                    v = field.check_zero(flatten_derivs(sp.diff(y.e[i], t) - dy.e[i]), domain=dom, seed=ctx.seed, cos_nonneg=COSNN)
                    ctx.from_verdict("C03.forms.pos+vel.hermite_derivative_is_inertial_velocity[%d]" % i, "a", v, lambda pt: _native_rate(py))
    # at rest: Earth rate and reaction to gravity
    rest = {SYM[(k_, d)]: 0 for k_ in FN for d in (1, 2, 3)}
    C = frames.attitude(SYM[("roll", 0)], SYM[("pitch", 0)], SYM[("head", 0)])
    wr = C.T * wgs84.earth_rate_n(SYM[("lat", 0)])
    fr = -C.T * sp.Matrix([0, 0, wgs84.normal_gravity(SYM[("lat", 0)], SYM[("alt", 0)])])
    for i, ax in enumerate("xyz"):
        ctx.from_verdict("C03.rest.gyro_%s" % ax, "a", field.check_zero(w[i].xreplace(rest) - wr[i], domain=dom, seed=ctx.seed, cos_nonneg=COSNN), None)
        ctx.from_verdict("C03.rest.accel_%s" % ax, "a", field.check_zero(f[i].xreplace(rest) - fr[i], domain=dom, seed=ctx.seed, cos_nonneg=COSNN), None)
    _initial_form(ctx, py, dom)


def _initial_form(ctx, py, dom):
    """initial position + velocity: the positions are the integrals of the kinematic equations.
    Inputs: constant initial lat/lon/alt and free smooth velocity functions VN(t), VE(t), VD(t)."""
    t0 = time.time()
    SIM = py.sim
    k = 180 / sp.pi
    la0, lo0, al0 = sp.symbols("lat_i lon_i alt_i", real=True)
    Vf = [sp.Function(n_)(t) for n_ in ("VNf", "VEf", "VDf")]

    def body():
        del_keys = list(AD_DERIV)
        for q in del_keys:
            AD_DERIV.pop(q)
        _AD_COUNT[0] = 0
        log = []
        time_ = np.array([RSym(t)], dtype=object)
        rph = np.array([[RSym(FN["roll"] * k), RSym(FN["pitch"] * k), RSym(FN["head"] * k)]], dtype=object)
        vel = np.array([[RSym(v) for v in Vf]], dtype=object)
        stubs = dict(extra=[(SIM, dict(CubicSpline=CubicSplineStub, CubicHermiteSpline=CubicHermiteStub(log), RotationSpline=RotSplineFn))])
        with rdomain(py, **stubs):
            traj, imu = SIM.generate_imu(time_, np.array([RSym(la0 * k), RSym(lo0 * k), RSym(al0)], dtype=object), rph, vel, "rate")
        return traj, dict(AD_DERIV)
    try:
        paths = explore(body, max_paths=16)
    except Exception as exc:
        ctx.ob("C03.forms.initial.executes", "c", False, "symbolic-execution", time.time() - t0, "raised %r" % (exc,), cex=dict(error=repr(exc)), native=_native_rate(py))
        return
    ctx.paths += len(paths)
    for n_, (pa, (traj, ads)) in enumerate(paths):
        names = sorted(ads, key=lambda q: int(q[2:]))
        adsym = {}
        for e_ in [sp.sympify(unwrap(traj.iloc[0][c])) for c in ("lat", "lon", "alt")] + list(ads.values()):
            for a_ in e_.atoms(sp.Function):
                if type(a_).__name__ in ads:
                    adsym[a_] = sp.Symbol("ad_" + type(a_).__name__[2:], real=True)
        flat_ = lambda e_: sp.sympify(e_).xreplace(adsym).xreplace({Vf[0]: sp.Symbol("VNs", real=True), Vf[1]: sp.Symbol("VEs", real=True), Vf[2]: sp.Symbol("VDs", real=True)})
        VNs, VEs, VDs = sp.symbols("VNs VEs VDs", real=True)
        lat_e, lon_e, alt_e = (sp.sympify(unwrap(traj.iloc[0][c])) for c in ("lat", "lon", "alt"))
        dm = {la0: (-1.4, 1.4), lo0: (-3, 3), al0: (-500, 2e4), VNs: (-300, 300), VEs: (-300, 300), VDs: (-50, 50)}
        dm.update({v_: (-1e-3, 1e-3) for v_ in adsym.values()})
        dm = full_domain(py, dm)
        n_iter = len(names) - 2
        ok_struct = len(names) >= 3 and n_iter >= 1
        ctx.ob("C03.forms.initial.structure.path%d" % n_, "c", ok_struct, "stub-log", 0.0, "antiderivatives: altitude, %d latitude iteration(s), longitude" % n_iter)
        if not ok_struct:
            continue
        # altitude: alt = alt_i + int(-VD)
        ctx.from_verdict("C03.forms.initial.alt_rate_is_minus_VD.path%d" % n_, "a", field.check_zero(flat_(ads[names[0]]) + VDs, domain=dm, seed=ctx.seed), None)
        alt_expr = al0 + adsym[[a_ for a_ in adsym if type(a_).__name__ == names[0]][0]]
        ctx.from_verdict("C03.forms.initial.alt_is_initial_plus_integral.path%d" % n_, "a", field.check_zero(flat_(alt_e) - alt_expr, domain=dm, seed=ctx.seed), None)
        # latitude iterations: lat_j = lat_i + int VN / (M(lat_{j-1}) + alt)
        prev = la0
        for j in range(n_iter):
            M_h = wgs84.principal_radii(prev, alt_expr)[0]
            v = field.check_zero(flat_(ads[names[1 + j]]) - VNs / M_h, domain=dm, seed=ctx.seed, cos_nonneg=(la0,))
            ctx.from_verdict("C03.forms.initial.lat_iteration[%d].path%d" % (j, n_), "a", v, None)
            prev = la0 + adsym[[a_ for a_ in adsym if type(a_).__name__ == names[1 + j]][0]]
        ctx.from_verdict("C03.forms.initial.lat_is_last_iterate.path%d" % n_, "a", field.check_zero(flat_(lat_e) / k - prev, domain=dm, seed=ctx.seed), None)
        # longitude: d lon/dt = VE / ((N + h) cos lat) at the returned latitude and altitude
        rp = wgs84.principal_radii(prev, alt_expr)[1] * sp.sqrt(1 - sp.sin(prev) ** 2)      # cos lat written as the code writes it (|lat| < 90 deg)
        v = field.check_zero(flat_(ads[names[-1]]) - VEs / rp, domain=dm, seed=ctx.seed, cos_nonneg=(la0,))
        ctx.from_verdict("C03.forms.initial.lon_rate.path%d" % n_, "a", v, None)
    ctx.ob("C03.forms.initial.iteration_paths", "c", 1 <= len(paths) <= 8, "path-enumeration", time.time() - t0,
           "%d paths through the latitude fixed-point loop (early exit when the change is below 0.01 m, at most MAX_ITER iterations): on every path d lat/dt = VN/(M(lat_prev)+h) with lat_prev the previous iterate" % len(paths))


# ---------------------------------------------------------------------------------------------
def _increment_series(ctx, py):
    """_compute_increment_readings: exact polynomial identities"""
    SIM = py.sim
    t0 = time.time()
    a, b, c, d, e = (sp.Matrix(sp.symbols("%s1:4" % n_, real=True)) for n_ in "abcde")
    h = sp.Symbol("h", positive=True)
    tau = sp.Symbol("tau", real=True)
    with rdomain(py):
        arr = lambda v: np.array([[RSym(x) for x in v]], dtype=object)
        gy, ac = SIM._compute_increment_readings(np.array([[RSym(h)]], dtype=object), arr(a), arr(b), arr(c), arr(d), arr(e))
    gy = [sp.expand(unwrap(x)) for x in np.asarray(gy, dtype=object).reshape(-1)]
    ac = [sp.expand(unwrap(x)) for x in np.asarray(ac, dtype=object).reshape(-1)]
    phi = a * tau + b * tau ** 2 + c * tau ** 3
    dphi = sp.diff(phi, tau)
    # body rate from the rotation-vector rate (inverse of Bortz' equation, series to 2nd order in phi)
    w = dphi - phi.cross(dphi) / 2 + phi.cross(phi.cross(dphi)) / 6
    fb = (d + e * tau) - phi.cross(d + e * tau) + phi.cross(phi.cross(d + e * tau)) / 2
    wg = [sp.expand(sp.integrate(sp.expand(x), (tau, 0, h))) for x in w]
    wa = [sp.expand(sp.integrate(sp.expand(x), (tau, 0, h))) for x in fb]
    for i, ax in enumerate("xyz"):
        okg = sp.expand(gy[i] - wg[i]) == 0
        ctx.ob("C03.incr.omega_series_%s" % ax, "a", okg, "polynomial-identity", time.time() - t0,
               "gyro increment == integral over [0,h] of phi' - phi x phi'/2 + phi x (phi x phi')/6 for phi = a tau + b tau^2 + c tau^3 (all eight coefficients)",
               cex=None if okg else dict(difference=str(sp.expand(gy[i] - wg[i]))[:300]), native=None if okg else _native_incr(py))
        oka = sp.expand(ac[i] - wa[i]) == 0
        ctx.ob("C03.incr.force_series_%s" % ax, "a", oka, "polynomial-identity", time.time() - t0,
               "velocity increment == integral over [0,h] of (I - [phi x] + [phi x]^2/2)(d + e tau) (all eight coefficients)",
               cex=None if oka else dict(difference=str(sp.expand(ac[i] - wa[i]))[:300]), native=None if oka else _native_incr(py))


def _native_incr(py):
    """replay: a body tumbling about three axes at a fixed site: increment-type gyro readings against
    8-point Gauss-Legendre quadrature of the closed-form body rate, at two sampling intervals"""
    w, f, V = spec_w_f()
    rc = {wgs84.CONSTANT_SYMBOLS[k]: v for k, v in dict(A=py.earth.A, E2=py.earth.E2, RATE=py.earth.RATE, GE=py.earth.GE, GP=py.earth.GP, F=py.earth.F).items()}
    motion = {FN["lat"]: sp.rad(55) + 0 * t, FN["lon"]: sp.rad(37) + 0 * t, FN["alt"]: 100 + 0 * t,
              FN["roll"]: 1.0 * sp.sin(3.0 * t), FN["pitch"]: 0.8 * sp.sin(2.3 * t + 1), FN["head"]: 1.5 * sp.sin(2.7 * t + 2)}
    key = "tumble"
    if key not in _SPEC_FN:
        _SPEC_FN[key] = sp.lambdify(t, [x.subs(motion).doit().xreplace(rc) for x in w] + [motion[FN[k_]] for k_ in ("roll", "pitch", "head")], "numpy")
    fn = _SPEC_FN[key]
    xs, ws = np.polynomial.legendre.leggauss(8)
    errs = {}
    for dt in (0.05, 0.025):
        tt = np.arange(0, 4 + dt / 2, dt)
        vals = [np.broadcast_to(v, tt.shape) for v in fn(tt)]
        rph = np.degrees(np.column_stack(vals[3:6]))
        lla = np.tile([55.0, 37.0, 100.0], (len(tt), 1))
        _, imu = py.sim.generate_imu(tt, lla, rph, np.zeros((len(tt), 3)), "increment")
        g = imu[["gyro_x", "gyro_y", "gyro_z"]].values
        worst = 0.0
        for k in range(3, len(tt) - 3):
            nodes = tt[k - 1] + 0.5 * dt * (xs + 1)
            wv = np.column_stack([np.broadcast_to(v, nodes.shape) for v in fn(nodes)[:3]])
            integ = 0.5 * dt * (ws[:, None] * wv).sum(axis=0)
            worst = max(worst, float(np.max(np.abs(g[k] - integ))))
        errs[dt] = worst
    bad = errs[0.05] > 4e-5 or errs[0.025] > 5e-6
    return dict(reproduced=bool(bad), max_gyro_increment_error_rad={str(k): v for k, v in errs.items()},
                criterion="<= 4e-5 rad at 50 ms and <= 5e-6 rad at 25 ms (twice the interpolation error of the unchanged tree, 1.9e-5 / 2.5e-6, for body rates up to ~5 rad/s)")


# ---------------------------------------------------------------------------------------------
def _increment_glue(ctx, py):
    """the arguments handed to _compute_increment_readings, on letter arrays (n = 3 nodes)"""
    SIM = py.sim
    t0 = time.time()
    n = 3
    cap = {}

    class PP:
        def __init__(self, tag, order, dims, nseg):
            self.c = np.empty((order + 1, nseg, dims), dtype=object)
            for k in range(order + 1):
                for s in range(nseg):
                    for d in range(dims):
                        self.c[k, s, d] = RSym(sp.Symbol("%s_c%d_s%d_%d" % (tag, k, s, d), real=True))
            self.tag, self.order = tag, order

        def derivative(self, nu=1):
            return PP(self.tag + "'", self.order - nu, self.c.shape[2], self.c.shape[1])

        def __call__(self, time_, nu=0):
            out = np.empty((n, self.c.shape[2]), dtype=object)
            for i in range(n):
                for d in range(self.c.shape[2]):
                    out[i, d] = RSym(sp.Symbol("%s_val%d_n%d_%d" % (self.tag, nu, i, d), real=True))
            return out

    class RS:
        def __init__(self, time_, rot):
            self.interpolator = PP("rot", 3, 3, n - 1)
            cap["rot_mats"] = rot._m

    def capture(dt, a, b, c, d, e):
        cap.update(dt=dt, a=a, b=b, c=c, d=d, e=e)
        z = np.empty((n - 1, 3), dtype=object)
        for i in range(n - 1):
            for j in range(3):
                z[i, j] = RSym(sp.Symbol("G%d_%d" % (i, j), real=True))
        return z, z.copy()
    from pvx.sym import increasing_stamps
    ts = [RSym(x) for x in increasing_stamps(n)]
    k = 180 / sp.pi
    lla = np.array([[RSym(sp.Symbol("la%d" % i, real=True) * k), RSym(sp.Symbol("lo%d" % i, real=True) * k), RSym(sp.Symbol("al%d" % i, real=True))] for i in range(n)], dtype=object)
    rph = np.array([[RSym(sp.Symbol("%s%d" % (c_, i), real=True) * k) for c_ in ("ro", "pi", "he")] for i in range(n)], dtype=object)
    vel = np.array([[RSym(sp.Symbol("v%d_%d" % (i, j), real=True)) for j in range(3)] for i in range(n)], dtype=object)
    herm = {}

    def hermite(time_, y, dy):
        herm["pp"] = PP("pos", 3, 3, n - 1)
        return herm["pp"]
    with rdomain(py, extra=[(SIM, dict(CubicSpline=lambda *a, **k_: PP("pos", 3, 3, n - 1), CubicHermiteSpline=hermite, RotationSpline=RS, _compute_increment_readings=capture))]):
        traj, imu = SIM.generate_imu(np.array(ts, dtype=object), lla, rph, vel, "increment")
    ok_abc = all(unwrap(cap["a"][s, d]) == sp.Symbol("rot_c2_s%d_%d" % (s, d), real=True) and unwrap(cap["b"][s, d]) == sp.Symbol("rot_c1_s%d_%d" % (s, d), real=True)
                 and unwrap(cap["c"][s, d]) == sp.Symbol("rot_c0_s%d_%d" % (s, d), real=True) for s in range(n - 1) for d in range(3))
    ctx.ob("C03.incr.glue.rotation_coefficients", "c", ok_abc, "symbolic-execution(letters)", time.time() - t0,
           "a, b, c are the linear, quadratic, cubic coefficients of the rotation-vector spline (c[2], c[1], c[0])")
    # dt handed to the series: one interval per row, dt[s] = t[s+1] - t[s] (whatever container shape it comes in)
    try:
        dt_cap = np.broadcast_to(np.asarray(cap["dt"], dtype=object).reshape(-1, 1) if np.ndim(cap["dt"]) else np.asarray(cap["dt"], dtype=object), (n - 1, 1))
        ok_dt = all(sp.expand(sp.sympify(unwrap(dt_cap[s, 0])) - (ts[s + 1].e - ts[s].e)) == 0 for s in range(n - 1))
    except (ValueError, TypeError):
        ok_dt = False
    ctx.ob("C03.incr.glue.dt", "c", ok_dt, "symbolic-execution(letters)", 0.0, "dt = differences of the (irregular, symbolic) time stamps")
    # d = C_ib,k^T (acc.c[1] - g_k), e = C_ib,k^T (acc.c[0] - (g_{k+1} - g_k)/dt): linear in the acceleration coefficients with the right matrices
    okd = True
    for s in range(n - 1):
        Cm = cap["rot_mats"][s]
        for comp, coef in (("d", 1), ("e", 0)):
            vec = sp.Matrix([unwrap(cap[comp][s, j]) for j in range(3)])
            for j in range(3):
                for q in range(3):
                    got = sp.diff(vec[j], sp.Symbol("pos''_c%d_s%d_%d" % (coef, s, q), real=True))
                    if sp.simplify(got - Cm[q, j]) != 0:
                        okd = False
    ctx.ob("C03.incr.glue.force_coefficients", "c", okd, "symbolic-execution(letters)", time.time() - t0,
           "d, e are the constant / linear coefficients of the inertial acceleration spline (second derivative of position, c[1], c[0]) rotated by C_ib(t_k)^T")
    ok_rows = len(imu) == n and len(traj) == n and all(unwrap(imu.iloc[0][c_]) == unwrap(imu.iloc[1][c_]) for c_ in imu.columns)
    ctx.ob("C03.schema.increment.first_sample_duplicated", "c", ok_rows, "symbolic-execution(letters)", 0.0, "n rows; the first increment sample is duplicated")


# ---------------------------------------------------------------------------------------------
def _schema(ctx, py):
    tt = np.arange(0, 2, 0.1)
    lla = np.column_stack([55 + 1e-5 * tt, 37 + 1e-5 * tt, 100 + 0 * tt])
    rph = np.column_stack([0 * tt, 0 * tt, 40 + tt])
    bad = []
    for st in ("rate", "increment"):
        traj, imu = py.sim.generate_imu(tt, lla, rph, None, st)
        if list(traj.columns) != ["lat", "lon", "alt", "VN", "VE", "VD", "roll", "pitch", "heading"] or list(imu.columns) != ["gyro_x", "gyro_y", "gyro_z", "accel_x", "accel_y", "accel_z"]:
            bad.append("columns")
        if len(traj) != len(tt) or len(imu) != len(tt) or traj.index.name != "time" or not np.array_equal(traj.index.values, tt) or not np.array_equal(imu.index.values, tt):
            bad.append("index")
    for st in ("Rate", "", None):
        try:
            py.sim.generate_imu(tt, lla, rph, None, st)
            bad.append("sensor_type %r accepted" % (st,))
        except ValueError:
            pass
    try:
        py.sim.generate_imu(tt, lla[0], rph, None, "rate")
        bad.append("initial position without velocity accepted")
    except ValueError:
        pass
    ctx.ob("C03.schema", "c", not bad, "native-call", 0.0, "n rows indexed by `time`, documented columns, ValueError for unknown sensor type / missing velocity", cex=None if not bad else dict(what=bad))


# ---------------------------------------------------------------------------------------------
_SPEC_FN = {}


def _truth(py):
    """closed-form (w, f) of an analytic motion from the spec ODE"""
    if "f" in _SPEC_FN:
        return _SPEC_FN["f"]
    w, f, V = spec_w_f()
    rc = {wgs84.CONSTANT_SYMBOLS[k]: v for k, v in dict(A=py.earth.A, E2=py.earth.E2, RATE=py.earth.RATE, GE=py.earth.GE, GP=py.earth.GP, F=py.earth.F).items()}
    motion = {FN["lat"]: sp.rad(55) + 2e-5 * sp.sin(0.3 * t), FN["lon"]: sp.rad(37) + 3e-5 * sp.sin(0.2 * t + 1), FN["alt"]: 100 + 5 * sp.sin(0.4 * t),
              FN["roll"]: 0.2 * sp.sin(0.9 * t), FN["pitch"]: 0.15 * sp.sin(0.7 * t + 0.5), FN["head"]: 0.7 + 0.5 * sp.sin(0.5 * t + 1)}
    exprs = [x.subs(motion).doit().xreplace(rc) for x in list(w) + list(f) + list(V)]
    fn = sp.lambdify(t, exprs + [motion[FN[k_]] for k_ in ("lat", "lon", "alt", "roll", "pitch", "head")], "numpy")
    _SPEC_FN["f"] = fn
    return fn


def _native_rate(py):
    fn = _truth(py)
    out = {}
    for dt in (0.1, 0.05):
        tt = np.arange(0, 20 + dt / 2, dt)
        vals = [np.broadcast_to(v, tt.shape) for v in fn(tt)]
        w, f, V = np.column_stack(vals[0:3]), np.column_stack(vals[3:6]), np.column_stack(vals[6:9])
        lla = np.column_stack([np.degrees(vals[9]), np.degrees(vals[10]), vals[11]])
        rph = np.degrees(np.column_stack(vals[12:15]))
        errs = {}
        for form in ("pos+vel", "pos", "initial"):
            if form == "pos+vel":
                traj, imu = py.sim.generate_imu(tt, lla, rph, V, "rate")
            elif form == "pos":
                traj, imu = py.sim.generate_imu(tt, lla, rph, None, "rate")
            else:
                traj, imu = py.sim.generate_imu(tt, lla[0], rph, V, "rate")
            sl = slice(5, -5)
            errs[form] = (float(np.max(np.abs(imu[["gyro_x", "gyro_y", "gyro_z"]].values[sl] - w[sl]))),
                          float(np.max(np.abs(imu[["accel_x", "accel_y", "accel_z"]].values[sl] - f[sl]))),
                          float(np.max(np.abs(traj[["VN", "VE", "VD"]].values[sl] - V[sl]))))
        out[dt] = errs
    bad = []
    for form in out[0.1]:
        g1, a1, v1 = out[0.1][form]
        g2, a2, v2 = out[0.05][form]
        if g2 > 2e-5 or a2 > 1e-3 or v2 > 1e-3:
            bad.append("%s: errors at 50 ms gyro %.2e accel %.2e velocity %.2e" % (form, g2, a2, v2))
        if g2 > 0.5 * g1 + 1e-9 or a2 > 0.5 * a1 + 1e-7:
            bad.append("%s: error does not shrink with the sampling interval (gyro %.2e -> %.2e, accel %.2e -> %.2e)" % (form, g1, g2, a1, a2))
    return dict(reproduced=bool(bad), what=bad, errors={str(k): v for k, v in out.items()})


def _standin(ctx, py):
    t0 = time.time()
    r = _native_rate(py)
    fails = [dict(what=r["what"])] if r["reproduced"] else []
    r2 = _native_incr(py)
    if r2["reproduced"]:
        fails.append(dict(what="increment-type gyro readings vs quadrature of the closed-form body rate: %s" % r2["max_gyro_increment_error_rad"]))
    # strapdown inversion: integrating the synthesised readings reproduces the returned trajectory
    fn = _truth(py)
    dt = 0.05
    tt = np.arange(0, 20 + dt / 2, dt)
    vals = [np.broadcast_to(v, tt.shape) for v in fn(tt)]
    lla = np.column_stack([np.degrees(vals[9]), np.degrees(vals[10]), vals[11]])
    rph = np.degrees(np.column_stack(vals[12:15]))
    for st in ("rate", "increment"):
        traj, imu = py.sim.generate_imu(tt, lla, rph, None, st)
        inc = py.strapdown.compute_increments_from_imu(imu, st)
        res = py.strapdown.Integrator(traj.iloc[0]).integrate(inc)
        d = py.transform.compute_state_difference(res, traj)
        if d[["north", "east", "down"]].abs().max().max() > 0.1 or d[["roll", "pitch", "heading"]].abs().max().max() > 0.02:
            fails.append(dict(what="strapdown integration of the %s readings drifts from the returned trajectory: %s" % (st, d.abs().max().round(5).to_dict())))
    ctx.standin("C03.rt", "one analytic 3-axis motion (sinusoidal position, altitude and attitude; 20 s), real scipy splines: three input forms vs the closed-form (w, f, V) of the spec ODE at 100 and 50 ms (error small and at least halved), increment readings vs quadrature of rate readings, strapdown inversion for both sensor types",
                10, fails, time_s=time.time() - t0)


def _fixed_point_standin(ctx, py):
    """Bounded stand-in for the exit condition of the latitude fixed-point loop (initial position + velocity form): the
    loop may stop early only when EVERY sample has converged.  Post-condition checked on the real function with the real
    splines: the returned latitude is a fixed point of the iteration map lat -> lat0 + int VN / (M(lat) + h) to well below
    the loop's own accuracy (1 cm), at every sample -- on open trajectories and on out-and-back ones, where the last
    sample is back at the start while the middle of the record is kilometres away."""
    from scipy.interpolate import CubicSpline
    t0 = time.time()
    fails = []
    cases = []
    tt = np.arange(0.0, 400.0 + 0.25, 0.5)
    for lat0 in (35.0, -35.0, 70.0):
        for amp, kind in ((60.0, "out-and-back"), (40.0, "open"), (0.0, "at rest")):
            if kind == "out-and-back":
                VN = amp * np.sin(2 * np.pi * tt / tt[-1])          # returns to the starting latitude at the last sample
            elif kind == "open":
                VN = amp * (1 + 0.3 * np.sin(2 * np.pi * tt / 120.0))
            else:
                VN = np.zeros_like(tt)
            VE = 20.0 * np.cos(2 * np.pi * tt / 200.0)
            VD = 2.0 * np.sin(2 * np.pi * tt / 100.0)
            cases.append((lat0, kind, np.column_stack([VN, VE, VD])))
    for lat0, kind, vel in cases:
        rph = np.zeros((len(tt), 3))
        traj, _ = py.sim.generate_imu(tt, [lat0, 10.0, 500.0], rph, vel, "rate")
        lat = traj["lat"].values
        alt = traj["alt"].values
        rn = py.earth.principal_radii(lat, alt)[0]
        lat_map = np.deg2rad(lat0) + CubicSpline(tt, vel[:, 0] / rn).antiderivative()(tt)
        resid = np.abs(np.deg2rad(lat) - lat_map) * rn
        if not np.all(resid < 0.005):
            k = int(np.argmax(resid))
            fails.append(dict(initial_latitude=lat0, trajectory=kind, worst_sample=k, time=float(tt[k]),
                              fixed_point_residual_m=float(resid[k]), residual_at_last_sample_m=float(resid[-1]),
                              note="the latitude returned is not consistent with the velocity it is returned with"))
    ctx.standin("C03.rt.initial_form_fixed_point", "%d trajectories (3 latitudes x out-and-back / open / at rest, 400 s at 2 Hz), initial position + velocity form: "
                "returned latitude is a fixed point of the kinematic iteration within 5 mm at every sample" % len(cases), len(cases), fails, time_s=time.time() - t0)


def replay(obligation, cex):
    py = load()
    if "incr" in obligation:
        return _native_incr(py)
    return _native_rate(py)
