"""C08 -- Discretised process matrices are the exact transition and noise integral."""
import time
from fractions import Fraction

import numpy as np
import z3

from pvx.harness import Ob
from pvx.loader import load
from pvx.npproxy import patched
from pvx.sym import explore, decide, Concretization
from pvx.words import WCtx, W, Dim, identity, ShapeError, BlockRec, Scalar, wctx
from props.C07 import KNp, w_len, USc

MANIFEST = dict(
    category="proof",
    technique="the real compute_process_matrices and _compute_error_propagation_matrices executed on matrix letters with symbolic sizes; np.zeros returns a recording block matrix whose slice assignments (z3 integer bounds) are compared with Van Loan's block layout and the joint model's block layout; scipy expm replaced by its contract; Van Loan's theorem assumed; quadrature / composition run-time stand-in; Bounded stand-ins shared by all properties (labelled bounded, never counted as proved): the argument-form battery of the modules under contract (batches of 1 and 1200 rows, integer-typed values, labels / columns in other orders, extra labels); where the frame analysis finds state that outlives a call (a cache, a memo) the frame obligation becomes a dynamic purity contract against pristine process states; names the proofs replace by scipy contracts are checked to be bound to the library's functions (else a differential test).",
    text="For ALL state dimensions: the matrix handed to expm is exactly [[F, Q], [0, -F^T]] * dt (block placement proved from the recorded slice bounds for every n), and the results are E11 and E12 E11^T of E = expm(.), on every path of the function (a data-dependent shortcut forks the run and must satisfy the same contract); no allocation takes its dtype from an argument. By Van Loan's theorem (assumed) E11 = exp(F dt) and E12 E11^T is the integral of the propagated noise density, from which symmetry, positive semidefiniteness, zero for a zero step and the composition law follow. For the joint model all state and noise slices are proved to be the contiguous partition of [0, n_states) / [0, n_noises) for ALL sub-model sizes, with F = [[F_ii, F_ig H_g, F_ia H_a],[0,F_g,0],[0,0,F_a]], G and q = (v_g, v_a, q_g, q_a) squared placed in the same slice order. Exactness of expm itself and composition in floating point are covered by the bounded stand-in only.",
    note="A1; Van Loan (1978) theorem and the semigroup law of the matrix exponential are assumed; scipy expm contract assumed (stand-in compares with quadrature); recorded block matrices assume numpy basic-slice assignment semantics.",
)
LEVEL = "proof"
LEVEL_NOTE = MANIFEST["text"]


class ExpmRes:
    """expm(BlockRec) by contract: a 2x2 block matrix of letters E11 E12 / E21 E22 split at n"""

    def __init__(self, c, n, log):
        self.c, self.n, self.log = c, n, log
        self.E = {(0, 0): c.letter("E11", n, n), (0, 1): c.letter("E12", n, n), (1, 0): c.letter("E21", n, n), (1, 1): c.letter("E22", n, n)}

    def __getitem__(self, key):
        r, cs = key
        n, c = self.n, self.c

        def which(sl):
            lo = sl.start if sl.start is not None else Dim(0)
            hi = sl.stop if sl.stop is not None else n * 2
            lo = lo if isinstance(lo, Dim) else Dim(int(lo))
            hi = hi if isinstance(hi, Dim) else Dim(int(hi))
            if lo.same(Dim(0), c) and hi.same(n, c):
                return 0
            if lo.same(n, c) and hi.same(n * 2, c):
                return 1
            raise Concretization("slice [%s:%s] is not a block of the 2n x 2n exponential" % (lo, hi))
        return self.E[(which(r), which(cs))]


def vanloan_run(py, log):
    c = WCtx()
    n = Dim("n")
    c.dim_assumptions = [n.v >= 1]
    F = c.letter("F", n, n)
    Q = c.letter("Q", n, n, symmetric=True)
    dt = Scalar("dt")
    st = {}

    def expm(A):
        st["arg"] = A
        st["res"] = ExpmRes(c, n, log)
        return st["res"]
    K = py.kalman
    with patched((K, dict(np=KNp(log), len=w_len, expm=expm))):
        res = K.compute_process_matrices(F, Q, dt)
    return c, n, F, Q, st, res


def run(ctx):
    py = load()
    ctx.under_contract("pyins.kalman.compute_process_matrices", "pyins.filters._compute_error_propagation_matrices")
    ctx.trust("scipy.linalg.expm computes the matrix exponential (assumed; stand-in compares with quadrature)", "Van Loan 1978, Theorem 1 (assumed)",
              "z3 (slice bounds / conformability)", "pvx/words.py")
    ctx.assume("Van Loan: E = expm([[F,Q],[0,-F^T]] dt) has E11 = e^{F dt} and E12 E11^T = int_0^dt e^{Fs} Q e^{F^T s} ds",
               "semigroup law of expm => transitions multiply and noise matrices accumulate through later transitions",
               "the integral of a PSD integrand is PSD (limit of sums of congruences)")
    from props import helpers as _helpers_psd
    ctx.guard(_helpers_psd.lean_psd, ctx, "C08", ['Pvx.congr_psd', 'Pvx.sum_psd', 'Pvx.composed_noise_psd', 'Pvx.predict_psd'])
    ctx.guard(_helpers_psd.lean_kalman, ctx, "C08", ['Pvx.vanloan_composition'])
    # a construct of the Van Loan function that the W domain does not interpret is an engine limit OF THIS SECTION: the
    # other sections (composition lemma, joint model, the float64 stand-in, frames) still run and carry their own verdicts
    ctx.guard(_vanloan, ctx, py)
    ctx.guard(_composition_lemma, ctx)
    ctx.guard(_joint, ctx, py)
    ctx.guard(_standin, ctx, py)

    # the joint model is assembled from the sensor models' layout (C14's contract), re-established here on a few masks
    from props import C14 as _C14
    ctx.guard(_C14.layout_subset, ctx, py, "C08")
    # frame of the modules under contract (no state kept between calls, arguments left alone): same analysis as C19
    from props import C19 as _C19
    ctx.guard(_C19.frame_obligations, ctx, py, "C08", {'kalman', 'util', 'filters'})


def _vanloan(ctx, py):
    t0 = time.time()

    def body():
        log = []
        try:
            c, n, F, Q, st, res = vanloan_run(py, log)
        except ShapeError as exc:
            return dict(error=str(exc), log=log)
        out = dict(log=log, error=None)
        A = st.get("arg")
        out["expm_called"] = isinstance(A, BlockRec)
        if isinstance(A, BlockRec):
            z_, two = Dim(0), n * 2
            want = {("F", 0, 0): (z_, n, z_, n), ("Q", 0, 1): (z_, n, n, two), ("-F'", 1, 1): (n, two, n, two)}
            found = {}
            for (r0, r1, c0, c1, val) in A.blocks:
                for key, (a0, a1, b0, b1) in want.items():
                    if r0.same(a0, c) and r1.same(a1, c) and c0.same(b0, c) and c1.same(b1, c):
                        found[key[0]] = val
            out["blocks"] = (len(A.blocks) == 3 and set(found) == {"F", "Q", "-F'"} and isinstance(found.get("F"), W) and found["F"].equals(F)
                             and found["Q"].equals(Q) and found["-F'"].equals(-F.T) and A.kind == "zeros"
                             and A.rows.same(two, c) and A.cols.same(two, c))
            out["factor"] = A.factor == "dt"
            if not (out["blocks"] and out["factor"]) and A.factor is None and set(found) == {"F", "Q", "-F'"} and all(isinstance(v_, W) for v_ in found.values()):
                # the same argument with the step multiplied into the blocks: [[F dt, Q dt], [0, -(F dt)^T]]
                dts = Scalar("dt")
                pre = found["F"].equals(dts * F) and found["Q"].equals(dts * Q) and (found["-F'"].equals(-(dts * F).T) or found["-F'"].equals(dts * (-F.T)))
                if pre and len(A.blocks) == 3 and A.kind == "zeros" and A.rows.same(two, c) and A.cols.same(two, c):
                    out["blocks"] = out["factor"] = True
                    out["prescaled"] = True
            if getattr(A, "read_back", False) and not (out["blocks"] and out["factor"]):
                raise Concretization("blocks of the exponential's argument are built from one another in a way the W domain does not normalise")
            out["blocks_text"] = [(str(r0.v), str(r1.v), str(c0.v), str(c1.v), v.show() if isinstance(v, W) else repr(v)) for (r0, r1, c0, c1, v) in A.blocks]
        E = st.get("res")
        if E is not None and isinstance(res, tuple) and len(res) == 2 and all(isinstance(r_, W) for r_ in res):
            out["phi"] = res[0].equals(E.E[(0, 0)])
            out["qd"] = res[1].equals(E.E[(0, 1)] @ E.E[(0, 0)].T)
            out["res_text"] = [res[0].show(), res[1].show()]
        else:
            from props.C07 import USc as _USc
            if isinstance(res, tuple) and any(isinstance(r_, _USc) for r_ in res):
                # the result is computed with a numpy function the W domain does not interpret: not a verdict on the code
                raise Concretization("result computed by an uninterpreted numpy function: %s" % [getattr(r_, "name", None) for r_ in res])
            out["phi"] = out["qd"] = False
            out["res_text"] = [getattr(r_, "show", lambda: repr(r_))() for r_ in (res if isinstance(res, tuple) else (res,))]
        return out
    paths = explore(body, max_paths=16)
    ctx.paths += len(paths)
    for k, (pa, o) in enumerate(paths):
        sfx = "" if len(paths) == 1 else ".path%d" % k
        pc = "" if len(paths) == 1 else " | path condition: %s" % [("%s is %s" % (c_, d_)) for c_, d_ in pa.conds]
        if o.get("error"):
            ctx.ob("C08.vanloan.shapes" + sfx, "c", False, "z3(conformability)", 0.0, o["error"] + pc, cex=dict(error=o["error"]), native=_native(py))
            continue
        okb = bool(o.get("expm_called") and o.get("blocks") and o.get("factor"))
        ctx.ob("C08.vanloan.construction" + sfx, "e", okb, "recorded-blocks+z3", time.time() - t0,
               "argument of expm is [[F, Q],[0, -F^T]] * dt for every n: %s, factor dt: %s" % (o.get("blocks_text"), o.get("factor")) + pc,
               cex=None if okb else dict(blocks=o.get("blocks_text"), expm_called=o.get("expm_called")), native=None if okb else _native(py))
        okr = bool(o["phi"] and o["qd"])
        ctx.ob("C08.vanloan.results" + sfx, "e", okr, "word-nf", time.time() - t0,
               "returns (E11, E12 E11^T) of E = expm(.): %s" % o["res_text"] + pc, cex=None if okr else dict(returned=o["res_text"], path=[str(c_) for c_, _ in pa.conds]),
               native=None if okr else _native(py))
        dty = [x for x in o["log"] if x[0] == "alloc_dtype_from_argument"]
        ctx.ob("C08.vanloan.alloc_dtype" + sfx, "f", not dty, "stub-log", 0.0, "work matrix allocated as float64 independently of the arguments' dtypes" + pc,
               cex=None if not dty else dict(allocation=dty), native=None if not dty else _native_dtype(py))


def _composition_lemma(ctx):
    """Lemma over the contract of compute_process_matrices: from the semigroup law of expm for the block-triangular Van Loan
    matrix (assumed) and E22 = E11^-T (lower-right block is exp(-F^T dt)), the returned pair composes:
    Phi(s+t) = Phi(t) Phi(s),  Qd(s+t) = Phi(t) Qd(s) Phi(t)^T + Qd(t)."""
    t0 = time.time()
    c = WCtx()
    n = Dim("n")
    c.dim_assumptions = [n.v >= 1]
    L = {}
    for tag in ("s", "t"):
        for b in ("E11", "E12", "E22"):
            L[b + tag] = c.letter(b + tag, n, n)
        # E22 = E11^-T
        c.add_rule(L["E22" + tag] @ L["E11" + tag].T, identity(n))
        c.add_rule(L["E11" + tag].T @ L["E22" + tag], identity(n))
    # blocks of E(t) E(s) (upper block-triangular product)
    E11 = L["E11t"] @ L["E11s"]
    E12 = L["E11t"] @ L["E12s"] + L["E12t"] @ L["E22s"]
    phi = lambda tag: L["E11" + tag]
    qd = lambda tag: L["E12" + tag] @ L["E11" + tag].T
    ok_phi = E11.equals(phi("t") @ phi("s"))
    ok_qd = (E12 @ E11.T).equals(phi("t") @ qd("s") @ phi("t").T + qd("t"))
    ctx.ob("C08.composition.lemma", "e", ok_phi and ok_qd, "word-nf", time.time() - t0,
           "with E(s+t) = E(t) E(s) (semigroup, assumed) and E22 = E11^-T: the results (E11, E12 E11^T) satisfy Phi(s+t) = Phi(t) Phi(s) and Qd(s+t) = Phi(t) Qd(s) Phi(t)^T + Qd(t) for all sizes")


# -----------------------------------------------------------------------------------------------
class ConcatVec:
    def __init__(self, parts, squared=False):
        self.parts, self.squared = parts, squared

    def __pow__(self, k):
        if k == 2:
            return ConcatVec(self.parts, True)
        raise Concretization("q ** %r" % (k,))

    def __rmul__(self, other):
        """G * q: the columns of G scaled by the noise intensities = G diag(q); diag(q) diag(q) = diag(q^2) (the letter Dq)"""
        if self.squared:
            raise Concretization("G * q**2")
        c = wctx()
        tot = Dim(0)
        for p_ in self.parts:
            tot = tot + p_.rows
        S = c.letter("Sq", tot, tot, symmetric=True)
        Dq = c.letter("Dq", tot, tot, symmetric=True)
        c.add_rule(S @ S, Dq)
        c.log.append(("diag", ConcatVec(self.parts, True)))
        return other @ S


class JNp(KNp):
    def hstack(self, seq):
        return ConcatVec(list(seq))

    def diag(self, v):
        if isinstance(v, ConcatVec):
            c = wctx()
            tot = Dim(0)
            for p_ in v.parts:
                tot = tot + p_.rows
            Dq = c.letter("Dq", tot, tot, symmetric=True)
            c.log.append(("diag", v))
            return Dq
        raise Concretization("np.diag of %r" % (v,))


class FrozenBlock(W):
    pass


def joint_run(py):
    """_compute_error_propagation_matrices with symbolic sub-model sizes"""
    c = WCtx()
    ni, ng, na, vg, va, qg, qa = (Dim(s) for s in ("ni", "ng", "na", "nvg", "nva", "nqg", "nqa"))
    c.dim_assumptions = [d.v >= 0 for d in (ng, na, vg, va, qg, qa)] + [ni.v >= 1]
    three, one = Dim(3), Dim(1)
    Fii, Fig, Fia = c.letter("Fii", ni, ni), c.letter("Fig", ni, three), c.letter("Fia", ni, three)

    class EM:
        n_states = ni

        def system_matrices(self, pva):
            return Fii, Fig, Fia

    class Model:
        def __init__(self, t, n, nq, nv):
            self.n_states, self.n_noises, self.n_output_noises = n, nq, nv
            self.F = c.letter("F" + t, n, n)
            self.G = c.letter("G" + t, n, nq)
            self.J = c.letter("J" + t, three, nv)
            self.Hm = c.letter("H" + t, three, n)
            self.v = c.letter("v" + t, nv, one)
            self.q = c.letter("q" + t, nq, one)

        def output_matrix(self, readings=None):
            return self.Hm
    gm, am = Model("g", ng, qg, vg), Model("a", na, qa, va)
    cap = {}

    class KStub:
        @staticmethod
        def compute_process_matrices(F, Q, dt):
            cap.update(F=F, Q=Q, dt=dt)
            return ("Phi", "Qd")
    F_ = py.filters
    frozen = {}
    orig_matmul = BlockRec.__dict__.get("__matmul__")

    def freeze(b, name):
        if id(b) not in frozen:
            frozen[id(b)] = (c.letter(name, b.rows, b.cols), b)
        return frozen[id(b)][0]
    BlockRec.__matmul__ = lambda self, o: freeze(self, "Gm") @ o
    BlockRec.transpose = lambda self: freeze(self, "Gm").T
    BlockRec.T = property(lambda self: freeze(self, "Gm").T)
    try:
        with patched((F_, dict(np=JNp([]), kalman=KStub, len=w_len))):
            out = F_._compute_error_propagation_matrices("pva", "gyro", "accel", Scalar("dt"), EM(), gm, am)
    finally:
        if orig_matmul is None:
            del BlockRec.__matmul__
        del BlockRec.transpose
        del BlockRec.T
    return dict(c=c, dims=(ni, ng, na, vg, va, qg, qa), letters=(Fii, Fig, Fia), gm=gm, am=am, cap=cap, frozen=frozen, out=out)


def _joint(ctx, py):
    t0 = time.time()
    try:
        r = joint_run(py)
    except (ShapeError, Concretization) as exc:
        ctx.ob("C08.joint.executes", "c", False, "symbolic-execution", time.time() - t0, "joint model construction failed: %r" % (exc,),
               cex=dict(error=repr(exc)), native=_native_joint(py))
        return
    c = r["c"]
    ni, ng, na, vg, va, qg, qa = r["dims"]
    Fii, Fig, Fia = r["letters"]
    gm, am = r["gm"], r["am"]
    Fm = r["cap"].get("F")
    n = ni + ng + na
    z_ = Dim(0)
    rows = dict(ins=(z_, ni), gyro=(ni, ni + ng), accel=(ni + ng, n))
    cols_n = dict(gv=(z_, vg), av=(vg, vg + va), gq=(vg + va, vg + va + qg), aq=(vg + va + qg, vg + va + qg + qa))

    def match(blocks, spec, rowmap, colmap):
        """each spec entry (rowkey, colkey) -> expected W; every recorded block must be one of them, all present"""
        got = {}
        for (r0, r1, c0, c1, val) in blocks:
            hit = None
            for (rk, ck), want in spec.items():
                a0, a1 = rowmap[rk]
                b0, b1 = colmap[ck]
                if r0.same(a0, c) and r1.same(a1, c) and c0.same(b0, c) and c1.same(b1, c):
                    hit = (rk, ck)
            if hit is None or not isinstance(val, W) or not val.equals(spec[hit]):
                return False, "block rows[%s:%s] cols[%s:%s] = %s is not in the specified layout" % (r0.v, r1.v, c0.v, c1.v, val.show() if isinstance(val, W) else val)
            got[hit] = True
        if set(got) != set(spec):
            return False, "missing blocks %s" % sorted(set(spec) - set(got))
        return True, "%d blocks" % len(got)
    okF, dF = (False, "F is not a recorded zero matrix")
    if isinstance(Fm, BlockRec) and Fm.kind == "zeros" and Fm.rows.same(n, c) and Fm.cols.same(n, c):
        specF = {("ins", "ins"): Fii, ("ins", "gyro"): Fig @ gm.Hm, ("ins", "accel"): Fia @ am.Hm, ("gyro", "gyro"): gm.F, ("accel", "accel"): am.F}
        okF, dF = match(Fm.blocks, specF, rows, rows)
    ctx.ob("C08.joint.F_blocks", "c", okF, "recorded-blocks+z3", time.time() - t0,
           "F = [[F_ii, F_ig H_g, F_ia H_a],[0, F_g, 0],[0, 0, F_a]] on the contiguous partition ins|gyro|accel of [0, n_states) for all sub-model sizes: " + dF,
           cex=None if okF else dict(detail=dF), native=None if okF else _native_joint(py))
    fr = list(r["frozen"].values())
    okG, dG = (False, "G not found")
    if len(fr) == 1:
        Gl, Gb = fr[0]
        ntot = vg + va + qg + qa
        if Gb.kind == "zeros" and Gb.rows.same(n, c) and Gb.cols.same(ntot, c):
            specG = {("ins", "gv"): Fig @ gm.J, ("ins", "av"): Fia @ am.J, ("gyro", "gq"): gm.G, ("accel", "aq"): am.G}
            okG, dG = match(Gb.blocks, specG, rows, cols_n)
    ctx.ob("C08.joint.G_blocks", "c", okG, "recorded-blocks+z3", time.time() - t0,
           "G carries F_ig J_g, F_ia J_a, G_g, G_a in the noise slices (gyro output, accel output, gyro driving, accel driving) partitioning [0, n_noises): " + dG,
           cex=None if okG else dict(detail=dG), native=None if okG else _native_joint(py))
    diags = [v for (k_, v) in c.log if k_ == "diag"]
    okq = (len(diags) == 1 and diags[0].squared and [p_ is q_ for p_, q_ in zip(diags[0].parts, (gm.v, am.v, gm.q, am.q))] == [True] * 4 and len(diags[0].parts) == 4)
    ctx.ob("C08.joint.noise_order_and_square", "c", okq, "stub-log", 0.0,
           "Q = G diag(q^2) G^T with q = (v_gyro, v_accel, q_gyro, q_accel) in the order of the noise slices, intensities squared",
           cex=None if okq else dict(parts=len(diags[0].parts) if diags else None, squared=diags[0].squared if diags else None), native=None if okq else _native_joint(py))
    Qm = r["cap"].get("Q")
    okQ = False
    if len(fr) == 1 and isinstance(Qm, W):
        Gl = fr[0][0]
        Dq = W({(("Dq", False),): 1}, Gl.cols, Gl.cols)
        okQ = Qm.equals(Gl @ Dq @ Gl.T)
    ctx.ob("C08.joint.Q_is_G_Dq_Gt", "e", okQ, "word-nf", 0.0, "the noise density handed to compute_process_matrices is G diag(q^2) G^T, time step = time_delta",
           cex=None if okQ else dict(Q=Qm.show() if isinstance(Qm, W) else repr(Qm)), native=None if okQ else _native_joint(py))
    ok_ret = r["out"] == ("Phi", "Qd") and isinstance(r["cap"].get("dt"), Scalar)
    ctx.ob("C08.joint.returns_process_matrices", "c", ok_ret, "stub-log", 0.0, "returns kalman.compute_process_matrices(F, Q, time_delta) unchanged")


# -----------------------------------------------------------------------------------------------
def _quadrature(F, Q, dt, order=40):
    from scipy.linalg import expm
    xs, ws = np.polynomial.legendre.leggauss(order)
    s = 0.5 * dt * (xs + 1)
    w = 0.5 * dt * ws
    Qd = np.zeros_like(Q, dtype=float)
    for si, wi in zip(s, w):
        E = expm(np.asarray(F, dtype=float) * si)
        Qd += wi * E @ Q @ E.T
    return expm(np.asarray(F, dtype=float) * dt), Qd


def _cases(rng, n_cases, nmax):
    out = []
    for k in range(n_cases):
        n = int(rng.randint(1, nmax + 1))
        kind = ["stable", "unstable", "nilpotent", "zero", "slow", "integer"][k % 6]
        if kind == "stable":
            F = rng.randn(n, n) - 2 * np.eye(n)
        elif kind == "unstable":
            F = rng.randn(n, n) * 0.5 + 0.3 * np.eye(n)
        elif kind == "nilpotent":
            F = np.triu(rng.randn(n, n), 1)
        elif kind == "zero":
            F = np.zeros((n, n))
        elif kind == "slow":
            F = rng.randn(n, n) * 1e-4
        else:
            F = np.eye(n, k=1, dtype=int) if n > 1 else np.zeros((1, 1), dtype=int)
        B = rng.randn(n, max(1, n - (k % 2)))
        Q = B @ B.T * 10 ** rng.uniform(-3, 1)
        dt = float([0.0, 0.01, 0.1, 0.5, 1.0, 3.0, 10.0][rng.randint(0, 7)])
        if kind == "unstable":
            dt = min(dt, 1.0)
        out.append((kind, F, Q, dt))
    return out


def _check_case(py, kind, F, Q, dt, rng):
    Phi, Qd = py.kalman.compute_process_matrices(F, Q, dt)
    rPhi, rQd = _quadrature(F, Q, dt)
    from scipy.linalg import expm as _expm
    # float64 evaluation of Van Loan's formula loses eps * |expm(-F^T dt)| * |E11| relative digits: tolerance follows that bound
    kappa = np.linalg.norm(_expm(-np.asarray(F, dtype=float).T * dt), 2) * np.linalg.norm(rPhi, 2)
    sc = (1 + np.max(np.abs(rQd))) * max(1.0, kappa * 1e-6)
    if np.max(np.abs(Phi - rPhi)) > 1e-10 * (1 + np.max(np.abs(rPhi))):
        return "transition differs from expm(F dt) by %.2e" % np.max(np.abs(Phi - rPhi))
    if np.max(np.abs(Qd - rQd)) > 1e-8 * sc:
        return "noise matrix differs from the quadrature of the integral by %.2e (scale %.2e)" % (np.max(np.abs(Qd - rQd)), sc)
    if np.max(np.abs(Qd - Qd.T)) > 1e-10 * sc or np.min(np.linalg.eigvalsh(0.5 * (Qd + Qd.T))) < -1e-10 * sc:
        return "noise matrix not symmetric PSD"
    if dt == 0 and (np.max(np.abs(Qd)) != 0 or not np.array_equal(Phi, np.eye(len(F)))):
        return "zero step does not give (I, 0)"
    # composition over a random partition
    if dt > 0:
        k = int(rng.randint(1, 9))
        cuts = np.sort(rng.uniform(0, dt, k - 1))
        parts = np.diff(np.concatenate([[0], cuts, [dt]]))
        Pc, Qc = np.eye(len(F)), np.zeros_like(rQd)
        for h in parts:
            Ph, Qh = py.kalman.compute_process_matrices(F, Q, float(h))
            Pc, Qc = Ph @ Pc, Ph @ Qc @ Ph.T + Qh
        if np.max(np.abs(Pc - Phi)) > 1e-9 * (1 + np.max(np.abs(Phi))) or np.max(np.abs(Qc - Qd)) > 1e-8 * sc:
            return "partition into %d sub-steps does not compose: dPhi %.2e dQd %.2e" % (k, np.max(np.abs(Pc - Phi)), np.max(np.abs(Qc - Qd)))
    return None


def _native(py):
    rng = np.random.RandomState(0)
    bad = []
    for kind, F, Q, dt in _cases(rng, 36, 5):
        r = _check_case(py, kind, F, Q, dt, rng)
        if r:
            bad.append(dict(kind=kind, n=len(F), dt=dt, what=r))
    return dict(reproduced=bool(bad), failures=bad[:3])


def _native_dtype(py):
    F = np.array([[0, 1], [0, 0]])
    Q = np.diag([0.5, 0.3])
    a = py.kalman.compute_process_matrices(F, Q, 2.0)
    b = py.kalman.compute_process_matrices(F.astype(float), Q, 2.0)
    return dict(reproduced=not (np.allclose(a[0], b[0]) and np.allclose(a[1], b[1])), integer_F_result=a[1].tolist(), float_F_result=b[1].tolist())


def _native_joint(py):
    """replay: joint matrices of two concrete models against an independent dense construction"""
    IS, EMm = py.inertial_sensor, py.error_model
    import pandas as pd
    gm = IS.EstimationModel(bias_sd=[1e-4, 0, 2e-4], noise=[1e-3, 2e-3, 0], bias_walk=[1e-5, 0, 0], scale_misal_sd=np.diag([1e-3, 0, 2e-3]))
    am = IS.EstimationModel(bias_sd=1e-2, noise=1e-2, bias_walk=[0, 1e-4, 2e-4])
    em = EMm.InsErrorModel()
    pva = pd.Series([50.0, 30.0, 100.0, 3.0, -2.0, 0.5, 1.0, -2.0, 40.0], index=["lat", "lon", "alt", "VN", "VE", "VD", "roll", "pitch", "heading"])
    gyro, accel = np.array([0.01, -0.02, 0.03]), np.array([0.1, 0.2, -9.8])
    dt = 0.7
    Phi, Qd = py.filters._compute_error_propagation_matrices(pva, gyro, accel, dt, em, gm, am)
    Fii, Fig, Fia = em.system_matrices(pva)
    ni, ng, na = 9, gm.n_states, am.n_states
    n = ni + ng + na
    F = np.zeros((n, n))
    F[:ni, :ni] = Fii
    F[:ni, ni:ni + ng] = Fig @ gm.output_matrix(gyro)
    F[:ni, ni + ng:] = Fia @ am.output_matrix(accel)
    cols = [Fig @ gm.J * gm.v, Fia @ am.J * am.v]
    G = np.zeros((n, gm.n_output_noises + am.n_output_noises + gm.n_noises + am.n_noises))
    k = 0
    for blk in cols:
        G[:ni, k:k + blk.shape[1]] = blk
        k += blk.shape[1]
    G[ni:ni + ng, k:k + gm.n_noises] = gm.G * gm.q
    k += gm.n_noises
    G[ni + ng:, k:] = am.G * am.q
    rPhi, rQd = _quadrature(F, G @ G.T, dt)
    bad = np.max(np.abs(Phi - rPhi)) > 1e-9 or np.max(np.abs(Qd - rQd)) > 1e-9 * (1 + np.max(np.abs(rQd)))
    return dict(reproduced=bool(bad), dPhi=float(np.max(np.abs(Phi - rPhi))), dQd=float(np.max(np.abs(Qd - rQd))))


def _standin(ctx, py):
    t0 = time.time()
    rng = np.random.RandomState(ctx.seed)
    n_cases = 60 if ctx.tier == "quick" else 600
    fails = []
    for kind, F, Q, dt in _cases(rng, n_cases, 8 if ctx.tier == "quick" else 24):
        r = _check_case(py, kind, F, Q, dt, rng)
        if r:
            fails.append(dict(kind=kind, n=int(len(F)), dt=dt, what=r))
    r = _native_joint(py)
    if r["reproduced"]:
        fails.append(dict(kind="joint model", what=r))
    # storage dtype of the arguments: the matrices are VALUES; stored as float32 / float16 / small integers they give what the
    # same values stored as float64 give (the work matrix is float64), for integer, dyadic and other steps
    n_dt = 0
    for dtp in (np.float32, np.float16, np.int8, np.int16, np.int32):
        for dt in (0.3, 7, 20, 0.5, np.float32(0.1)):
            n_ = int(rng.randint(1, 5))
            if np.dtype(dtp).kind == "i":
                F = rng.randint(-7, 8, (n_, n_)).astype(dtp)
                F = np.triu(F, 1)                                  # nilpotent: no overflow of the exponential itself
                Qh = rng.randint(-3, 4, (n_, n_))
                Q = (Qh @ Qh.T).astype(dtp)
            else:
                F = (0.3 * rng.randn(n_, n_)).astype(dtp)
                Qh = rng.randn(n_, n_)
                Q = (Qh @ Qh.T).astype(dtp)
            n_dt += 1
            try:
                a = py.kalman.compute_process_matrices(F, Q, dt)
                b = py.kalman.compute_process_matrices(F.astype(float), Q.astype(float), float(dt))
                dev = max(float(np.max(np.abs(np.asarray(x, dtype=float) - np.asarray(y, dtype=float))) / (1.0 + float(np.max(np.abs(y))))) for x, y in zip(a, b))
            except Exception as exc:
                fails.append(dict(kind="storage dtype", dtype=str(np.dtype(dtp)), dt=repr(dt), raised=repr(exc)[:200]))
                continue
            if not dev <= 1e-12:
                fails.append(dict(kind="storage dtype", dtype=str(np.dtype(dtp)), dt=repr(dt), F=F.tolist(), Q=Q.tolist(),
                                  relative_deviation_from_float64_storage=dev))
    ctx.standin("C08.rt", "%d seeded cases n<=%d: stable / unstable / nilpotent / zero / slow (|F dt| ~ 1e-4) / integer-dtype F, singular Q, dt in {0,...,10}: agreement with expm and 40-point Gauss-Legendre quadrature of the integral, symmetric PSD, zero step, composition over random partitions into 1..8 sub-steps; joint model against an independent dense construction; %d storage-dtype cases (float32 / float16 / int8 / int16 / int32 x 5 steps) against float64 storage"
                % (n_cases, 8 if ctx.tier == "quick" else 24, n_dt), n_cases + 1 + n_dt, fails, time_s=time.time() - t0)


def replay(obligation, cex):
    py = load()
    if "joint" in obligation:
        return _native_joint(py)
    if "dtype" in obligation:
        return _native_dtype(py)
    return _native(py)
