"""C19 -- Public functions are pure, deterministic and keep the documented schema."""
import ast
import os
import json
import copy
import inspect
import textwrap
import time

import numpy as np
import pandas as pd

from pvx import frame
from pvx.harness import Ob
from pvx.loader import load, source_of, MODULES

MANIFEST = dict(
    category="proof",
    technique="frame / ownership obligations from a flow-sensitive freshness analysis over the real AST of all ten modules (one obligation per in-place mutation site; private helpers are summarised and charged to their callers, so extracting or inlining a helper does not change a verdict; stores on self outside the documented state writers are reported as undecided, not as violations), the bound check_random_state must seed every integer type alike, static scan of determinism sources and of the table schemas at the return sites; run-time frame / call-twice / reordered-call / argument-form contract on the real functions as bounded stand-in (including: the caller owns what a call returns -- overwriting a result in place must not change what the next call with equal inputs returns; single-point forms of the leaf functions); a memoising decorator counts as state that outlives a call; Bounded stand-ins shared by all properties (labelled bounded, never counted as proved): the argument-form battery of the modules under contract (batches of 1 and 1200 rows, integer-typed values, labels / columns in other orders, extra labels); where the frame analysis finds state that outlives a call (a cache, a memo) the frame obligation becomes a dynamic purity contract against pristine process states; names the proofs replace by scipy contracts are checked to be bound to the library's functions (else a differential test).",
    text="For every function and method of the ten modules, each in-place mutation site found in the AST (item / attribute stores, augmented assignments, mutating method calls, out=, overwrite_*=, inplace=) is an obligation that its target is fresh -- allocated in that call and neither an alias / view of a parameter nor module- or class-level state -- or the object's own documented state (Integrator buffers, EstimationModel.transform/bias via reset/update, Parameters.data_frame/rng, Turntable script); no function reads the global numpy RNG, the clock, the environment or iterates a set, and every random draw flows from check_random_state(rng); the column sets written at the table-returning sites are the documented constants. This is a static proof over all inputs under the stated aliasing rules (pandas >= 3 copy-on-write for selections; external calls non-mutating unless flagged by keyword). Equality of scalar / stacked / list / table forms, bit-identical repetition with equal seeds and independence of call order are run-time checks on generated inputs (bounded), complemented by the symbolic 'stacked == single' obligations of C16, C17, C04.",
    note="static analysis is type-less: pessimistic for numpy slicing (view), optimistic for label selections (pandas copy-on-write) and for results of calls (fresh); scipy / numpy / pandas calls are assumed non-mutating unless an out= / overwrite_*= / inplace= keyword says otherwise; the run-time part states its bound.",
)
LEVEL = "proof"
LEVEL_NOTE = MANIFEST["text"]

OWNED = {
    "Integrator": {"initial_pva", "with_altitude", "lla", "velocity_n", "mat_nb", "trajectory"},
    "EstimationModel": None,
    "Parameters": {"transform", "bias", "noise", "bias_walk", "rng", "data_frame"},
    "Turntable": None,
    "InsErrorModel": {"with_altitude", "states"},
    "Measurement": {"data"}, "Position": {"R", "imu_to_antenna_b", "data"}, "NedVelocity": {"R", "imu_to_antenna_b", "data"}, "BodyVelocity": {"R", "data"},
    "Bunch": None,
}
# methods that may write the object's own state (documented): everything else must leave `self` alone
STATE_WRITERS = {
    # predict runs the kernel on the scratch rows beyond the stored trajectory (through _integrate): physically a write of own
    # buffers, observably none -- C02.*.predict.frame proves trajectory, index and rows < n are the same objects afterwards
    "Integrator": {"__init__", "_integrate", "integrate", "set_pva", "predict"},
    "EstimationModel": {"__init__", "reset_estimates", "update_estimates"},
    "Parameters": {"__init__", "apply"},
    "Turntable": {"__init__", "rotate", "rest"},
    "InsErrorModel": {"__init__"},
    "Measurement": {"__init__"}, "Position": {"__init__"}, "NedVelocity": {"__init__"}, "BodyVelocity": {"__init__"},
    "Bunch": None,
}
SCHEMAS = {
    ("strapdown", "compute_increments_from_imu"): ["['dt', 'theta_x', 'theta_y', 'theta_z', 'dv_x', 'dv_y', 'dv_z']"],
    ("strapdown", "Integrator._integrate"): ["TRAJECTORY_COLS"],
    ("sim", "generate_imu"): ["TRAJECTORY_COLS", "GYRO_COLS + ACCEL_COLS"],
    ("sim", "generate_position_measurements"): ["LLA_COLS"],
    ("sim", "generate_ned_velocity_measurements"): ["VEL_COLS"],
    ("sim", "generate_body_velocity_measurements"): ["['VX', 'VY', 'VZ']"],
    ("error_model", "propagate_errors"): ["error_model.states", "TRAJECTORY_ERROR_COLS"],
    ("filters", "_compute_sd"): ["TRAJECTORY_ERROR_COLS", "gyro_model.states", "accel_model.states"],
    ("filters", "_compute_feedforward_result"): ["TRAJECTORY_ERROR_COLS", "TRAJECTORY_ERROR_COLS", "gyro_model.states", "gyro_model.states", "accel_model.states", "accel_model.states"],
    ("transform", "lla_to_ned"): ["NED_COLS"],
}
# private numba kernels write their OUTPUT parameters by contract (frame proved in C01.kernel.frame / C17.rotvec.*.frame)
OUT_PARAMS = {("_numba_integrate", "mat_from_rotvec"): {"mat"}, ("_numba_integrate", "integrate"): {"lla", "velocity_n", "mat_nb"}}
UTIL_CONSTANTS = dict(LLA_COLS=['lat', 'lon', 'alt'], VEL_COLS=['VN', 'VE', 'VD'], RPH_COLS=['roll', 'pitch', 'heading'],
                      GYRO_COLS=['gyro_x', 'gyro_y', 'gyro_z'], ACCEL_COLS=['accel_x', 'accel_y', 'accel_z'], NED_COLS=['north', 'east', 'down'],
                      THETA_COLS=['theta_x', 'theta_y', 'theta_z'], DV_COLS=['dv_x', 'dv_y', 'dv_z'],
                      TRAJECTORY_COLS=['lat', 'lon', 'alt', 'VN', 'VE', 'VD', 'roll', 'pitch', 'heading'],
                      TRAJECTORY_ERROR_COLS=['north', 'east', 'down', 'VN', 'VE', 'VD', 'roll', 'pitch', 'heading'])


def run(ctx):
    py = load()
    ctx.under_contract(*["pyins.%s (every function and method)" % m for m in MODULES])
    ctx.trust("pandas >= 3 copy-on-write (a selection never writes through to its parent)",
              "numpy / scipy / pandas calls do not mutate their arguments unless out= / overwrite_*= / inplace= is passed (assumed)",
              "freshness analysis of pvx/frame.py (type-less, rules stated in its docstring)")
    ctx.assume("argument forms / repetition / call order are checked at run time on generated inputs only (bounded)")
    ctx.guard(_frames, ctx, py)
    ctx.guard(_determinism, ctx, py)
    ctx.guard(_schemas, ctx, py)
    ctx.guard(_standin, ctx, py)


# -----------------------------------------------------------------------------------------------
_FRAME_TABLE = {}


def frame_table(py):
    """{(module, qualified function): (bad sites, all sites)} for every function / method of the ten modules (cached)"""
    key = id(py)
    if key in _FRAME_TABLE:
        return _FRAME_TABLE[key]
    table = {}
    for m in MODULES:
        src = source_of(m)
        sites = frame.analyze_module(src, OWNED)
        by_func = {}
        for s in sites:
            by_func.setdefault(s.func, []).append(s)
        tree = ast.parse(src)
        funcs = []
        memo = {}

        def note_memo(qual, node):
            # a memoising decorator (functools.lru_cache / cache, anything called *cache* / *memo*) keeps state between calls
            # without a single mutation site in the module: the frame is then a matter for the dynamic purity contract
            for d in node.decorator_list:
                txt = ast.unparse(d)
                if "cache" in txt.lower() or "memo" in txt.lower():
                    memo[qual] = frame.Site(qual, node.lineno, "@" + txt, frame.SHARED, "memoising decorator")
        for n in tree.body:
            if isinstance(n, ast.FunctionDef):
                funcs.append(n.name)
                note_memo(n.name, n)
            elif isinstance(n, ast.ClassDef):
                funcs += ["%s.%s" % (n.name, x.name) for x in n.body if isinstance(x, ast.FunctionDef)]
                for x in n.body:
                    if isinstance(x, ast.FunctionDef):
                        note_memo("%s.%s" % (n.name, x.name), x)
        for f in funcs:
            ss = by_func.get(f, []) + ([memo[f]] if f in memo else [])
            # a private helper's writes to its own parameters / to self are judged where it is called (frame.analyze_module)
            bad = [s for s in ss if not s.ok() and not s.deferred]
            # state that outlives the call (module / class level objects, `global` rebinding): whether results still depend on
            # the arguments only is not decidable by this analysis and not forbidden by any property -> bounded dynamic contract
            state = [s for s in bad if s.origin == frame.SHARED]
            bad = [s for s in bad if s.origin != frame.SHARED]
            outs = OUT_PARAMS.get((m, f))
            if outs:
                bad = [s for s in bad if not (s.origin == frame.ALIAS and s.target in outs)]
            # own-state writes only in the documented state-writing methods
            if "." in f:
                cls, meth = f.split(".")
                allowed = STATE_WRITERS.get(cls, set())
                soft = []
                if allowed is not None and meth not in allowed and not frame.is_private(f):
                    # a method that is not a documented state writer stores on self (a cache?): whether results still depend
                    # only on the arguments is a matter of its invalidation logic -- not decidable by this analysis, and not
                    # forbidden by the property; the dynamic history obligations decide it.  Reported as undecided.
                    soft = [s for s in ss if s.origin == frame.OWN and s.kind.startswith(("attribute-store", "item-store", "augmented", "method:"))]
                table[(m, f)] = (bad, ss, soft + state)
                continue
            table[(m, f)] = (bad, ss, state)
    _FRAME_TABLE[key] = table
    return table


def emit_frame(ctx, py, prefix, m, f, dt=0.0):
    bad, ss, soft = frame_table(py)[(m, f)]
    if not bad and soft:
        n_eval, fails, n_calls = module_purity(py, m)
        sites = "; ".join("line %d `%s` (%s)" % (s.lineno, s.text[:70], s.origin) for s in soft[:3])
        ctx.standin("%s.frame.%s.%s" % (prefix, m, f), "state that outlives a call (%s): frame not established statically; bounded dynamic purity contract of module %s: "
                    "%d call scenarios (arguments untouched, equal inputs equal results, arguments overwritten in place and re-used, every one-column / one-scalar variant against the same call in a pristine "
                    "process, second pass in reverse order)" % (sites, m, n_calls), n_eval, fails)
        return
    ctx.ob("%s.frame.%s.%s" % (prefix, m, f), "f", not bad, "ast-freshness", dt,
           "%d in-place mutation site(s), every target fresh or the object's documented own state" % len(ss) if not bad
           else "; ".join("line %d `%s` writes a target that is %s (%s)" % (s.lineno, s.text, s.origin, s.kind) for s in bad[:3]),
           cex=None if not bad else dict(module=m, function=f, sites=[dict(line=s.lineno, code=s.text, origin=s.origin, kind=s.kind) for s in bad[:5]]),
           native=None if not bad else _native_frame(py, m, f))


def frame_obligations(ctx, py, prefix, modules):
    """Frame obligations of every function / method of the given modules, under another property's name: a contract
    'result == spec(arguments)' is only meaningful for a function that keeps no state between calls and leaves its
    arguments alone, so each property re-establishes the frame of the modules it puts under contract."""
    from pvx import deps as _deps
    from props import forms as _forms_battery
    _deps.external_binding_obligations(ctx, py, prefix, modules)
    for (m, f) in sorted(frame_table(py)):
        if m in modules:
            emit_frame(ctx, py, prefix, m, f)
    # argument forms of the same modules (bounded): batches of 1 / long batches, integer-typed values, labels in other orders ...
    _forms_battery.forms_obligations(ctx, py, prefix, modules)


def _frames(ctx, py):
    t0 = time.time()
    from pvx import deps as _deps
    _deps.external_binding_obligations(ctx, py, "C19", set(MODULES))
    table = frame_table(py)
    dt = (time.time() - t0) / max(1, len(table))
    for (m, f) in table:
        emit_frame(ctx, py, "C19", m, f, dt)
    ctx.notes.append(dict(mutation_sites_analysed=sum(len(v_[1]) for v_ in table.values())))


_PURITY = {}


def _leaves(x, path=()):
    """(path, object) of every float ndarray / DataFrame / Series inside nested tuples / lists / dicts"""
    if isinstance(x, np.ndarray) and x.dtype.kind == "f" and x.size:
        yield path, x
    elif isinstance(x, (pd.DataFrame, pd.Series)) and len(x):
        yield path, x
    elif isinstance(x, (list, tuple)):
        for i, v in enumerate(x):
            yield from _leaves(v, path + (i,))
    elif isinstance(x, dict):
        for k, v in x.items():
            yield from _leaves(v, path + (k,))


def _scale_column(leaf, c, k=1.0 + 2.0 ** -7):
    if isinstance(leaf, np.ndarray):
        if leaf.ndim == 0:
            return False
        idx = (Ellipsis, c) if leaf.ndim > 1 else (c,)
        if c >= leaf.shape[-1]:
            return False
        leaf[idx] = leaf[idx] * k
        return True
    if isinstance(leaf, pd.DataFrame):
        cols = [col for col in leaf.columns if leaf[col].dtype.kind == "f"]
        if c >= len(cols):
            return False
        leaf.loc[:, cols[c]] = leaf[cols[c]].values * k
        return True
    if isinstance(leaf, pd.Series) and leaf.dtype.kind == "f":
        if c >= len(leaf):
            return False
        leaf.iloc[c] = leaf.iloc[c] * k
        return True
    return False


def variant_ids(make):
    """deterministic list of input variants of one scenario: the scenario's own arguments, every float column of every array /
    table argument scaled by 1 + 2^-7 (one at a time, at most 4 columns each), every float scalar argument scaled"""
    f, a, k = make()
    ids = ["base"]
    for path, leaf in _leaves((a, k)):
        ncol = leaf.shape[-1] if isinstance(leaf, np.ndarray) and leaf.ndim else (len([c for c in leaf.columns if leaf[c].dtype.kind == "f"]) if isinstance(leaf, pd.DataFrame) else (len(leaf) if hasattr(leaf, "__len__") else 0))
        for c in range(min(4, ncol)):
            ids.append("col:%s:%d" % (".".join(map(str, path)), c))
    for i, v in enumerate(a):
        if isinstance(v, (float, np.floating)) and not isinstance(v, bool):
            ids.append("scalar:%d" % i)
    for kk, v in k.items():
        if isinstance(v, (float, np.floating)) and not isinstance(v, bool):
            ids.append("kw:%s" % kk)
    return ids


def run_variant(make, vid):
    f, a, k = make()
    a = list(a)
    if vid.startswith("col:"):
        _, path, c = vid.split(":")
        tgt = (a, k)
        for step in path.split("."):
            tgt = tgt[int(step) if step.lstrip("-").isdigit() else step]
        _scale_column(tgt, int(c))
    elif vid.startswith("scalar:"):
        i = int(vid.split(":")[1])
        a[i] = type(a[i])(a[i] * (1.0 + 2.0 ** -7))
    elif vid.startswith("kw:"):
        kk = vid.split(":", 1)[1]
        k = dict(k)
        k[kk] = type(k[kk])(k[kk] * (1.0 + 2.0 ** -7))
    try:
        return ("ok", _snap(f(*a, **k)))
    except Exception as exc:
        return ("raised", type(exc).__name__)


def module_purity(py, module):
    """Bounded dynamic purity contract of one module (used when the static analysis finds state that outlives a call -- a cache,
    a memo, a preallocated buffer -- and therefore cannot establish the frame).  Every call scenario of the module: (i)
    arguments untouched, equal inputs give equal results, results not aliased, (ii) argument objects overwritten in place
    and passed again, (iii) every (scenario, one-column / one-scalar variant) evaluated here, one after another in this
    well-used process, must equal the result of the same call in a PRISTINE process state (pvx.isolated: a fresh
    interpreter, one forked child per call), (iv) all scenarios again in reverse order."""
    import subprocess
    import sys as _sys
    from pvx.isolated import digest
    if (id(py), module) in _PURITY:
        return _PURITY[(id(py), module)]
    calls = [(n_, mk) for n_, mk in _calls(py) if n_.startswith(module + ".")]
    fails, n_eval = [], 0
    first = {}
    for name, make in calls:
        n_eval += 2
        r = _check_call(name, make) or _check_inplace(name, make)
        if r:
            fails.append(r)
            continue
        try:
            f, a, k = make()
            first[name] = _snap(f(*a, **k))
        except Exception:
            pass
    # (iii) against pristine process states
    ref = None
    try:
        env = dict(os.environ)
        out = subprocess.run([_sys.executable, "-W", "ignore", "-m", "pvx.isolated", module], capture_output=True, text=True, timeout=900,
                             cwd=os.path.dirname(os.path.dirname(os.path.abspath(__file__))), env=env)
        line = next((ln for ln in out.stdout.splitlines() if ln.startswith("ISOLATED-JSON ")), None)
        ref = json.loads(line[len("ISOLATED-JSON "):]) if line else None
    except Exception:
        ref = None
    if ref is None:
        fails.append(dict(call=module, what="the pristine-state reference process could not be run (purity undecided)"))
    else:
        for rounds in range(2):            # twice: the second round runs with the state the first one left behind
            for name, make in calls:
                for vid in variant_ids(make):
                    key = "%s|%s" % (name, vid)
                    if key not in ref:
                        continue
                    n_eval += 1
                    got = digest(run_variant(make, vid))
                    if got != ref[key]:
                        fails.append(dict(call=name, variant=vid, what="the result of this call in a used process differs from the result of the same call in a pristine "
                                                                         "process (it depends on earlier calls, not only on its arguments)"))
                        break
    for name, make in reversed(calls):
        if name in first:
            n_eval += 1
            try:
                f, a, k = make()
                if _snap(f(*a, **k)) != first[name]:
                    fails.append(dict(call=name, what="result depends on the calls made before it (different result in a later pass)"))
            except Exception as exc:
                fails.append(dict(call=name, what="raised %r in the second pass" % (exc,)))
    _PURITY[(id(py), module)] = (n_eval, fails, len(calls))
    return _PURITY[(id(py), module)]


def _native_frame(py, module, func):
    """replay: run the run-time frame contract for the calls that exercise this function"""
    fails = []
    for name, call in _calls(py):
        if func.split(".")[-1] in name or func.split(".")[0] in name:
            r = _check_call(name, call) or _check_inplace(name, call)
            if r:
                fails.append(r)
    return dict(reproduced=bool(fails), failures=fails[:3])


# -----------------------------------------------------------------------------------------------
def _determinism(ctx, py):
    for m in MODULES:
        src = source_of(m)
        tree = ast.parse(src)
        bad = []
        for n in ast.walk(tree):
            if isinstance(n, ast.Attribute):
                txt = ast.unparse(n)
                if txt.startswith(("np.random.", "numpy.random.")) and not txt.startswith(("np.random.RandomState", "np.random.Generator", "np.random.default_rng")):
                    bad.append("line %d: %s (global RNG state)" % (n.lineno, txt))
                if txt.startswith(("time.", "datetime.", "os.environ", "os.getenv", "random.")):
                    bad.append("line %d: %s" % (n.lineno, txt))
            if isinstance(n, ast.For) and isinstance(n.iter, (ast.Set, ast.SetComp)) or (isinstance(n, ast.For) and isinstance(n.iter, ast.Call) and getattr(n.iter.func, "id", "") in ("set", "frozenset")):
                bad.append("line %d: iteration over a set" % n.lineno)
            if isinstance(n, ast.Call) and isinstance(n.func, ast.Attribute) and n.func.attr in ("randn", "rand", "normal", "uniform", "randint", "standard_normal", "choice", "shuffle", "permutation"):
                base = ast.unparse(n.func.value)
                if base not in ("rng", "self.rng"):
                    bad.append("line %d: draw %s not from the rng parameter" % (n.lineno, ast.unparse(n.func)))
            if isinstance(n, ast.Import) or isinstance(n, ast.ImportFrom):
                names = [a.name for a in n.names]
                if any(x in ("random", "time", "datetime", "secrets", "uuid") for x in names) or getattr(n, "module", None) in ("random", "time", "datetime"):
                    bad.append("line %d: import of %s" % (n.lineno, names))
        # every rng parameter is normalised (rebinding through check_random_state) before anything is drawn from it; handing
        # it on untouched to another callable that takes an rng is fine (that callable is checked in its own right)
        for fn in [x for x in ast.walk(tree) if isinstance(x, ast.FunctionDef)]:
            params = [a.arg for a in fn.args.args + fn.args.kwonlyargs]
            if "rng" not in params:
                continue
            events = []
            for n in ast.walk(fn):
                if isinstance(n, ast.Assign) and any(isinstance(t, ast.Name) and t.id == "rng" for t in n.targets):
                    ok_norm = (isinstance(n.value, ast.Call) and ast.unparse(n.value.func).split(".")[-1] == "check_random_state"
                               and len(n.value.args) == 1 and ast.unparse(n.value.args[0]) == "rng")
                    events.append((n.lineno, n.col_offset, "norm" if ok_norm else "rebind"))
                elif isinstance(n, ast.Attribute) and isinstance(n.value, ast.Name) and n.value.id == "rng":
                    events.append((n.lineno, n.col_offset, "use:" + n.attr))
            events.sort()
            normalised = False
            for ln, _, ev in events:
                if ev == "norm":
                    normalised = True
                elif ev == "rebind":
                    bad.append("%s line %d: rng rebound to something that is not check_random_state(rng)" % (fn.name, ln))
                elif not normalised:
                    bad.append("%s line %d: rng.%s used before rng = check_random_state(rng)" % (fn.name, ln, ev[4:]))
        # the normaliser itself, whatever it is bound to in this module: integer seeds of any integer type seed alike
        mod = getattr(py, m)
        crs = getattr(mod, "check_random_state", None)
        if crs is not None:
            want = np.random.RandomState(7).randn(3)
            for form in (7, np.int64(7), np.int32(7), np.uint8(7), np.array([7])[0]):
                try:
                    got = crs(form).randn(3)
                    if not np.array_equal(got, want):
                        bad.append("check_random_state(%s(7)) does not seed like RandomState(7)" % type(form).__name__)
                except Exception as exc:
                    bad.append("check_random_state(%s(7)) raises %r" % (type(form).__name__, exc))
            st = np.random.RandomState(11)
            if crs(st) is not st:
                bad.append("check_random_state(RandomState) does not return the generator it was given")
        ctx.ob("C19.det.%s" % m, "f", not bad, "ast-scan", 0.0,
               "no global-RNG / clock / environment read, no set iteration; draws only from rng / self.rng obtained via check_random_state" if not bad else "; ".join(bad[:4]),
               cex=None if not bad else dict(module=m, findings=bad[:6]))


# -----------------------------------------------------------------------------------------------
def _schemas(ctx, py):
    U = py.util
    okc = all(getattr(U, k) == v for k, v in UTIL_CONSTANTS.items())
    ctx.ob("C19.schema.constants", "c", okc, "exact-compare", 0.0, "column-name constants of pyins.util equal the documented sets of pyins/__init__.py",
           cex=None if okc else dict(differs=[k for k, v in UTIL_CONSTANTS.items() if getattr(U, k) != v]))
    # the tables the public functions RETURN, whichever private helper builds them: column sets and time index by kind
    C = UTIL_CONSTANTS
    d = _data(py)
    S, SIM, EMm, F, IS, M, T = py.strapdown, py.sim, py.error_model, py.filters, py.inertial_sensor, py.measurements, py.transform
    inc_cols = ["dt"] + C["THETA_COLS"] + C["DV_COLS"]
    cases = []

    def table(name, make, cols, index=None, index_name="time"):
        cases.append((name, make, cols, index, index_name))
    table("strapdown.compute_increments_from_imu(rate)", lambda: S.compute_increments_from_imu(d["imu"], "rate"), inc_cols, list(d["imu"].index[1:]))
    table("strapdown.compute_increments_from_imu(increment)", lambda: S.compute_increments_from_imu(d["imu"], "increment"), inc_cols, list(d["imu"].index[1:]))
    it = S.Integrator(d["pva"])
    table("strapdown.Integrator.integrate", lambda: it.integrate(d["inc"].iloc[:5]), C["TRAJECTORY_COLS"], [d["pva"].name] + list(d["inc"].index[:5]))
    table("strapdown.Integrator.trajectory", lambda: it.trajectory, C["TRAJECTORY_COLS"], [d["pva"].name] + list(d["inc"].index[:5]))
    tt = np.arange(0, 3, 0.1)
    g = lambda k: SIM.generate_imu(tt, np.column_stack([55 + 1e-5 * tt, 37 + 2e-5 * tt, 100 + 0.1 * tt]), np.column_stack([0 * tt, 2 * np.sin(tt), 40 + 3 * tt]), sensor_type="rate")[k]
    table("sim.generate_imu[trajectory]", lambda: g(0), C["TRAJECTORY_COLS"], list(tt))
    table("sim.generate_imu[imu]", lambda: g(1), C["GYRO_COLS"] + C["ACCEL_COLS"], list(tt))
    table("sim.generate_position_measurements", lambda: getattr(SIM.generate_position_measurements(d["traj"], 2.0, rng=1), "data", SIM.generate_position_measurements(d["traj"], 2.0, rng=1)), C["LLA_COLS"], list(d["traj"].index))
    table("sim.generate_ned_velocity_measurements", lambda: getattr(SIM.generate_ned_velocity_measurements(d["traj"], 0.2, rng=1), "data", SIM.generate_ned_velocity_measurements(d["traj"], 0.2, rng=1)), C["VEL_COLS"], list(d["traj"].index))
    table("sim.generate_body_velocity_measurements", lambda: getattr(SIM.generate_body_velocity_measurements(d["traj"], 0.2, rng=1), "data", SIM.generate_body_velocity_measurements(d["traj"], 0.2, rng=1)), ["VX", "VY", "VZ"], list(d["traj"].index))
    pe = lambda k: EMm.propagate_errors(d["traj"], d["err"], np.array([1e-5, 2e-5, -1e-5]), np.array([1e-2, -1e-2, 2e-2]))[k]
    table("error_model.propagate_errors[trajectory error]", lambda: pe(0), C["TRAJECTORY_ERROR_COLS"], list(d["traj"].index))
    table("error_model.propagate_errors[model error]", lambda: pe(1), EMm.InsErrorModel().states, list(d["traj"].index))
    table("transform.lla_to_ned(DataFrame)", lambda: T.lla_to_ned(d["traj"]), C["NED_COLS"], list(d["traj"].index))
    gm, am = IS.EstimationModel(bias_sd=[1e-4, 0, 1e-4]), IS.EstimationModel(bias_sd=1e-2, noise=1e-3)
    meas = [M.Position(d["pos"], 2.0), M.NedVelocity(d["vel"], 0.3)]
    rfb = F.run_feedback_filter(d["pva"], 5, 0.5, 1, 2, d["inc"], gm, am, measurements=meas, time_step=0.5)
    rff = F.run_feedforward_filter(d["traj"], d["traj"], 5, 0.5, 1, 2, gm, am, measurements=meas, increments=d["inc"], time_step=0.5)
    for tag, r in (("feedback", rfb), ("feedforward", rff)):
        table("filters.run_%s_filter[trajectory]" % tag, lambda r=r: r.trajectory, C["TRAJECTORY_COLS"])
        table("filters.run_%s_filter[trajectory_sd]" % tag, lambda r=r: r.trajectory_sd, C["TRAJECTORY_ERROR_COLS"])
        table("filters.run_%s_filter[gyro]" % tag, lambda r=r: r.gyro, gm.states)
        table("filters.run_%s_filter[gyro_sd]" % tag, lambda r=r: r.gyro_sd, gm.states)
        table("filters.run_%s_filter[accel]" % tag, lambda r=r: r.accel, am.states)
        table("filters.run_%s_filter[accel_sd]" % tag, lambda r=r: r.accel_sd, am.states)
    # tables computed FROM a table keep (a subset of) its stamps bit for bit: label look-up / alignment with the input must work
    long_traj, _ = SIM.generate_sine_velocity_motion(0.1, 80.0, [55.0, 37.0, 100.0], [3.0, 2.0, 0.0], [2.0, 2.0, 0.2], 30.0)
    subset = {}
    for st_ in (2.0, 4.0, 0.7):
        nm_ = "transform.smooth_state(%g s)" % st_
        table(nm_, lambda st_=st_: T.smooth_state(long_traj, st_), list(long_traj.columns))
        subset[nm_] = long_traj.index
    q_ = np.concatenate([[-1.0], long_traj.index[5:700:7].values, long_traj.index[10:20].values + 0.033, [1e3]])
    q_in = np.sort(q_[(q_ >= long_traj.index[0]) & (q_ <= long_traj.index[-1])])
    table("transform.resample_state", lambda: T.resample_state(long_traj, np.sort(q_)), list(long_traj.columns), list(q_in))
    table("transform.compute_state_difference(tables)", lambda: T.compute_state_difference(long_traj.iloc[::3], long_traj.iloc[20:600]),
          C["TRAJECTORY_ERROR_COLS"])
    subset["transform.compute_state_difference(tables)"] = long_traj.index
    for name, make, cols, index, index_name in cases:
        try:
            tab = make()
            bad = []
            if name in subset:
                have = set(float(x) for x in subset[name])
                off = [float(x) for x in tab.index if float(x) not in have]
                if off or not len(tab.index):
                    bad.append("%d of %d returned stamps are not stamps of the input table (first: %r)" % (len(off), len(tab.index), off[:1]))
            if list(tab.columns) != list(cols):
                bad.append("columns %s, documented %s" % (list(tab.columns), list(cols)))
            if index is not None and [float(x) for x in tab.index] != [float(x) for x in index]:
                bad.append("time index differs from the documented one (%d vs %d stamps)" % (len(tab.index), len(index)))
            if not tab.index.is_monotonic_increasing:
                bad.append("time index not increasing")
        except Exception as exc:
            bad = ["raised %r" % (exc,)]
        ctx.ob("C19.schema.%s" % name, "c", not bad, "native-call", 0.0, "returned table: columns %s, time index as documented" % list(cols) if not bad else "; ".join(bad),
               cex=None if not bad else dict(function=name, what=bad), native=None if not bad else dict(reproduced=True, what=bad))


# -----------------------------------------------------------------------------------------------
def _data(py, seed=0):
    rng = np.random.RandomState(seed)
    NAMES = UTIL_CONSTANTS["TRAJECTORY_COLS"]
    dt = 0.1
    n = 40
    traj, imu = py.sim.generate_sine_velocity_motion(dt, n * dt, [55.0, 37.0, 100.0], [3.0, 2.0, 0.0], [2.0, 2.0, 0.2], 30.0)
    inc = py.strapdown.compute_increments_from_imu(imu, "rate")
    pva = traj.iloc[0].copy()
    err = pd.Series([3.0, -2.0, 1.0, 0.1, -0.1, 0.05, 0.05, -0.05, 0.2], index=UTIL_CONSTANTS["TRAJECTORY_ERROR_COLS"])
    pos = traj.iloc[::10][["lat", "lon", "alt"]].copy()
    vel = traj.iloc[5::10][["VN", "VE", "VD"]].copy()
    body = pd.DataFrame(np.zeros((4, 3)), index=traj.index[2::10], columns=["VX", "VY", "VZ"])
    return dict(traj=traj, imu=imu, inc=inc, pva=pva, err=err, pos=pos, vel=vel, body=body, rng=rng)


def _calls(py):
    """(name, thunk factory): each factory returns (callable, args tuple, kwargs dict) with FRESH equal arguments on every invocation"""
    E, T, U, S, EM, K, M, IS, SIM, F = (py.earth, py.transform, py.util, py.strapdown, py.error_model, py.kalman, py.measurements, py.inertial_sensor, py.sim, py.filters)
    D = lambda: _data(py)
    lla1 = lambda: np.array([55.0, 37.0, 120.0])
    lla2 = lambda: np.array([[55.0, 37.0, 120.0], [-33.0, 151.0, 40.0], [0.5, -179.9, 1e3]])
    rph2 = lambda: np.array([[1.0, -2.0, 40.0], [10.0, 20.0, -170.0]])
    v3 = lambda: np.array([[1.0, 2.0, 3.0], [-4.0, 5.0, 0.5]])
    mats = lambda: np.array([np.eye(3), [[0, -1.0, 0], [1.0, 0, 0], [0, 0, 1.0]]])
    out = []
    add = lambda name, f: out.append((name, f))
    add("earth.principal_radii", lambda: (E.principal_radii, (np.array([10.0, -50.0]), np.array([0.0, 500.0])), {}))
    add("earth.gravity", lambda: (E.gravity, (np.array([10.0, -50.0]), np.array([0.0, 500.0])), {}))
    add("earth.gravity_n", lambda: (E.gravity_n, (np.array([10.0, -50.0]), np.array([0.0, 500.0])), {}))
    add("earth.gravitation_ecef", lambda: (E.gravitation_ecef, (lla2(),), {}))
    add("earth.curvature_matrix", lambda: (E.curvature_matrix, (np.array([10.0, -50.0]), np.array([0.0, 500.0])), {}))
    add("earth.rate_n", lambda: (E.rate_n, (np.array([10.0, -50.0]),), {}))
    add("transform.lla_to_ecef", lambda: (T.lla_to_ecef, (lla2(),), {}))
    add("transform.ecef_to_lla", lambda: (T.ecef_to_lla, (T.lla_to_ecef(lla2()),), {}))
    add("transform.lla_to_ned", lambda: (T.lla_to_ned, (lla2(), lla1()), {}))
    add("transform.lla_to_ned(DataFrame)", lambda: (T.lla_to_ned, (D()["traj"],), {}))
    add("transform.perturb_lla", lambda: (T.perturb_lla, (lla2(), np.array([[1.0, 2.0, 3.0]] * 3)), {}))
    add("transform.perturb_lla(single)", lambda: (T.perturb_lla, (lla1(), np.array([1.0, 2.0, 3.0])), {}))
    add("transform.translate_trajectory", lambda: (T.translate_trajectory, (D()["traj"], np.array([1.0, -2.0, 0.5])), {}))
    add("transform.translate_trajectory(pva)", lambda: (T.translate_trajectory, (D()["pva"], np.array([1.0, -2.0, 0.5])), {}))
    add("transform.compute_lla_difference", lambda: (T.compute_lla_difference, (lla2(), lla2()[::-1].copy()), {}))
    add("transform.resample_state", lambda: (T.resample_state, (D()["traj"], np.array([0.33, 1.0, 2.57, 99.0])), {}))
    add("transform.compute_state_difference", lambda: (T.compute_state_difference, (D()["traj"], D()["traj"].iloc[::3]), {}))
    add("transform.compute_state_difference(Series)", lambda: (T.compute_state_difference, (D()["traj"].iloc[3], D()["pva"]), {}))
    add("transform.smooth_state(20.0)", lambda: (T.smooth_state, (D()["traj"], 0.5), {}))
    add("transform.smooth_state(20.4)", lambda: (T.smooth_state, (D()["traj"], 0.51), {}))
    add("transform.smooth_state(40)", lambda: (T.smooth_state, (D()["traj"], 1.0), {}))
    add("transform.mat_en_from_ll", lambda: (T.mat_en_from_ll, (np.array([10.0, -50.0]), np.array([20.0, 170.0])), {}))
    add("transform.mat_from_rph", lambda: (T.mat_from_rph, (rph2(),), {}))
    add("transform.mat_to_rph", lambda: (T.mat_to_rph, (mats(),), {}))
    # single-point forms of the leaf functions (the scalar path of a function is where a memo of the last / the recent
    # arguments would sit: the caller owns what it gets back, call after call)
    add("earth.principal_radii(single)", lambda: (E.principal_radii, (10.0, 500.0), {}))
    add("earth.gravity_n(single)", lambda: (E.gravity_n, (-50.0, 500.0), {}))
    add("earth.gravitation_ecef(single)", lambda: (E.gravitation_ecef, (lla1(),), {}))
    add("earth.curvature_matrix(single)", lambda: (E.curvature_matrix, (-50.0, 500.0), {}))
    add("earth.rate_n(single)", lambda: (E.rate_n, (-50.0,), {}))
    add("transform.lla_to_ecef(single)", lambda: (T.lla_to_ecef, (lla1(),), {}))
    add("transform.ecef_to_lla(single)", lambda: (T.ecef_to_lla, (T.lla_to_ecef(lla1()),), {}))
    add("transform.lla_to_ned(single)", lambda: (T.lla_to_ned, (lla1() + np.array([1e-3, -2e-3, 7.0]), lla1()), {}))
    add("transform.mat_en_from_ll(single)", lambda: (T.mat_en_from_ll, (-50.0, 170.0), {}))
    add("transform.mat_from_rph(single)", lambda: (T.mat_from_rph, (rph2()[0],), {}))
    add("transform.mat_from_rph(single list)", lambda: (T.mat_from_rph, ([1.0, -2.0, 40.0],), {}))
    add("transform.mat_to_rph(single)", lambda: (T.mat_to_rph, (mats()[1],), {}))
    add("util.skew_matrix(single)", lambda: (U.skew_matrix, (v3()[0],), {}))
    add("util.mm_prod", lambda: (U.mm_prod, (mats(), mats()), dict(at=True)))
    add("util.mm_prod_symmetric", lambda: (U.mm_prod_symmetric, (mats(), mats()), {}))
    add("util.mv_prod", lambda: (U.mv_prod, (mats(), v3()), dict(at=True)))
    add("util.skew_matrix", lambda: (U.skew_matrix, (v3(),), {}))
    add("util.compute_rms", lambda: (U.compute_rms, (v3(),), {}))
    add("util.to_180_range", lambda: (U.to_180_range, (np.array([-900.0, 181.0, 10.0]),), {}))
    add("util.to_180_range(Series)", lambda: (U.to_180_range, (pd.Series([-900.0, 181.0, 10.0]),), {}))
    add("strapdown.compute_increments_from_imu(rate)", lambda: (S.compute_increments_from_imu, (D()["imu"], "rate"), {}))
    add("strapdown.compute_increments_from_imu(increment)", lambda: (S.compute_increments_from_imu, (D()["imu"], "increment"), {}))

    def integ(wa):
        def f(pva, inc):
            it = S.Integrator(pva, wa)
            a = it.integrate(inc.iloc[:7])
            p = it.predict(inc.iloc[7])
            b = it.integrate(inc.iloc[7:])
            it.set_pva(p * 1.0)
            return a, p, b, it.trajectory.copy(), it.get_pva().copy()
        return f
    add("strapdown.Integrator(3d)", lambda: (integ(True), (D()["pva"], D()["inc"]), {}))
    def integ_whole(pva, inc):
        it = S.Integrator(pva)
        return it.integrate(inc), it.trajectory.copy()
    add("strapdown.Integrator(whole table, unnamed index)", lambda: (integ_whole, (D()["pva"], D()["inc"].rename_axis(None)), {}))
    add("strapdown.Integrator(whole table, index named otherwise)", lambda: (integ_whole, (D()["pva"], D()["inc"].rename_axis("t")), {}))
    add("strapdown.Integrator(2d, VD != 0)", lambda: (integ(False), (D()["pva"] + np.array([0, 0, 0, 0, 0, 1.5, 0, 0, 0]), D()["inc"]), {}))
    for wa in (True, False):
        em = EM.InsErrorModel(wa)
        n = em.n_states
        add("error_model.system_matrices(%s)" % wa, lambda em=em: (em.system_matrices, (D()["traj"],), {}))
        add("error_model.system_matrices(pva,%s)" % wa, lambda em=em: (em.system_matrices, (D()["pva"],), {}))
        add("error_model.transform_to_output(%s)" % wa, lambda em=em: (em.transform_to_output, (D()["traj"],), {}))
        add("error_model.transform_to_internal(%s)" % wa, lambda em=em: (em.transform_to_internal, (D()["pva"],), {}))
        add("error_model.correct_pva(%s)" % wa, lambda em=em, n=n: (em.correct_pva, (D()["pva"], np.arange(1, n + 1) * 1e-3), {}))
        add("error_model.position_error_jacobian(%s)" % wa, lambda em=em: (em.position_error_jacobian, (D()["pva"], np.array([1.0, 2.0, 3.0])), {}))
        add("error_model.position_error_jacobian(no lever,%s)" % wa, lambda em=em: (em.position_error_jacobian, (D()["pva"],), {}))
        add("error_model.ned_velocity_error_jacobian(%s)" % wa, lambda em=em: (em.ned_velocity_error_jacobian, (D()["pva"], np.array([1.0, 2.0, 3.0])), {}))
        add("error_model.body_velocity_error_jacobian(%s)" % wa, lambda em=em: (em.body_velocity_error_jacobian, (D()["pva"],), {}))
        add("error_model.propagate_errors(%s)" % wa, lambda wa=wa: (EM.propagate_errors, (D()["traj"], D()["err"], np.array([1e-5, 2e-5, -1e-5]), np.array([1e-2, -1e-2, 2e-2])), dict(with_altitude=wa)))
    add("kalman.compute_process_matrices", lambda: (K.compute_process_matrices, (np.array([[0, 1.0], [-1.0, -0.1]]), np.diag([0.0, 0.3]), 0.7), {}))
    add("kalman.compute_process_matrices(int F)", lambda: (K.compute_process_matrices, (np.array([[0, 1], [0, 0]]), np.diag([0.5, 0.3]), 0.7), {}))
    add("kalman.correct", lambda: (K.correct, (np.array([0.1, -0.2, 0.3]), np.diag([1.0, 2.0, 3.0]), np.array([0.5, 0.1]), np.array([[1.0, 0, 1], [0, 1, 0]]), np.diag([0.1, 0.2])), {}))
    add("kalman.correct(zero mean)", lambda: (K.correct, (np.zeros(3), np.diag([1.0, 2.0, 3.0]), np.array([0.5, 0.1]), np.array([[1.0, 0, 1], [0, 1, 0]]), np.diag([0.1, 0.2])), {}))

    def meas(kind, lever):
        def f(data, pva):
            em = EM.InsErrorModel()
            if kind == "Position":
                m = M.Position(data, 2.0, lever)
            elif kind == "NedVelocity":
                m = M.NedVelocity(data, 0.3, lever)
            else:
                m = M.BodyVelocity(data, 0.3)
            return m.compute_matrices(float(data.index[1]), pva, em), m.compute_matrices(-1.0, pva, em)
        return f
    add("measurements.Position(lever)", lambda: (meas("Position", np.array([1.0, 2.0, 3.0])), (D()["pos"], D()["pva"]), {}))
    add("measurements.Position", lambda: (meas("Position", None), (D()["pos"], D()["pva"]), {}))
    add("measurements.NedVelocity", lambda: (meas("NedVelocity", np.array([1.0, 2.0, 3.0])), (D()["vel"], pd.concat([D()["pva"], pd.Series([0.1, 0.2, 0.3], index=["rate_x", "rate_y", "rate_z"])])), {}))
    add("measurements.BodyVelocity", lambda: (meas("BodyVelocity", None), (D()["body"], D()["pva"]), {}))

    def est(x):
        m = IS.EstimationModel(bias_sd=[0.1, 0, 0.2], noise=0.1, bias_walk=[0.01, 0, 0], scale_misal_sd=np.diag([0.01, 0.0, 0.02]))
        m.update_estimates(x)
        d = _data(py)
        return m.output_matrix(np.array([1.0, 2.0, 3.0])), m.correct_increments(d["inc"]["dt"], d["inc"][["theta_x", "theta_y", "theta_z"]]), m.get_estimates()
    add("inertial_sensor.EstimationModel", lambda: (est, (np.array([0.01, -0.02, 0.001, 0.002]),), {}))
    add("inertial_sensor.Parameters.apply(rate)", lambda: (lambda imu, T_, b: IS.Parameters(T_, b, 0.1, 0.01, rng=5).apply(imu[["gyro_x", "gyro_y", "gyro_z"]], "rate"),
                                                           (D()["imu"], np.eye(3) + 0.01, np.array([0.1, 0.2, 0.3])), {}))
    add("inertial_sensor.apply_imu_parameters", lambda: (lambda imu: IS.apply_imu_parameters(imu, "increment", IS.Parameters(bias=[1e-3, 0, 0], noise=1e-3, rng=1), IS.Parameters(noise=1e-2, rng=2)), (D()["imu"],), {}))
    add("inertial_sensor.Parameters.from_EstimationModel", lambda: (lambda: vars(IS.Parameters.from_EstimationModel(IS.EstimationModel(bias_sd=0.1, scale_misal_sd=np.full((3, 3), 0.01)), rng=7))["transform"], (), {}))
    t = np.arange(0, 4, 0.1)
    lla_t = lambda: np.column_stack([55 + 1e-5 * t, 37 + 2e-5 * t, 100 + 0.1 * t])
    rph_t = lambda: np.column_stack([0 * t, 2 * np.sin(t), 40 + 3 * t])
    vel_t = lambda: np.column_stack([1.1 + 0 * t, 1.4 + 0 * t, -0.1 + 0 * t])
    for st in ("rate", "increment"):
        add("sim.generate_imu(pos+vel,%s)" % st, lambda st=st: (SIM.generate_imu, (t.copy(), lla_t(), rph_t(), vel_t()), dict(sensor_type=st)))
        add("sim.generate_imu(pos,%s)" % st, lambda st=st: (SIM.generate_imu, (t.copy(), lla_t(), rph_t()), dict(sensor_type=st)))
        add("sim.generate_imu(initial,%s)" % st, lambda st=st: (SIM.generate_imu, (t.copy(), np.array([55.0, 37.0, 100.0]), rph_t(), vel_t()), dict(sensor_type=st)))
    add("sim.generate_sine_velocity_motion", lambda: (SIM.generate_sine_velocity_motion, (0.1, 5.0, np.array([55.0, 37.0, 100.0]), np.array([3.0, 2.0, 0.0]), np.array([1.0, 1.0, 0.1])), {}))
    add("sim.generate_position_measurements", lambda: (SIM.generate_position_measurements, (D()["traj"], 2.0), dict(rng=3)))
    add("sim.generate_ned_velocity_measurements", lambda: (SIM.generate_ned_velocity_measurements, (D()["traj"], 0.2), dict(rng=3)))
    add("sim.generate_body_velocity_measurements", lambda: (SIM.generate_body_velocity_measurements, (D()["traj"], 0.2), dict(rng=3)))
    add("sim.generate_pva_error", lambda: (SIM.generate_pva_error, (1.0, 0.1, 0.1, 0.5), dict(rng=4)))
    add("sim.perturb_pva", lambda: (SIM.perturb_pva, (D()["pva"], D()["err"]), {}))

    def models():
        return (IS.EstimationModel(bias_sd=1e-4, scale_misal_sd=np.diag([1e-3, 0.0, 2e-3])), IS.EstimationModel(bias_sd=1e-2, noise=1e-3))

    def fb(pva, inc, pos, vel, wa, gm, am, meas):
        r = F.run_feedback_filter(pva, 5, 0.5, 1, 2, inc, gm, am, measurements=meas, time_step=0.5, with_altitude=wa)
        return [r[k] for k in ("trajectory", "trajectory_sd", "gyro", "gyro_sd", "accel", "accel_sd")] + [r.innovations["Position"], r.innovations["NedVelocity"]]

    def ff(traj, inc, pos, vel, wa, gm, am, meas):
        r = F.run_feedforward_filter(traj, traj, 5, 0.5, 1, 2, gm, am, measurements=meas, increments=inc, time_step=0.5, with_altitude=wa)
        return [r[k] for k in ("trajectory", "trajectory_sd", "gyro", "gyro_sd", "accel", "accel_sd")] + [r.innovations["Position"], r.innovations["NedVelocity"]]
    for wa in (True, False):
        def fb_args(wa=wa):
            d = D()
            return (fb, (d["pva"], d["inc"], d["pos"], d["vel"], wa) + models() + ([M.Position(d["pos"], 2.0), M.NedVelocity(d["vel"], 0.3)],), {})

        def ff_args(wa=wa):
            d = D()
            return (ff, (d["traj"], d["inc"], d["pos"], d["vel"], wa) + models() + ([M.Position(d["pos"], 2.0), M.NedVelocity(d["vel"], 0.3)],), {})
        add("filters.run_feedback_filter(%s)" % wa, fb_args)
        add("filters.run_feedforward_filter(%s)" % wa, ff_args)
    return out


def _snap(x):
    if isinstance(x, np.ndarray):
        return ("nd", x.dtype.str, x.shape, x.tobytes())
    if isinstance(x, pd.DataFrame):
        return ("df", list(map(str, x.columns)), repr(x.columns.name), repr(x.index.name), x.index.values.tobytes(),
                x.values.tobytes() if x.values.dtype != object else repr(x.values.tolist()))
    if isinstance(x, pd.Series):
        return ("s", list(map(str, x.index)), repr(x.name), repr(x.index.name), x.values.tobytes() if x.values.dtype != object else repr(x.values.tolist()))
    if isinstance(x, pd.Index):
        return ("idx", repr(x.name), x.values.tobytes() if x.values.dtype != object else repr(x.values.tolist()))
    if isinstance(x, (list, tuple)):
        return (type(x).__name__,) + tuple(_snap(v) for v in x)
    if isinstance(x, dict):
        return ("dict",) + tuple((k, _snap(v)) for k, v in sorted(x.items()))
    if x is None or isinstance(x, (int, float, str, bool, np.generic)):
        return ("v", repr(x))
    mod = getattr(type(x), "__module__", "") or ""
    if mod.startswith("pyins") and hasattr(x, "__dict__"):
        # an object of the library handed to a call (a sensor model, a measurement): everything it holds, except the one
        # documented exception -- the ESTIMATE state of a sensor model handed to a filter (transform, bias)
        skip = {"transform", "bias"} if type(x).__name__ == "EstimationModel" else set()
        return ("obj", type(x).__name__) + tuple((k, _snap(v)) for k, v in sorted(vars(x).items()) if k not in skip)
    return ("obj", type(x).__name__)


def _check_call(name, make):
    try:
        f, args, kw = make()
        before = _snap(args), _snap(kw)
        r1 = f(*args, **kw)
        after = _snap(args), _snap(kw)
        s1 = _snap(r1)
        if before != after:
            return dict(call=name, what="an argument was modified")
        f2, args2, kw2 = make()
        r2 = f2(*args2, **kw2)
        if _snap(r2) != s1:
            return dict(call=name, what="second call with equal inputs (and equal seeds) gives a different result")
        if _snap(r1) != s1:
            return dict(call=name, what="first result changed by the second call (aliased state)")
        # the caller OWNS what a call returns: overwriting the returned arrays / tables in place must not reach into the
        # library (a cache or a preallocated buffer handed out as the result)
        if _scale_in_place(r1):
            f3, args3, kw3 = make()
            r3 = f3(*args3, **kw3)
            if _snap(r3) != s1:
                return dict(call=name, what="after the caller overwrote the FIRST result in place, a call with equal inputs gives a different result "
                                            "(the function hands out an object it keeps: a cached or preallocated array)")
    except Exception as exc:
        return dict(call=name, what="raised %r" % (exc,))
    return None


def _scale_in_place(x, k=1.0 + 2.0 ** -7):
    """overwrite the CONTENT of float arrays / tables in place (same objects, new values); returns True if anything changed"""
    changed = False
    if isinstance(x, np.ndarray):
        if x.dtype.kind == "f" and x.flags.writeable and x.size:
            x *= k
            changed = True
    elif isinstance(x, pd.DataFrame):
        num = [c for c in x.columns if x[c].dtype.kind == "f"]
        if num and len(x):
            x.loc[:, num] = x[num].values * k
            changed = True
    elif isinstance(x, pd.Series):
        if x.dtype.kind == "f" and len(x):
            x.iloc[:] = x.values * k
            changed = True
    elif isinstance(x, (list, tuple)):
        for v in x:
            changed = _scale_in_place(v, k) or changed
    elif isinstance(x, dict):
        for v in x.values():
            changed = _scale_in_place(v, k) or changed
    return changed


def _check_inplace(name, make):
    """the caller REUSES its argument objects: call, overwrite the arguments' content in place, call again with the same
    objects; the second result must be what fresh copies of the new content give (no reference to an argument is retained,
    no result is keyed on the identity of an argument)"""
    import copy
    try:
        f, args, kw = make()

        def run(a, k_):
            try:
                return ("ok", _snap(f(*a, **k_)))
            except Exception as exc:
                return ("raised", type(exc).__name__)
        # reference first, from separate objects holding the new content; then prime with the caller's objects, overwrite
        # their content in place and call again with the very same objects
        scaled_args, scaled_kw = copy.deepcopy(args), copy.deepcopy(kw)
        if not (_scale_in_place(scaled_args) | _scale_in_place(scaled_kw)):
            return None
        want = run(scaled_args, scaled_kw)
        run(args, kw)
        _scale_in_place(args)
        _scale_in_place(kw)
        again = run(args, kw)
        if again != want:
            return dict(call=name, what="after the caller overwrote its arrays in place, a second call with the SAME objects differs from a call with fresh copies of the new content (a reference to an argument, or its identity, is kept between calls)")
    except Exception as exc:
        return dict(call=name, what="in-place reuse scenario raised %r" % (exc,))
    return None


def _forms(py):
    """scalar / stacked / list / table forms give the same values"""
    E, T, U = py.earth, py.transform, py.util
    bad = []

    def same(name, a, b):
        a, b = np.asarray(a, dtype=float), np.asarray(b, dtype=float)
        if a.shape != b.shape or not np.array_equal(a, b):
            if a.shape != b.shape or not np.allclose(a, b, rtol=1e-14, atol=0):
                bad.append(name)
    lla = np.array([[55.0, 37.0, 120.0], [-33.0, 151.0, 40.0]])
    for f in (T.lla_to_ecef, E.gravitation_ecef):
        st = f(lla)
        same(f.__name__ + " scalar/stacked", [f(lla[0]), f(lla[1])], st)
        same(f.__name__ + " list", f(lla.tolist()), st)
        same(f.__name__ + " DataFrame", f(pd.DataFrame(lla, columns=["lat", "lon", "alt"])), st)
    for f in (E.principal_radii, E.gravity, E.gravity_n, E.curvature_matrix):
        st = f(lla[:, 0], lla[:, 2])
        one = [f(lla[k, 0], lla[k, 2]) for k in range(2)]
        if isinstance(st, tuple):
            for j in range(3):
                same(f.__name__ + " scalar/stacked", [one[0][j], one[1][j]], st[j])
        else:
            same(f.__name__ + " scalar/stacked", one, st)
        s2 = f(pd.Series(lla[:, 0]), pd.Series(lla[:, 2]))
        same(f.__name__ + " Series", np.asarray(s2[0]) if isinstance(s2, tuple) else s2, st[0] if isinstance(st, tuple) else st)
    same("rate_n scalar/stacked", [E.rate_n(55.0), E.rate_n(-33.0)], E.rate_n(lla[:, 0]))
    same("mat_en_from_ll scalar/stacked", [T.mat_en_from_ll(55.0, 37.0), T.mat_en_from_ll(-33.0, 151.0)], T.mat_en_from_ll(lla[:, 0], lla[:, 1]))
    rph = np.array([[1.0, -2.0, 40.0], [10.0, 20.0, -170.0]])
    same("mat_from_rph scalar/stacked", [T.mat_from_rph(rph[0]), T.mat_from_rph(rph[1])], T.mat_from_rph(rph))
    same("mat_from_rph list/DataFrame", T.mat_from_rph(rph.tolist()), T.mat_from_rph(pd.DataFrame(rph, columns=["roll", "pitch", "heading"])))
    m = T.mat_from_rph(rph)
    same("mat_to_rph scalar/stacked", [T.mat_to_rph(m[0]), T.mat_to_rph(m[1])], T.mat_to_rph(m))
    same("ecef_to_lla scalar/stacked", [T.ecef_to_lla(T.lla_to_ecef(lla[0])), T.ecef_to_lla(T.lla_to_ecef(lla[1]))], T.ecef_to_lla(T.lla_to_ecef(lla)))
    d = np.array([[1.0, 2.0, 3.0], [-4.0, 5.0, 0.5]])
    same("perturb_lla scalar/stacked", [T.perturb_lla(lla[0], d[0]), T.perturb_lla(lla[1], d[1])], T.perturb_lla(lla, d))
    same("perturb_lla list", T.perturb_lla(lla.tolist(), d.tolist()), T.perturb_lla(lla, d))
    same("compute_lla_difference scalar/stacked", [T.compute_lla_difference(lla[0], lla[1]), T.compute_lla_difference(lla[1], lla[0])], T.compute_lla_difference(lla, lla[::-1]))
    same("skew_matrix scalar/stacked", [U.skew_matrix(d[0]), U.skew_matrix(d[1])], U.skew_matrix(d))
    same("to_180_range scalar/array/Series", [float(U.to_180_range(-900.0)), float(U.to_180_range(181.0))], U.to_180_range(np.array([-900.0, 181.0])))
    same("to_180_range Series", U.to_180_range(pd.Series([-900.0, 181.0])).values, U.to_180_range(np.array([-900.0, 181.0])))
    em = py.error_model.InsErrorModel()
    traj = _data(py)["traj"].iloc[:3]
    Fs = em.system_matrices(traj)
    for k in range(3):
        one = em.system_matrices(traj.iloc[k])
        for j in range(3):
            same("system_matrices Series/DataFrame", one[j], Fs[j][k])
    same("transform_to_output Series/DataFrame", em.transform_to_output(traj.iloc[1]), em.transform_to_output(traj)[1])
    return bad


def _standin(ctx, py):
    t0 = time.time()
    calls = _calls(py)
    fails = []
    first = {}
    for name, make in calls:
        r = _check_call(name, make)
        if r:
            fails.append(r)
        else:
            f, a, k = make()
            first[name] = _snap(f(*a, **k))
            r = _check_inplace(name, make)
            if r:
                fails.append(r)
    # independence of call order: run everything again in reverse order and compare with the first pass
    for name, make in reversed(calls):
        if name in first:
            try:
                f, a, k = make()
                if _snap(f(*a, **k)) != first[name]:
                    fails.append(dict(call=name, what="result depends on the calls made before it (different result in the reversed pass)"))
            except Exception as exc:
                fails.append(dict(call=name, what="raised %r in the reversed pass" % (exc,)))
    ctx.standin("C19.rt.frame_repeat_order", "%d public call scenarios over all ten modules (ndarray / DataFrame / Series arguments, writable float arrays, both altitude modes, seeded RNG): deep bitwise snapshot of every argument before / after, call twice with equal inputs, arguments overwritten in place and the same objects passed again, then all calls again in reverse order" % len(calls),
                4 * len(calls), fails, time_s=time.time() - t0)
    from props import forms as _forms_battery
    _forms_battery.forms_obligations(ctx, py, "C19", set(MODULES))
    t1 = time.time()
    bad = _forms(py)
    ctx.standin("C19.rt.forms", "scalar vs stacked vs list vs Series / DataFrame argument forms of 18 functions give the same values (bit-equal or 1e-14 relative)", 40,
                [dict(function=b) for b in bad], time_s=time.time() - t1)


def replay(obligation, cex):
    py = load()
    if obligation.startswith("C19.frame.") and cex:
        return _native_frame(py, cex.get("module", ""), cex.get("function", ""))
    fails = [r for r in (_check_call(n, m) for n, m in _calls(py)) if r]
    return dict(reproduced=bool(fails), failures=fails[:3])
