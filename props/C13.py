"""C13 -- No-altitude mode keeps altitude frozen and vertical velocity zero."""
import ast
import inspect
import textwrap
import time

import numpy as np
import pandas as pd

from pvx.harness import Ob
from pvx.loader import load, tdomain
from pvx.sym import TSym, T, T_ZERO, t_const, Sym, explore
from props.C02 import t_pva, t_increments, node, NAMES, INC, _float_setup

MANIFEST = dict(
    category="proof",
    technique="2D class invariant of Integrator (VD literal 0.0, altitude the supplied leaf) established in an uninterpreted trace domain with only IEEE-exact rewrites (x+0.0, x*1, 0*finite); correct_pva / T_oi / _compute_sd executed in the same domain; AST frame check of the feedback filter's writes to the integrator; run-time stand-in on the real filter; Bounded stand-ins shared by all properties (labelled bounded, never counted as proved): the argument-form battery of the modules under contract (batches of 1 and 1200 rows, integer-typed values, labels / columns in other orders, extra labels); where the frame analysis finds state that outlives a call (a cache, a memo) the frame obligation becomes a dynamic purity contract against pristine process states; names the proofs replace by scipy contracts are checked to be bound to the library's functions (else a differential test).",
    text="In the trace domain equality is identity of operation DAGs, so 'exactly zero' and 'exactly equal' are decided without any arithmetic law beyond x+0.0=x, x*1=x, 0.0*finite=0.0. With altitude modelling off it is proved for all increments and all supplied states (including non-zero vertical velocity) that the constructor and set_pva establish, and every kernel step preserves and needs, the invariant 'vertical velocity is the literal 0.0 and altitude is the very value most recently supplied'; that a 2D correction returns the input altitude and vertical velocity cells themselves; that the feedback filter writes the integrator only through integrate and set_pva(correct_pva(get_pva(), .)); and that the down / VD rows of the output transform are literal zeros so both filters' standard deviations for them are the literal 0.0 for finite covariances. The measurement models' vertical row is dropped (C06 shape obligations re-run).",
    note="A2, A4; finite covariance and state values (0.0*x = 0.0); sign of zero not distinguished; pandas object-dtype operations executed; the filter-level statement is a lemma over C09's loop frame plus the per-method obligations here, additionally exercised by a bounded native run.",
)
LEVEL = "proof"
LEVEL_NOTE = MANIFEST["text"]

from props import sched


def is_zero(c):
    return node(c) is T_ZERO


def _invariants(ctx, py):
    """Inv2D of the integrator, of correct_pva, of the output transform and of the sd / feed-forward assembly (trace domain)"""
    S = py.strapdown
    t0 = time.time()
    deferred = []
    real_ob = ctx.ob

    class _Defer:
        """inside a patched-domain block native replays must not run: obligations are queued and emitted afterwards"""
        def ob(self, name, kind, ok, backend="", time_s=0.0, detail="", cex=None, native=None):
            deferred.append((name, kind, ok, backend, time_s, detail, cex, native))
    dctx = _Defer()

    def flush():
        for (name, kind, ok, backend, time_s, detail, cex, native) in deferred:
            real_ob(name, kind, ok, backend, time_s, detail, cex=cex, native=(native() if callable(native) else native))
        del deferred[:]

    # ---- integrator invariant --------------------------------------------------------------------------
    times = [0.1, 0.2, 0.3]
    # the SUPPLIED vertical velocities are values the contract assumes nothing about -- not even that they are finite (a 2D
    # user has none to give): the finite-only rewrites (x*0.0 -> 0.0, x-x -> 0.0) are not applied to what depends on them
    from pvx.sym import nonfinite_leaves
    with nonfinite_leaves("p_VD", "q_VD", "w_VD"), tdomain(py, extra=__import__('props.helpers', fromlist=['capacity_patches']).capacity_patches(py, 2)):
        p = t_pva("p")
        it = S.Integrator(p, False)
        ok_init = is_zero(it.velocity_n[0, 2]) and is_zero(it.trajectory.iloc[0]["VD"]) and node(it.lla[0, 2]) is node(p["alt"])
        dctx.ob("C13.init.inv2d", "T", ok_init, "trace-domain", time.time() - t0,
               "constructor: buffer VD and trajectory VD are the literal 0.0 although the supplied VD is a free value; altitude is the supplied cell")
        unchanged_arg = node(p["VD"]) is node(T("p_VD"))
        dctx.ob("C13.init.argument_untouched", "f", unchanged_arg, "trace-domain", 0.0, "the caller's pva still holds its own VD")
        inc = t_increments(times)
        out = it.integrate(inc.iloc[:2])
        ok_step = all(is_zero(it.trajectory.iloc[k]["VD"]) and node(it.trajectory.iloc[k]["alt"]) is node(p["alt"]) for k in range(3)) \
            and all(is_zero(it.velocity_n[k, 2]) and node(it.lla[k, 2]) is node(p["alt"]) for k in range(3))
        dctx.ob("C13.kernel.step2d.preserves_inv2d", "T", ok_step, "trace-domain(DAG identity)", time.time() - t0,
               "every produced row: VD is the literal 0.0 and alt is the very cell supplied (alt - (0.5*(0.0+0.0))*dt rewrites to alt)",
               cex=None if ok_step else dict(alt_rows=[repr(node(it.trajectory.iloc[k]["alt"]))[:120] for k in range(3)]),
               native=None if ok_step else (lambda: _native_integrator(py, False)))
        # the step NEEDS the invariant: from a state with VD a free value the altitude would move
        q = t_pva("q", t0=it.get_time())
        it.set_pva(q)                       # q_VD is a free (non-zero) value
        out = it.integrate(inc.iloc[2:3])
        k = len(it.trajectory) - 1
        ok_set = (is_zero(it.trajectory.iloc[k]["VD"]) and node(it.trajectory.iloc[k]["alt"]) is node(q["alt"])
                  and is_zero(it.trajectory.iloc[k - 1]["VD"]) and node(it.trajectory.iloc[k - 1]["alt"]) is node(q["alt"])
                  and all(node(it.trajectory.iloc[j]["alt"]) is node(p["alt"]) for j in range(k - 1)))
        dctx.ob("C13.set_pva.inv2d", "T", ok_set, "trace-domain(DAG identity)", time.time() - t0,
               "after set_pva(q) with arbitrary q.VD: the overwritten row and every later row have VD literal 0.0 and alt == q.alt; earlier rows keep the earlier altitude",
               cex=None if ok_set else dict(supplied_VD="free value q_VD", next_row_alt=repr(node(it.trajectory.iloc[k]["alt"]))[:200],
                                            overwritten_row_VD=repr(node(it.trajectory.iloc[k - 1]["VD"]))[:80]),
               native=None if ok_set else (lambda: _native_integrator(py, True)))
        # the same with states whose labels are stored in another (consistent) order: VD is addressed by LABEL
        order_ = ["heading", "pitch", "roll", "VD", "VE", "VN", "alt", "lon", "lat"]
        p2, q3 = t_pva("p")[order_], t_pva("w", t0=0.2)[order_]
        it3 = S.Integrator(p2, False)
        it3.integrate(inc.iloc[:2])
        it3.set_pva(q3)
        it3.integrate(inc.iloc[2:3])
        k3 = len(it3.trajectory) - 1
        ok_lab = (all(is_zero(it3.trajectory.iloc[j]["VD"]) for j in range(k3 + 1)) and is_zero(it3.get_pva()["VD"])
                  and node(it3.trajectory.iloc[k3]["alt"]) is node(q3["alt"]) and node(it3.trajectory.iloc[k3 - 1]["heading"]) is node(q3["heading"])
                  and all(is_zero(it3.velocity_n[j, 2]) for j in range(k3 + 1)))
        dctx.ob("C13.set_pva.inv2d.labels_in_another_order", "T", ok_lab, "trace-domain(DAG identity)", 0.0,
               "initial and overwriting states with labels stored as %s: every row's VD (by label) is the literal 0.0, the overwritten row keeps the supplied heading, altitude follows the supplied one" % order_,
               cex=None if ok_lab else dict(label_order=order_, VD_cells=[repr(node(it3.trajectory.iloc[j]["VD"]))[:60] for j in range(k3 + 1)]),
               native=None if ok_lab else (lambda: _native_label_order(py)))
        pr = it.predict(t_increments([0.4]).iloc[0])
        dctx.ob("C13.predict.inv2d", "T", is_zero(pr["VD"]) and node(pr["alt"]) is node(q["alt"]), "trace-domain(DAG identity)", 0.0,
               "predicted row: VD literal 0.0, alt the supplied cell")

    flush()

    # ---- correction in the 2D error model ----------------------------------------------------------------
    with tdomain(py):
        em = py.error_model.InsErrorModel(False)
        pva = t_pva("s")
        x = np.array([T("x%d" % i) for i in range(7)], dtype=object)
        cor = em.correct_pva(pva, x)
        ok_cor = node(cor["alt"]) is node(pva["alt"]) and node(cor["VD"]) is node(pva["VD"])
        dctx.ob("C13.correct_pva.keeps_alt_vd", "T", ok_cor, "trace-domain(DAG identity)", time.time() - t0,
               "correct_pva(2D) returns the input altitude and vertical-velocity cells themselves for every (finite) x",
               cex=None if ok_cor else dict(alt=repr(node(cor["alt"]))[:200], VD=repr(node(cor["VD"]))[:200]),
               native=None if ok_cor else (lambda: _native_correct(py)))
        Tm = em.transform_to_output(pva)
        ok_rows = all(is_zero(Tm[r_, j]) for r_ in (2, 5) for j in range(7))
        dctx.ob("C13.T_oi.rows_literal_zero", "T", ok_rows, "trace-domain", 0.0, "rows down, VD of T_oi(2D) are the literal 0.0")
        df = pd.DataFrame([pva.values, t_pva("u").values], index=[0.0, 1.0], columns=NAMES, dtype=object)
        Ts = em.transform_to_output(df)
        dctx.ob("C13.T_oi.rows_literal_zero.stacked", "T", all(is_zero(Ts[k, r_, j]) for k in range(2) for r_ in (2, 5) for j in range(7)),
               "trace-domain", 0.0, "same for the DataFrame form")

        # ---- standard deviations -----------------------------------------------------------------------------
        F = py.filters
        gm, am = py.inertial_sensor.EstimationModel(), py.inertial_sensor.EstimationModel(bias_sd=[1.0, 0, 2.0])
        n = 7 + am.n_states
        P = np.empty((2, n, n), dtype=object)
        for k in range(2):
            for i in range(n):
                for j in range(n):
                    P[k, i, j] = T("P%d_%d_%d" % (k, min(i, j), max(i, j)))
        tsd, gsd, asd = F._compute_sd(P, df, em, gm, am)
        ok_sd = all(is_zero(tsd.iloc[k]["down"]) and is_zero(tsd.iloc[k]["VD"]) for k in range(2)) and not is_zero(tsd.iloc[0]["north"])
        dctx.ob("C13.sd_zero.feedback", "T", ok_sd, "trace-domain", time.time() - t0,
               "_compute_sd: down and VD standard deviations are the literal 0.0 for every finite covariance (sqrt(0.0) folded), other columns are not",
               cex=None if ok_sd else dict(down=repr(node(tsd.iloc[0]["down"]))[:200]), native=None if ok_sd else (lambda: _native_filter(py)))
        xs = np.empty((2, n), dtype=object)
        for k in range(2):
            for i in range(n):
                xs[k, i] = T("X%d_%d" % (k, i))
        res = F._compute_feedforward_result(xs, P, df, df.copy(), em, gm, am)
        tsd2 = res[1]
        traj2 = res[0]
        ok_ff = all(is_zero(tsd2.iloc[k]["down"]) and is_zero(tsd2.iloc[k]["VD"]) for k in range(2))
        dctx.ob("C13.sd_zero.feedforward", "T", ok_ff, "trace-domain", time.time() - t0, "_compute_feedforward_result: same")
        ok_tr = all(node(traj2.iloc[k]["alt"]) is node(df.iloc[k]["alt"]) and node(traj2.iloc[k]["VD"]) is node(df.iloc[k]["VD"]) for k in range(2))
        dctx.ob("C13.feedforward.compensation_keeps_alt_vd", "T", ok_tr, "trace-domain(DAG identity)", 0.0,
               "the compensated trajectory's alt and VD cells are the input cells (alt + 0.0, VD - 0.0)")

    flush()


def run(ctx):
    py = load()
    S = py.strapdown
    ctx.under_contract("pyins.strapdown.Integrator.__init__ (2D)", "pyins.strapdown.Integrator.set_pva (2D)",
                       "pyins._numba_integrate.integrate (py_func, with_altitude=False path)",
                       "pyins.error_model.InsErrorModel.correct_pva (2D)", "pyins.error_model.InsErrorModel.transform_to_output (2D)",
                       "pyins.filters._compute_sd", "pyins.filters._compute_feedforward_result", "pyins.filters.run_feedback_filter (frame of integrator writes)",
                       "pyins.measurements.Position/NedVelocity.compute_matrices (2D shapes)")
    ctx.trust("IEEE-754: x+0.0 = x, x-0.0 = x, x*1.0 = x, 0.0*x = 0.0 for finite x (up to the sign of zero)",
              "pandas / numpy structural operations on object arrays (executed)", "numba faithful (A4)")
    ctx.assume("finite covariance matrices and error vectors", "C09 loop contract for the filter-level clause (lemma)")
    ctx.guard(_invariants, ctx, py)

    # ---- the feedback filter writes the integrator only through integrate / set_pva(correct_pva(get_pva(), .)) --
    ctx.guard(_filter_frame, ctx, py)
    ctx.guard(_filter_trace_runs, ctx, py)
    ctx.guard(_filter_standin, ctx, py)

    # ---- measurement models drop the vertical row (C06 obligations, 2D) -------------------------------------
    from props import C06
    for kind in ("Position", "NedVelocity"):
        C06._one(ctx, py, kind, False, False, False)

    from props import helpers as _helpers
    ctx.guard(_helpers.integrator_argument_forms, ctx, py, "C13")
    # correct_pva reaches transform.perturb_lla: its closed form for all longitudes (C16's contract) re-established here
    from props import C16 as _C16
    ctx.guard(_C16.perturb_contract, ctx, py, "C13")
    # frame of the modules under contract (no state kept between calls, arguments left alone): same analysis as C19
    from props import C19 as _C19
    ctx.guard(_C19.frame_obligations, ctx, py, "C13", {'_numba_integrate', 'util', 'error_model', 'strapdown', 'transform', 'filters', 'measurements'})


def _filter_frame(ctx, py):
    src = textwrap.dedent(inspect.getsource(py.filters.run_feedback_filter))
    fn = ast.parse(src).body[0]
    created = [n for n in ast.walk(fn) if isinstance(n, ast.Assign) and isinstance(n.targets[0], ast.Name) and isinstance(n.value, ast.Call)
               and ast.unparse(n.value.func).endswith("Integrator")]
    var = created[0].targets[0].id if len(created) == 1 else None
    calls = [n for n in ast.walk(fn) if isinstance(n, ast.Call) and isinstance(n.func, ast.Attribute)
             and isinstance(n.func.value, ast.Name) and n.func.value.id == var]
    methods = sorted({c.func.attr for c in calls})
    ok_m = var is not None and set(methods) <= {"get_time", "get_pva", "predict", "integrate", "set_pva"}
    sets = [c for c in calls if c.func.attr == "set_pva"]
    ok_s = all(ast.unparse(c.args[0]).replace(" ", "").replace("\n", "").startswith("error_model.correct_pva(%s.get_pva()," % var) for c in sets)
    stores = [n for n in ast.walk(fn) if isinstance(n, (ast.Attribute, ast.Subscript)) and isinstance(n.ctx, ast.Store)
              and any(isinstance(x, ast.Name) and x.id == var for x in ast.walk(n))]
    params = [a.arg for a in fn.args.args]
    ok_c = (len(created) == 1 and len(created[0].value.args) == 2 and ast.unparse(created[0].value.args[0]) == params[0]
            and ast.unparse(created[0].value.args[1]) == "with_altitude")
    ctx.ob("C13.filter.integrator_writes", "f", ok_m and ok_s and not stores and ok_c, "ast-frame", 0.0,
           "integrator created once as Integrator(<initial pva argument>, with_altitude); methods used: %s; set_pva argument is correct_pva(get_pva(), .); no attribute/item stores on it" % methods,
           cex=None if (ok_m and ok_s and not stores and ok_c) else dict(methods=methods, set_pva_args=[ast.unparse(c.args[0]) for c in sets], stores=[ast.unparse(s_) for s_ in stores]))


TRACE_SCHEDULES = [
    # (increment stamps, per-sensor measurement stamps, time_step)
    ([0.1, 0.2, 0.3, 0.4, 0.5, 0.6], [[0.15, 0.32, 0.35, 0.38], [0.32, 0.6, 0.05]], 0.25),
    ([0.1, 0.2, 0.3, 0.4, 0.5, 0.6], [[0.1, 0.2, 0.3, 0.4, 0.5, 0.6], [0.3]], 0.1),
    ([0.1, 0.2, 0.3, 0.4, 0.5, 0.6, 0.7, 0.8], [[0.45], [0.0, 0.8]], 10.0),
    ([0.1, 0.25, 0.3, 0.55, 0.6], [[0.26, 0.27, 0.56], [0.3, 0.31]], 0.07),
]


def _filter_trace_runs(ctx, py):
    """the REAL, uncut run_feedback_filter on symbolic payloads (every increment, initial state, error estimate, gain
    and covariance value is a free symbol; only the stamps are concrete): every trajectory row has VD literally 0.0 and
    the initial altitude cell itself, and the 2D sensor models / sd rows are as claimed"""
    scheds = TRACE_SCHEDULES if ctx.tier != "quick" else TRACE_SCHEDULES[:2]
    for k, (times, stamps, step) in enumerate(scheds):
        t0 = time.time()
        res, pva, inc, ref = sched.feedback_filter_trace(py, times, stamps, step, False)
        tr = res.trajectory
        bad = [float(tr.index[i]) for i in range(len(tr)) if not (node(tr.iloc[i]["VD"]) is T_ZERO and node(tr.iloc[i]["alt"]) is node(pva["alt"]))]
        ok = not bad and len(tr) == len(times) + 1
        ctx.ob("C13.filter.trace_run[%d]" % k, "T", ok, "trace-domain(real uncut filter, symbolic payload)", time.time() - t0,
               "stamps %s, measurements %s, time_step %s: all %d rows keep VD literal 0.0 and the initial alt cell" % (times, stamps, step, len(tr)),
               cex=None if ok else dict(rows=bad[:6], n_rows=len(tr)), native=None if ok else _native_filter(py))


def _native_integrator(py, with_set):
    S = py.strapdown
    out = None
    for supplied in (2.0, float("nan"), float("inf")):       # a supplied vertical velocity is discarded whatever it is
        pva, inc = _float_setup(py, 6)
        inc["dv_z"] = -3.0 * inc["dt"]            # large vertical specific force
        pva = pva.copy(); pva["VD"] = supplied
        try:
            it = S.Integrator(pva, False)
            it.integrate(inc.iloc[:3])
            alt0 = pva["alt"]
            if with_set:
                q = it.get_pva().copy(); q["VD"] = supplied; q["alt"] = 321.0
                it.set_pva(q)
                alt0 = 321.0
                it.integrate(inc.iloc[3:])
                rows = it.trajectory.iloc[3:]
            else:
                rows = it.trajectory
        except Exception as exc:
            # the supplied vertical velocity is to be discarded: it cannot make the integration fail
            return dict(reproduced=True, supplied_VD=repr(supplied), exception=repr(exc)[:300])
        bad = bool(np.any(rows["VD"].values != 0.0) or np.any(rows["alt"].values != alt0))
        res = dict(reproduced=bad, supplied_VD=repr(supplied), altitudes=[float(a) for a in rows["alt"].values], VD=[float(a) for a in rows["VD"].values])
        if bad:
            return res
        out = out or res
    return out


def _native_correct(py):
    em = py.error_model.InsErrorModel(False)
    pva = pd.Series([50.0, 30.0, 123.456, 3.0, -2.0, 0.7, 1.0, -2.0, 40.0], index=NAMES)
    x = np.array([3.0, -2.0, 0.3, 0.1, 1e-3, -2e-3, 5e-3])
    c = em.correct_pva(pva, x)
    return dict(reproduced=bool(c["alt"] != pva["alt"] or c["VD"] != pva["VD"]), alt=float(c["alt"]), VD=float(c["VD"]))


def _run_filter_2d(py, seed, n=120):
    rng = np.random.RandomState(seed)
    dt = 0.05
    t = np.arange(1, n + 1) * dt
    pva = pd.Series([50.0, 30.0, 100.0, 3.0, -2.0, 1.5, 1.0, -2.0, 40.0], index=NAMES, name=0.0)
    inc = pd.DataFrame(np.hstack([np.full((n, 1), dt), rng.randn(n, 3) * 1e-3, rng.randn(n, 2) * 1e-2, (-9.8 + 4 * rng.randn(n, 1)) * dt]),
                       index=pd.Index(t), columns=INC)
    mt = t[9::10]
    pos = pd.DataFrame(dict(lat=50.0 + 1e-6 * rng.randn(len(mt)), lon=30.0 + 1e-6 * rng.randn(len(mt)), alt=100 + rng.randn(len(mt))), index=mt)
    vel = pd.DataFrame(dict(VN=3 + 0.1 * rng.randn(len(mt)), VE=-2 + 0.1 * rng.randn(len(mt)), VD=0.3 * rng.randn(len(mt))), index=mt + 0.02)
    M = py.measurements
    return py.filters.run_feedback_filter(pva, 5.0, 0.5, 1.0, 2.0, inc, measurements=[M.Position(pos, 2.0), M.NedVelocity(vel, 0.2)],
                                          time_step=0.2, with_altitude=False), pva


def _native_filter(py):
    res, pva = _run_filter_2d(py, 1)
    bad = bool(np.any(res.trajectory["VD"].values != 0.0) or np.any(res.trajectory["alt"].values != pva["alt"])
               or np.any(res.trajectory_sd["down"].values != 0.0) or np.any(res.trajectory_sd["VD"].values != 0.0))
    return dict(reproduced=bad)


def _filter_standin(ctx, py):
    t0 = time.time()
    fails = []
    n_runs = 2 if ctx.tier == "quick" else 10
    for k in range(n_runs):
        res, pva = _run_filter_2d(py, ctx.seed + k)
        if (np.any(res.trajectory["VD"].values != 0.0) or np.any(res.trajectory["alt"].values != pva["alt"])
                or np.any(res.trajectory_sd["down"].values != 0.0) or np.any(res.trajectory_sd["VD"].values != 0.0)
                or len(res.innovations["Position"].columns) != 2 or len(res.innovations["NedVelocity"].columns) != 2):
            fails.append(dict(seed=ctx.seed + k, alt_set=sorted(set(map(float, res.trajectory["alt"].values)))[:4],
                              VD_nonzero=int(np.sum(res.trajectory["VD"].values != 0.0))))
    ctx.standin("C13.filter.rt", "%d seeded real feedback-filter runs (120 increments, initial VD=1.5, vertical specific-force noise, position+velocity measurements), with_altitude=False: alt constant, VD==0.0, sd(down)=sd(VD)=0.0 exactly, 2-column innovations" % n_runs,
                n_runs, fails, time_s=time.time() - t0)


def _native_label_order(py):
    S = py.strapdown
    order_ = ["heading", "pitch", "roll", "VD", "VE", "VN", "alt", "lon", "lat"]
    pva, inc = _float_setup(py, 6)
    it = S.Integrator(pva[order_], False)
    it.integrate(inc.iloc[:3])
    q = pva.copy()
    q["VD"], q["alt"], q["heading"] = -2.5, 420.0, 77.0
    q.name = float(it.get_time())
    it.set_pva(q[order_])
    it.integrate(inc.iloc[3:])
    tr = it.trajectory
    bad = bool(np.any(tr["VD"].values != 0.0) or np.any(tr["alt"].values[3:] != 420.0) or tr["heading"].values[3] != 77.0)
    return dict(reproduced=bad, label_order=order_, VD_column=list(map(float, tr["VD"].values)), heading_of_overwritten_row=float(tr["heading"].values[3]))


def replay(obligation, cex):
    py = load()
    if obligation == "C13.set_pva.inv2d.labels_in_another_order":
        return _native_label_order(py)
    if obligation == "C13.set_pva.inv2d":
        return _native_integrator(py, True)
    if obligation.startswith("C13.kernel") or obligation.startswith("C13.init"):
        return _native_integrator(py, False)
    if obligation.startswith("C13.correct_pva"):
        return _native_correct(py)
    if obligation.startswith("C13.sd_zero") or obligation.startswith("C13.filter"):
        return _native_filter(py)
    from pvx.harness import Ctx
    ctx = Ctx("C13", "quick", 0, "props.C13")
    run(ctx)
    o = next((o for o in ctx.obs if o.name == obligation), None)
    return dict(reproduced=bool(o and o.status == "failed"), obligation=obligation, status=o.status if o else "absent")
