"""C15 -- Coning/sculling increments are high-order accurate body-frame integrals."""
import time

import numpy as np
import pandas as pd
import sympy as sp

from pvx import field
from pvx.claims import taylor_spec, flat, flat_float
from pvx.harness import Ob
from pvx.loader import load, rdomain
from pvx.sym import RSym
from spec import increments as SI

MANIFEST = dict(
    category="proof",
    technique="symbolic execution of the real compute_increments_from_imu on a pandas DataFrame of sympy reals with symbolic (irregular) time stamps; Taylor coefficients h^1..h^3 compared with the exact Bortz / rotated-specific-force series; float64 stand-in: bit-identical increments under an exact shift of the time origin (accuracy independent of the size of the time tags); Every claim is also checked for call history: the real code is run twice in the same symbolic world (primed inputs first; same captured objects and module state) and the second result must still meet the contract on every path a concrete witness input takes; value-dependent branches inside a claim are explored path by path. The frame obligations (C19's analysis) of the modules under contract are re-established under this property's name.; Bounded stand-ins shared by all properties (labelled bounded, never counted as proved): the argument-form battery of the modules under contract (batches of 1 and 1200 rows, integer-typed values, labels / columns in other orders, extra labels); where the frame analysis finds state that outlives a call (a cache, a memo) the frame obligation becomes a dynamic purity contract against pristine process states; names the proofs replace by scipy contracts are checked to be bound to the library's functions (else a differential test).",
    text="The real function is executed on symbolic rate and increment samples of signals linear in time (symbolic 3-vectors a,b,c,d, symbolic interval ratios, so irregular stamps are covered) and the coefficients of h, h^2, h^3 of each rotation vector and velocity increment are proved equal to those of the exact solution (Bortz equation solved by Picard iteration; specific force rotated into the start-of-interval frame), the only admitted cubic discrepancy being the neglected second-order rotation term a x (a x c) h^3/6. Output schema (rows, index, dt column, columns) is read off the executed result. For general smooth signals the order statement follows by Taylor's theorem (assumed).",
    note="A1-A6; Taylor's theorem; pandas object-dtype DataFrame operations executed, not modelled. Known finding F10: for increment-type input with unequal consecutive intervals the fixed 1/12 coning/sculling coefficient is not exact in the cubic term.",
)
LEVEL = "proof"
LEVEL_NOTE = MANIFEST["text"]

A = sp.symbols("a1:4", real=True)
B = sp.symbols("b1:4", real=True)
Cc = sp.symbols("c1:4", real=True)
D = sp.symbols("d1:4", real=True)
p0, p1, p2 = sp.symbols("p0 p1 p2", positive=True)
eps = sp.Symbol("eps", real=True)
tau = sp.Symbol("tau", real=True)
GYRO = ["gyro_x", "gyro_y", "gyro_z"]
ACCEL = ["accel_x", "accel_y", "accel_z"]
COLS = ["dt", "theta_x", "theta_y", "theta_z", "dv_x", "dv_y", "dv_z"]
BOX = {s: (-1.0, 1.0) for s in A + B + Cc + D}
BOX.update({p0: (0.5, 2.0), p1: (0.5, 2.0), p2: (0.5, 2.0)})


def _vec(v, names):
    return [v[n.name] for n in names]


def _imu(times, gyro, accel):
    sym = any(isinstance(x, RSym) for x in times) or any(isinstance(x, RSym) for r in gyro for x in r)
    data = np.empty((len(times), 6), dtype=object if sym else float)
    for i in range(len(times)):
        for j in range(3):
            data[i, j] = gyro[i][j]
            data[i, 3 + j] = accel[i][j]
    idx = pd.Index(list(times), dtype=object if sym else float, name="time")
    return pd.DataFrame(data, index=idx, columns=GYRO + ACCEL)


def _lin(x0, x1, t):
    return [x0[i] + x1[i] * t for i in range(3)]


def _int_lin(x0, x1, t0, t1):
    """integral of x0 + x1*t over [t0, t1]"""
    return [x0[i] * (t1 - t0) + x1[i] * (t1 * t1 - t0 * t0) / 2 for i in range(3)]


def _times(v, with_before):
    e = v["eps"]
    t1 = e * v["p1"]
    t2 = t1 + e * v["p2"]
    tb = -(e * v["p0"]) if with_before else None
    return tb, 0 * e, t1, t2


def code_rate(py):
    def code(v):
        a, b, c, d = _vec(v, A), _vec(v, B), _vec(v, Cc), _vec(v, D)
        _, t0, t1, t2 = _times(v, False)
        ts = [t0, t1, t2]
        imu = _imu(ts, [_lin(a, b, t) for t in ts], [_lin(c, d, t) for t in ts])
        return py.strapdown.compute_increments_from_imu(imu, "rate")
    return code


def code_incr(py, equal):
    def code(v):
        v = dict(v)
        if equal:
            v["p0"] = v["p2"] = v["p1"]
        a, b, c, d = _vec(v, A), _vec(v, B), _vec(v, Cc), _vec(v, D)
        tb, t0, t1, t2 = _times(v, True)
        ts = [t0, t1, t2]
        ends = [(tb, t0), (t0, t1), (t1, t2)]
        imu = _imu(ts, [_int_lin(a, b, s, e) for s, e in ends], [_int_lin(c, d, s, e) for s, e in ends])
        return py.strapdown.compute_increments_from_imu(imu, "increment")
    return code


def spec_rows(v, equal=False, order=3):
    """[coeffs 0..order in eps] for the 14 cells of the 2 output rows."""
    a, b, c, d = (sp.Matrix(_vec(v, X)) for X in (A, B, Cc, D))
    q1 = v["p1"]
    q2 = v["p1"] if equal else v["p2"]
    rows = []
    start = 0
    for h_ratio in (q1, q2):
        h = eps * h_ratio
        a_s, c_s = a + b * start, c + d * start
        phi = SI.rotation_vector_series(a_s + b * tau, tau, order).subs(tau, h)
        dv = SI.velocity_increment_series(a_s + b * tau, c_s + d * tau, tau, order).subs(tau, h)
        dv = dv - SI.second_order_rotation_term(a_s, c_s, h)       # the declared-neglected term
        rows.append([h] + list(phi) + list(dv))
        start = start + h
    out = []
    for cell in [x for r in rows for x in r]:
        pe = sp.Poly(sp.expand(cell), eps)
        out.append([pe.coeff_monomial(eps ** k) for k in range(order + 1)])
    return out


CELLS = ["row%d.%s" % (r, c) for r in (0, 1) for c in COLS]


def run(ctx):
    py = load()
    ctx.under_contract("pyins.strapdown.compute_increments_from_imu")
    ctx.trust("pandas DataFrame column selection / .values / Index slicing and numpy diff/cross/hstack on object arrays (executed, not modelled)",
              "spec/increments.py (Bortz equation by Picard iteration)", "sympy polys")
    ctx.assume("Taylor's theorem: order statements for general smooth (e.g. sinusoidal) signals follow from the polynomial ones")
    syms = list(A + B + Cc + D) + [p1, p2]

    # ---- rate type, irregular stamps ------------------------------------------------------
    taylor_spec(ctx, "C15.rate", syms, eps, code_rate(py), lambda v: spec_rows(v), 3, BOX, py=py,
                cell_names=CELLS, fd_step=0.05, tol=1e-6)
    # ---- increment type, equal consecutive intervals ----------------------------------------
    taylor_spec(ctx, "C15.incr.equal", list(A + B + Cc + D) + [p1], eps, code_incr(py, True),
                lambda v: spec_rows(v, equal=True), 3, BOX, py=py, cell_names=CELLS, fd_step=0.05, tol=1e-6)
    # ---- increment type, unequal consecutive intervals ("irregular stamps" of the quantifier) ---
    taylor_spec(ctx, "C15.incr.unequal", list(A + B + Cc + D) + [p0, p1, p2], eps, code_incr(py, False),
                lambda v: spec_rows(v), 3, BOX, py=py, cell_names=CELLS, fd_step=0.05, tol=1e-6)

    # ---- schema ---------------------------------------------------------------------------------
    ctx.guard(_schema, ctx, py)
    # ---- float64: the increments depend on the stamps only through their differences ------------------
    ctx.guard(_translation_standin, ctx, py)

    # frame of the modules under contract (no state kept between calls, arguments left alone): same analysis as C19
    from props import C19 as _C19
    ctx.guard(_C19.frame_obligations, ctx, py, "C15", {'strapdown', 'util'})


def _schema(ctx, py):
    t0 = time.time()
    from pvx.sym import increasing_stamps
    ts = [RSym(x) for x in increasing_stamps(4)]
    g = [[RSym(sp.Symbol("g%d%d" % (i, j), real=True)) for j in range(3)] for i in range(4)]
    a = [[RSym(sp.Symbol("f%d%d" % (i, j), real=True)) for j in range(3)] for i in range(4)]
    for st in ("rate", "increment"):
        with rdomain(py):
            imu = _imu(ts, g, a)
            keep = imu.copy()
            out = py.strapdown.compute_increments_from_imu(imu, st)
        ok_rows = len(out) == len(ts) - 1
        ok_cols = list(out.columns) == COLS
        ok_idx = all(x is y for x, y in zip(out.index, ts[1:])) and len(out.index) == 3
        dts = [sp.expand(out["dt"].iloc[i].e - (ts[i + 1].e - ts[i].e)) == 0 for i in range(3)]
        # row k mentions only the samples k, k+1 (and their stamps): uniformity of the vectorised code
        local = True
        for k in range(3):
            allowed = {ts[k].e, ts[k + 1].e} | {x.e for x in g[k] + g[k + 1] + a[k] + a[k + 1]}
            for c in COLS:
                if not out[c].iloc[k].e.free_symbols <= allowed:
                    local = False
        unchanged = all(imu.values.reshape(-1)[i] is keep.values.reshape(-1)[i] for i in range(imu.size))
        for nm, ok in (("rows", ok_rows), ("columns", ok_cols), ("index_is_imu_index_from_1", ok_idx),
                       ("dt_is_stamp_difference", all(dts)), ("row_locality", local), ("input_unchanged", unchanged)):
            ctx.ob("C15.schema.%s.%s" % (st, nm), "c" if nm != "input_unchanged" else "f", bool(ok), "symbolic-execution",
                   time.time() - t0, "4 symbolic samples, symbolic stamps",
                   cex=None if ok else dict(sensor_type=st, clause=nm), native=None if ok else _schema_native(py, st))
    # any other sensor_type raises ValueError (explicit guard at function entry)
    bad = []
    for s in ("Rate", "increments", "", "rate ", None, 0):
        try:
            py.strapdown.compute_increments_from_imu(_imu([0.0, 0.1], [[0.0] * 3] * 2, [[0.0] * 3] * 2), s)
            bad.append(repr(s))
        except ValueError:
            pass
        except Exception as exc:
            bad.append("%r -> %r" % (s, exc))
    ctx.ob("C15.schema.bad_sensor_type_raises", "c", not bad, "native-call", 0.0, "6 non-member values",
           cex=None if not bad else dict(accepted=bad), native=None if not bad else dict(reproduced=True))


def _translation_standin(ctx, py):
    """Bounded float64 stand-in for what the real-arithmetic proof cannot see: with stamps on a dyadic grid (so that shifting
    the time origin is exact), the increments of a record starting at GPS time of week or at Unix time are BIT-identical
    to those of the same record starting at 0 -- i.e. accuracy does not degrade with the size of the time tags."""
    t0 = time.time()
    fails = []
    n_eval = 0
    seeds = range(2 if ctx.tier == "quick" else 10)
    for seed in seeds:
        rng = np.random.RandomState(ctx.seed + seed)
        n = 40
        steps = rng.randint(3, 40, size=n) / 1024.0              # irregular, exactly representable
        t = np.concatenate([[0.0], np.cumsum(steps)])
        vals = np.hstack([0.5 * rng.randn(n + 1, 3), 9.8 * rng.randn(n + 1, 3)])
        for st in ("rate", "increment"):
            ref = py.strapdown.compute_increments_from_imu(pd.DataFrame(vals, index=pd.Index(t, name="time"), columns=GYRO + ACCEL), st)
            for origin in (3600.0, 345600.0, float(2 ** 30), 1.7e9):
                n_eval += 1
                out = py.strapdown.compute_increments_from_imu(pd.DataFrame(vals, index=pd.Index(t + origin, name="time"), columns=GYRO + ACCEL), st)
                if out.shape != ref.shape or not np.array_equal(out.values, ref.values):
                    worst = float(np.max(np.abs(out.values - ref.values))) if out.shape == ref.shape else None
                    fails.append(dict(sensor_type=st, time_origin=origin, seed=ctx.seed + seed, largest_difference_to_origin_0=worst,
                                      stamps="cumulative sums of k/1024 s, k in 3..39"))
    ctx.standin("C15.rt.time_translation", "%d records x {rate, increment} x 4 time origins (1 h, GPS week seconds, 2^30 s, Unix time), dyadic irregular stamps: increments bit-identical to origin 0"
                % len(list(seeds)), n_eval, fails, time_s=time.time() - t0)


def _schema_native(py, st):
    t = np.array([0.0, 1.0 / 128, 0.25 + 1e-7, 0.3 + 1.0 / 3])      # stamps that are not multiples of any decimal unit
    imu = pd.DataFrame(np.arange(24.0).reshape(4, 6), index=pd.Index(t, name="time"), columns=GYRO + ACCEL)
    out = py.strapdown.compute_increments_from_imu(imu, st)
    ok = (len(out) == 3 and list(out.columns) == COLS and np.array_equal(out.index.values, t[1:])
          and np.array_equal(out["dt"].values, np.diff(t)))
    return dict(reproduced=not ok, rows=len(out), columns=list(out.columns), stamps=list(map(float, t)),
                dt_column=list(map(float, out["dt"].values)) if "dt" in out else None, stamp_differences=list(map(float, np.diff(t))))


def replay(obligation, cex):
    from pvx.harness import Ctx
    ctx = Ctx("C15", "quick", 0, "props.C15")
    run(ctx)
    o = next((o for o in ctx.obs if o.name == obligation), None)
    return dict(reproduced=bool(o and o.status == "failed" and (o.native or {}).get("reproduced", True)),
                obligation=obligation, status=o.status if o else "absent", native_replay=o.native if o else None)
