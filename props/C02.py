"""C02 -- Integrator result is independent of call history (chunks, predict, restart)."""
import ast
import inspect
import itertools
import textwrap
import time

import numpy as np
import pandas as pd

from pvx.harness import Ob
from pvx.loader import load, tdomain, py_func
from pvx.sym import TSym, T, POISON, t_const, Sym

MANIFEST = dict(
    category="proof",
    technique="class invariant of Integrator established by executing the real methods in an uninterpreted trace domain (operation-DAG identity = bit-identity under a deterministic kernel); buffer capacity and slice arithmetic as verification conditions over all integers (z3, AST of the real _integrate); fold lemma from the kernel's loop-body contract (C01); exhaustive small-history enumeration and a float64 bitwise run as bounded stand-ins",
    text="The resize block and every slice of the real _integrate are translated from its AST and proved for ALL n_data>=1, n_readings>=0, size>=n_data: the kernel precondition offset+len(theta)<size' holds after the resize, the rows read back are exactly the rows the kernel writes, and the returned slice is the previous last row plus the appended rows (empty chunks included). Each public method is executed in the trace domain from reachable states with symbolic cells and proved to re-establish the class invariant: integrate appends exactly the chunk's index and the kernel's rows and touches no earlier row; predict returns the very operation DAG the next integrate of that increment appends and changes nothing observable; set_pva leaves the footprint the continuation reads identical to a fresh integrator's row 0. With the kernel's loop-body contract (pure step map, same in every iteration, C01) integrate(a++b) = integrate(a); integrate(b) row for row as operation DAGs, for every history by induction on the number of calls. All call histories over 4 increments with capacity 2 (two resizes), predicts interleaved, duplicated time stamps, are additionally enumerated (DAG identity) and run on the compiled kernel (bitwise).",
    note="A1 not needed (no arithmetic law used); A2 (pandas concat/iloc/index executed on object dtype), A4 (compiled kernel deterministic and equal to py_func); ndarray.resize(grow) preserves existing rows (numpy contract, executed); sign of zero not distinguished; induction over call count is a paper argument over the discharged per-method obligations.",
)
LEVEL = "proof"
LEVEL_NOTE = MANIFEST["text"]

NAMES = ["lat", "lon", "alt", "VN", "VE", "VD", "roll", "pitch", "heading"]
INC = ["dt", "theta_x", "theta_y", "theta_z", "dv_x", "dv_y", "dv_z"]


def t_pva(tag, t0=0.0):
    return pd.Series([T("%s_%s" % (tag, n)) for n in NAMES], index=NAMES, name=t0, dtype=object)


def t_increments(times, tag="i"):
    rows = [[T("%s%d_%s" % (tag, k, c)) for c in INC] for k in range(len(times))]
    return pd.DataFrame(rows, index=pd.Index(list(times), dtype=float), columns=INC, dtype=object) if rows else \
        pd.DataFrame(np.empty((0, 7), dtype=object), index=pd.Index([], dtype=float), columns=INC)


def node(c):
    """trace node of a cell, modulo the equalities the current execution path has decided (pvx.sym.canon)"""
    from pvx.sym import canon
    return canon(c.e if isinstance(c, Sym) else t_const(c))


def same_rows(a, b):
    """DataFrames / Series equal as operation DAGs (cell identity) with equal labels."""
    va, vb = np.asarray(a.values, dtype=object).reshape(-1), np.asarray(b.values, dtype=object).reshape(-1)
    if len(va) != len(vb):
        return False
    if hasattr(a, "columns") and (list(a.columns) != list(b.columns) or list(a.index) != list(b.index)):
        return False
    return all(node(x) is node(y) for x, y in zip(va, vb))


def snapshot(it):
    n = len(it.trajectory)
    return dict(n=n, traj=[node(c) for c in it.trajectory.values.reshape(-1)], index=list(it.trajectory.index),
                lla=[node(c) for c in it.lla[:n].reshape(-1)], vel=[node(c) for c in it.velocity_n[:n].reshape(-1)],
                mat=[node(c) for c in it.mat_nb[:n].reshape(-1)])


def unchanged(before, it, rows=None):
    after = snapshot(it)
    n = before["n"] if rows is None else rows
    return (after["index"][:n] == before["index"][:n]
            and all(x is y for x, y in zip(before["traj"][:9 * n], after["traj"][:9 * n]))
            and all(x is y for x, y in zip(before["lla"][:3 * n], after["lla"][:3 * n]))
            and all(x is y for x, y in zip(before["vel"][:3 * n], after["vel"][:3 * n]))
            and all(x is y for x, y in zip(before["mat"][:9 * n], after["mat"][:9 * n])))


def run(ctx):
    py = load()
    ctx.under_contract("pyins.strapdown.Integrator.__init__", "pyins.strapdown.Integrator._integrate", "pyins.strapdown.Integrator.integrate",
                       "pyins.strapdown.Integrator.predict", "pyins.strapdown.Integrator.get_time", "pyins.strapdown.Integrator.get_pva",
                       "pyins.strapdown.Integrator.set_pva", "pyins._numba_integrate.integrate (contract from C01)")
    ctx.trust("pandas concat / iloc / to_frame / transpose and numpy ndarray.resize on object arrays (executed, not modelled)",
              "numba kernel deterministic and equal to py_func (A4)", "z3")
    ctx.assume("C01.kernel.frame.*: the loop body is a pure step map, identical in every iteration (proved in C01; re-checked here)",
               "induction on the number of calls over the per-method obligations (paper argument)",
               "trace-domain equality does not distinguish the sign of zero")
    ctx.guard(_capacity_and_slices, ctx, py)
    for wa in (True, False):
        _methods(ctx, py, wa)
    ctx.guard(_histories, ctx, py)
    ctx.guard(_bitwise_standin, ctx, py)
    # the kernel contract this lemma rests on
    from props import C01
    C01._frame(ctx, py)
    C01._bounds(ctx, py)

    # frame of the modules under contract (no state kept between calls, arguments left alone): same analysis as C19
    from props import C19 as _C19
    ctx.guard(_C19.frame_obligations, ctx, py, "C02", {'_numba_integrate', 'strapdown'})


# -----------------------------------------------------------------------------------------------
def _capacity_and_slices(ctx, py):
    """The REAL Integrator.integrate / _integrate (and whatever helper methods they call) executed on symbolic
    integers: the three buffers, the stored trajectory and the chunk are stand-ins with z3 lengths; the kernel call,
    every resize, every buffer slice, the concatenation and the returned slice are checked as they happen, for ALL
    n_data >= 1, n_readings >= 0, size >= n_data.  Nothing is read off the source text."""
    import z3
    from pvx.zdomain import explore_z, ZCtx, ZSym, zmin, zmax, Opaque, OPAQUE, Concretization
    from pvx.npproxy import patched
    S = py.strapdown
    t0 = time.time()
    tally = {}
    failed = {}
    notes = dict(paths=0, kernel_calls=0, resizes=0, reads=0, returns=0)

    def zi(x):
        return x.v if isinstance(x, ZSym) else z3.IntVal(int(x))

    def scen():
        c = ZCtx()
        n_data, n_read, size = c.new_int("n_data"), c.new_int("n_readings"), c.new_int("size")
        c.assume(n_data >= 1, "at least the initial row is stored")
        c.assume(n_read >= 0, "chunk of any length, including empty")
        c.assume(size >= n_data, "representation invariant: buffers hold the stored rows")
        state = dict(kernel=None)

        def norm(k, L):
            """python slice -> (lo, hi) z3 terms for a sequence of length L"""
            if k.step is not None and not (isinstance(k.step, int) and k.step == 1):
                raise Concretization("strided slice of a buffer")
            def clamp(v, default):
                if v is None:
                    return default
                v = zi(v)
                return z3.If(v < 0, z3.If(L + v < 0, 0, L + v), z3.If(v > L, L, v))
            return clamp(k.start, z3.IntVal(0)), clamp(k.stop, L)

        class Rows(Opaque):
            def __init__(self, buf, lo, hi):
                object.__setattr__(self, "buf", buf)
                object.__setattr__(self, "lo", lo)
                object.__setattr__(self, "hi", hi)

        class Buf(Opaque):
            def __init__(self, name):
                object.__setattr__(self, "name", name)
                object.__setattr__(self, "n", size)

            def resize(self, shape, refcheck=True):
                first = shape[0] if isinstance(shape, (tuple, list)) else shape
                notes["resizes"] += 1
                c.prove("C02.capacity.resize_only_grows", zi(first) >= self.n, "%s.resize(%s)" % (self.name, first))
                object.__setattr__(self, "n", zi(first))

            def __getitem__(self, k):
                if not isinstance(k, slice):
                    raise Concretization("buffer indexed by a non-slice in integrate()")
                lo, hi = norm(k, self.n)
                notes["reads"] += 1
                if state["kernel"] is None:
                    c.prove("C02.slices.rows_read_are_rows_written", z3.BoolVal(False), "%s read before the kernel ran" % self.name)
                else:
                    off = state["kernel"]
                    c.prove("C02.slices.rows_read_are_rows_written", z3.And(lo == off + 1, hi == off + 1 + n_read),
                            "%s[%s:%s] == rows [offset+1, offset+1+n_readings)" % (self.name, k.start, k.stop))
                return Rows(self.name, lo, hi)

        class Traj(Opaque):
            def __init__(self, n, parts):
                object.__setattr__(self, "n", n)
                object.__setattr__(self, "parts", parts)

            @property
            def iloc(self):
                me = self

                class _I:
                    def __getitem__(_s, k):
                        if not isinstance(k, slice):
                            return OPAQUE
                        lo, hi = norm(k, me.n)
                        return Traj(hi - lo, ("slice", me, lo, hi))
                return _I()

        class Chunk(Opaque):
            """the increments table: len n_readings"""
            def __getitem__(self, k):
                return OPAQUE
            index = OPAQUE
            dt = OPAQUE

        class NewTable(Opaque):
            def __init__(self, parts):
                object.__setattr__(self, "parts", parts)

        def zlen(x):
            if isinstance(x, Buf):
                return ZSym(x.n)
            if isinstance(x, Traj):
                return ZSym(x.n)
            if isinstance(x, Chunk):
                return ZSym(n_read)
            return len(x)

        bufs = dict(lla=Buf("lla"), velocity_n=Buf("velocity_n"), mat_nb=Buf("mat_nb"))
        stored = Traj(n_data, ("stored",))

        def kernel(dt, lla, vel, mat, theta, dv, offset, with_altitude):
            notes["kernel_calls"] += 1
            ok_args = lla is bufs["lla"] and vel is bufs["velocity_n"] and mat is bufs["mat_nb"]
            off = zi(offset)
            c.prove("C02.capacity.kernel_gets_the_three_buffers", z3.BoolVal(bool(ok_args)), "kernel(dt, self.lla, self.velocity_n, self.mat_nb, ...)")
            c.prove("C02.capacity.kernel_starts_at_last_stored_row", off == n_data - 1, "offset == len(trajectory) - 1")
            for b_ in bufs.values():
                c.prove("C02.capacity.kernel_precondition", z3.And(off >= 0, off + n_read < b_.n),
                        "0 <= offset and offset + n_readings < len(%s) at the kernel call" % b_.name)
            state["kernel"] = off

        class NpNS:
            @staticmethod
            def ascontiguousarray(x, *a, **k): return x
            @staticmethod
            def asarray(x, *a, **k): return x
            @staticmethod
            def hstack(parts): return NewTable(list(parts))
            @staticmethod
            def column_stack(parts): return NewTable(list(parts))

        class PdNS:
            Series = pd.Series

            @staticmethod
            def DataFrame(data, index=None, columns=None, **k):
                ok = (isinstance(data, NewTable) and len(data.parts) == 3 and all(isinstance(p_, Rows) for p_ in data.parts)
                      and [p_.buf for p_ in data.parts] == ["lla", "velocity_n", "mat_nb"])
                c.prove("C02.slices.new_rows_are_lla_velocity_attitude", z3.BoolVal(bool(ok)), "DataFrame(hstack([lla rows, velocity rows, rph(mat rows)]))")
                return Traj(n_read, ("new",))

            @staticmethod
            def concat(parts, **k):
                parts = list(parts)
                ok = len(parts) == 2 and parts[0] is stored and isinstance(parts[1], Traj) and parts[1].parts == ("new",)
                c.prove("C02.slices.concat_appends_after_stored_rows", z3.BoolVal(bool(ok)), "concat([stored trajectory, new rows])")
                return Traj(sum_n(parts), ("concat",))

        def sum_n(parts):
            tot = z3.IntVal(0)
            for p_ in parts:
                tot = tot + (p_.n if isinstance(p_, Traj) else 0)
            return tot

        class TransformNS:
            @staticmethod
            def mat_to_rph(rows):
                return rows

        pva = pd.Series(np.zeros(9), index=NAMES, name=0.0)
        it = S.Integrator.__new__(S.Integrator)
        it.__dict__.update(with_altitude=True, trajectory=stored, **bufs)
        with patched((S, dict(len=zlen, max=zmax, min=zmin, np=NpNS, pd=PdNS, integrate=kernel, transform=TransformNS))):
            res = it.integrate(Chunk())
        notes["returns"] += 1
        ok_ret = isinstance(res, Traj) and res.parts[0] == "slice" and res.parts[1].parts == ("concat",)
        if ok_ret:
            c.prove("C02.slices.returned_rows", z3.And(res.parts[2] == n_data - 1, res.parts[3] == n_data + n_read),
                    "returned rows == [n_data-1, n_data+n_readings) of the concatenated trajectory")
            c.prove("C02.slices.stored_trajectory_is_the_concatenation", z3.BoolVal(it.trajectory is res.parts[1]), "self.trajectory = concat(...)")
        else:
            c.prove("C02.slices.returned_rows", z3.BoolVal(False), "integrate() does not return a slice of the concatenated trajectory")
        for (name, status, detail, cex) in c.obligations:
            tally[name] = tally.get(name, 0) + 1
            if status != "proved":
                failed.setdefault(name, []).append((status, detail, cex))
        return None
    paths = explore_z(scen, max_paths=64)
    notes["paths"] = len(paths)
    ctx.paths += len(paths)
    required = ["C02.capacity.kernel_gets_the_three_buffers", "C02.capacity.kernel_starts_at_last_stored_row", "C02.capacity.kernel_precondition",
                "C02.capacity.resize_only_grows", "C02.slices.rows_read_are_rows_written", "C02.slices.new_rows_are_lla_velocity_attitude",
                "C02.slices.concat_appends_after_stored_rows", "C02.slices.returned_rows", "C02.slices.stored_trajectory_is_the_concatenation"]
    dt_ = time.time() - t0
    for name in required:
        bad = failed.get(name)
        n = tally.get(name, 0)
        if bad:
            und = all(b[0] == "undecided" for b in bad)
            native = None
            if not und:
                native = _capacity_native(py) if "capacity" in name else _returned_native(py)
            ctx.ob(name, "c", None if und else False, "z3(real method on symbolic sizes)", dt_ / len(required),
                   "%s | %s" % (bad[0][1], bad[0][2]), cex=dict(counter_model=bad[0][2], detail=bad[0][1]), native=native)
        else:
            ctx.ob(name, "c", n > 0, "z3(real method on symbolic sizes)", dt_ / len(required),
                   "%d VCs on %d paths of the real Integrator.integrate (for all n_data>=1, n_readings>=0, size>=n_data; %d kernel calls, %d resizes, %d buffer reads)"
                   % (n, notes["paths"], notes["kernel_calls"], notes["resizes"], notes["reads"]),
                   cex=None if n > 0 else dict(reason="no VC of this kind was generated (vacuous)"))


def _float_setup(py, n, dup=False):
    pva = pd.Series([50.0, 30.0, 100.0, 3.0, -2.0, 0.5, 1.0, -2.0, 40.0], index=NAMES, name=0.0)
    rng = np.random.RandomState(3)
    t = np.round(np.arange(1, n + 1) * 0.05, 10)
    if dup:
        t = np.floor(t * 10) / 10
    inc = pd.DataFrame(np.hstack([np.full((n, 1), 0.05), rng.randn(n, 3) * 1e-3, rng.randn(n, 3) * 1e-2]), index=pd.Index(t), columns=INC)
    return pva, inc


def _capacity_native(py):
    S = py.strapdown
    old = S.Integrator.INITIAL_SIZE
    try:
        S.Integrator.INITIAL_SIZE = 3
        pva, inc = _float_setup(py, 9)
        a = S.Integrator(pva); a.integrate(inc.iloc[:2]); a.integrate(inc.iloc[2:3]); a.integrate(inc.iloc[3:])
        S.Integrator.INITIAL_SIZE = 100
        b = S.Integrator(pva); b.integrate(inc)
        same = np.array_equal(a.trajectory.values, b.trajectory.values)
        return dict(reproduced=not same, note="chunks straddling capacity 3 vs single call with capacity 100")
    except Exception as exc:
        return dict(reproduced=True, raised=repr(exc))
    finally:
        S.Integrator.INITIAL_SIZE = old


def _returned_native(py):
    S = py.strapdown
    bad = []
    for dup in (False, True):
        bad += _returned_native1(py, dup)
    return dict(reproduced=bool(bad), chunks=bad)


def _returned_native1(py, dup):
    S = py.strapdown
    pva, inc = _float_setup(py, 6, dup)
    it = S.Integrator(pva)
    bad = []
    for lo, hi in ((0, 1), (1, 2), (2, 2), (2, 5), (5, 6)):
        before = it.trajectory.iloc[-1].copy()
        out = it.integrate(inc.iloc[lo:hi])
        if len(out) != hi - lo + 1 or not np.array_equal(out.iloc[0].values, before.values) or list(out.index[1:]) != list(inc.index[lo:hi]):
            bad.append((dup, lo, hi, len(out)))
    return bad


# -----------------------------------------------------------------------------------------------
def _methods(ctx, py, wa):
    """Each scenario is explored on every path (a data-dependent branch in a method forks the run)."""
    from pvx.sym import explore
    S = py.strapdown
    tag = "3d" if wa else "2d"
    for n_pre in (0, 1, 2):
        t0 = time.time()

        def body(n_pre=n_pre):
            out = []
            with tdomain(py, extra=[(S.Integrator, dict(INITIAL_SIZE=2))]):
                _scenario(py, wa, n_pre, out)
            return out
        paths = explore(body, max_paths=48, on_budget="stop")
        ctx.paths += len(paths)
        if len(paths) == 1:
            for (name, kind, ok, backend, detail, native) in paths[0][1]:
                ctx.ob("C02.%s.%s.n%d" % (tag, name, n_pre), kind, ok, backend, time.time() - t0, detail,
                       cex=None if ok else dict(n_pre=n_pre), native=None if ok else (native() if native else None))
            continue
        # a data-dependent branch inside a method: the contract must hold on every path; DAG identities are taken modulo
        # the equalities the path decided (pvx.sym.canon).  One obligation per clause, failed if it fails on some path.
        agg = {}
        for k, (pa, obs) in enumerate(paths):
            for (name, kind, ok, backend, detail, native) in obs:
                cur = agg.get(name)
                if cur is None or (cur[2] and not ok):
                    cond = [("%r" % (c,))[:90] + ("" if d else " is False") for c, d in pa.conds]
                    agg[name] = (name, kind, ok, backend, detail + (" | fails on the path: %s" % cond[:6] if not ok else ""), native, k, [bool(d) for d in pa.decisions])
        any_failed = False
        for name, (name, kind, ok, backend, detail, native, k, dec) in agg.items():
            any_failed = any_failed or not ok
            ctx.ob("C02.%s.%s.n%d" % (tag, name, n_pre), kind, ok, backend, time.time() - t0, detail + " [%d paths]" % len(paths),
                   cex=None if ok else dict(n_pre=n_pre, path=dec, path_index=k), native=None if ok else (native() if native else None))
        if getattr(paths, "truncated", False) and not any_failed:
            ctx.ob("C02.%s.paths_exhausted.n%d" % (tag, n_pre), "guard", None, "path-enumeration", 0.0,
                   "the methods branch on data: %d paths run, path budget exhausted before all were explored" % len(paths))


def _scenario(py, wa, n_pre, out):
    S = py.strapdown
    times = [0.1, 0.2, 0.3, 0.4]

    def ob(name, kind, ok, backend, detail, native=None):
        out.append((name, kind, bool(ok), backend, detail, native))
    inc = t_increments(times)
    it = S.Integrator(t_pva("p"), wa)
    if n_pre:
        it.integrate(inc.iloc[:n_pre])
    pre = snapshot(it)
    ob("inv.reachable_state", "c", pre["n"] == n_pre + 1 and pre["index"] == [0.0] + times[:n_pre] and len(it.lla) >= pre["n"],
       "trace-domain", "n, index, buffer length")
    row = inc.iloc[n_pre]
    pred = it.predict(row)
    ob("predict.frame", "f", unchanged(pre, it) and len(it.trajectory) == pre["n"], "trace-domain(object identity)",
       "trajectory, index and buffer rows < n are the same objects after predict")
    pred2 = it.predict(row)
    res = it.integrate(inc.iloc[n_pre:n_pre + 1])
    ob("predict.returns_next_row", "T", same_rows(pred, it.trajectory.iloc[-1]) and same_rows(pred, pred2) and pred.name == times[n_pre],
       "trace-domain(DAG identity)", "predict(row) is the operation DAG that integrate(row) appends; repeated predict identical",
       lambda: _predict_native(py, wa))
    ob("integrate.inv", "c", (unchanged(pre, it) and list(it.trajectory.index) == pre["index"] + [times[n_pre]]
                             and len(res) == 2 and list(res.index) == [pre["index"][-1], times[n_pre]]
                             and same_rows(res.iloc[0], it.trajectory.iloc[-2]) and same_rows(res.iloc[1], it.trajectory.iloc[-1])),
       "trace-domain", "index = old ++ chunk.index; rows < n same objects; returns previous last row + appended rows")
    n_now = len(it.trajectory)
    ob("inv.trajectory_rows_are_buffer_rows", "c",
       all(node(it.trajectory.iloc[k, c]) is node(it.lla[k, c]) and node(it.trajectory.iloc[k, 3 + c]) is node(it.velocity_n[k, c])
           for k in range(n_now) for c in range(3)), "trace-domain", "lla / velocity cells of every row are the buffer cells")
    pre2 = snapshot(it)
    out0 = it.integrate(inc.iloc[0:0])
    ob("integrate.empty_chunk", "c", unchanged(pre2, it) and len(it.trajectory) == pre2["n"] and len(out0) == 1 and same_rows(out0.iloc[0], it.trajectory.iloc[-1]),
       "trace-domain", "empty chunk: nothing changes, returns the last row")
    ob("getters", "c", it.get_time() == it.trajectory.index[-1] and same_rows(it.get_pva(), it.trajectory.iloc[-1]) and unchanged(pre2, it),
       "trace-domain", "get_time / get_pva return the last index / row, no mutation")
    q = t_pva("q", t0=it.get_time())
    if not wa:
        q = q.copy()
        q["VD"] = T(0.0)          # C13 covers VD != 0 in the 2D mode; here the continuation footprint
    it.set_pva(q)
    fresh = S.Integrator(q, wa)
    k = len(it.trajectory) - 1
    ob("set_pva.fresh_equiv", "T",
       (all(node(a) is node(b) for a, b in zip(it.lla[k], fresh.lla[0])) and all(node(a) is node(b) for a, b in zip(it.velocity_n[k], fresh.velocity_n[0]))
        and all(node(a) is node(b) for a, b in zip(it.mat_nb[k].reshape(-1), fresh.mat_nb[0].reshape(-1)))
        and same_rows(it.trajectory.iloc[-1], fresh.trajectory.iloc[0]) and unchanged(pre2, it, rows=k)),
       "trace-domain(DAG identity)",
       "after set_pva(q) the cells the kernel reads (lla, velocity, attitude matrix of the last row) and the last trajectory row are those of Integrator(q); earlier rows untouched",
       lambda: _setpva_native(py, wa))
    rest = inc.iloc[n_pre + 1:n_pre + 3]
    o1 = it.integrate(rest)
    o2 = fresh.integrate(rest)
    ob("set_pva.continuation", "T", same_rows(o1.iloc[1:], o2.iloc[1:]) and same_rows(o1.iloc[0], o2.iloc[0]), "trace-domain(DAG identity)",
       "integrate after set_pva(q) == integrate of a fresh Integrator(q), row for row", lambda: _setpva_native(py, wa))


def _predict_native(py, wa):
    S = py.strapdown
    pva, inc = _float_setup(py, 4)
    it = S.Integrator(pva, wa)
    it.integrate(inc.iloc[:2])
    p = it.predict(inc.iloc[2])
    before = it.trajectory.copy()
    same_state = it.trajectory.equals(before)
    it.integrate(inc.iloc[2:3])
    return dict(reproduced=not (np.array_equal(p.values, it.trajectory.iloc[-1].values) and same_state))


def _setpva_native(py, wa):
    S = py.strapdown
    pva, inc = _float_setup(py, 6)
    it = S.Integrator(pva, wa)
    it.integrate(inc.iloc[:3])
    q = it.get_pva().copy()
    q["heading"] += 2e-4
    q["lat"] += 1e-6
    if not wa:
        q["VD"] = 0.0
    it.set_pva(q)
    fresh = S.Integrator(q, wa)
    a = it.integrate(inc.iloc[3:]).iloc[1:]
    b = fresh.integrate(inc.iloc[3:]).iloc[1:]
    return dict(reproduced=not np.array_equal(a.values, b.values), max_abs_difference=float(np.max(np.abs(a.values - b.values))))


# -----------------------------------------------------------------------------------------------
def _compositions(n):
    """all ways to cut n rows into consecutive chunks, with up to one empty chunk inserted anywhere"""
    out = []
    for k in range(n):
        for cuts in itertools.combinations(range(1, n), k):
            b = [0] + list(cuts) + [n]
            sizes = [b[i + 1] - b[i] for i in range(len(b) - 1)]
            out.append(sizes)
            for pos in range(len(sizes) + 1):
                out.append(sizes[:pos] + [0] + sizes[pos:])
    return out


def _histories(ctx, py):
    """BOUNDED (exhaustive for its size) enumeration in the trace domain: all chunkings of 4 increments, capacity 2."""
    S = py.strapdown
    t0 = time.time()
    fails = []
    evals = 0
    for wa in (True, False):
        for times in ([0.1, 0.2, 0.3, 0.4], [0.0, 0.1, 0.1, 0.2]):       # second table: repeated time stamps
            with tdomain(py, extra=[(S.Integrator, dict(INITIAL_SIZE=2))]):
                inc = t_increments(times)
                ref = S.Integrator(t_pva("p"), wa)
                ref.integrate(inc)
                for sizes in _compositions(4):
                    for with_predict in (False, True):
                        it = S.Integrator(t_pva("p"), wa)
                        pos = 0
                        ok = True
                        for sz in sizes:
                            if with_predict and pos < 4:
                                it.predict(inc.iloc[pos])
                            prev_last = it.trajectory.iloc[-1]
                            out = it.integrate(inc.iloc[pos:pos + sz])
                            if len(out) != sz + 1 or not same_rows(out.iloc[0], prev_last) or list(out.index[1:]) != times[pos:pos + sz]:
                                ok = False
                            pos += sz
                        evals += 1
                        if not (ok and same_rows(it.trajectory, ref.trajectory) and list(it.trajectory.index) == [0.0] + times):
                            fails.append(dict(with_altitude=wa, times=times, chunks=sizes, predicts=with_predict))
    nat = _history_native(py, fails[0]) if fails else None
    ctx.standin("C02.histories.trace", "all %d chunkings (incl. one empty chunk) of 4 increments x predicts on/off x 2 time tables (one with repeated stamps) x 2 altitude modes, INITIAL_SIZE=2; operation-DAG identity with the single call"
                % len(_compositions(4)), evals, fails, native=nat, time_s=time.time() - t0)


def _history_native(py, f):
    S = py.strapdown
    old = S.Integrator.INITIAL_SIZE
    try:
        S.Integrator.INITIAL_SIZE = 2
        pva, inc = _float_setup(py, 4)
        inc.index = pd.Index(f["times"])
        ref = S.Integrator(pva, f["with_altitude"]); ref.integrate(inc)
        it = S.Integrator(pva, f["with_altitude"])
        pos = 0
        bad = False
        for sz in f["chunks"]:
            if f["predicts"] and pos < 4:
                it.predict(inc.iloc[pos])
            out = it.integrate(inc.iloc[pos:pos + sz])
            bad = bad or len(out) != sz + 1
            pos += sz
        bad = bad or not np.array_equal(it.trajectory.values, ref.trajectory.values) or list(it.trajectory.index) != list(ref.trajectory.index)
        return dict(reproduced=bool(bad), history=f)
    except Exception as exc:
        return dict(reproduced=True, raised=repr(exc), history=f)
    finally:
        S.Integrator.INITIAL_SIZE = old


def _bitwise_standin(ctx, py):
    """BOUNDED: real compiled kernel, float64, bitwise comparison of chunked / predicted / restarted runs."""
    S = py.strapdown
    t0 = time.time()
    old = S.Integrator.INITIAL_SIZE
    fails = []
    evals = 0
    rng = np.random.RandomState(ctx.seed)
    try:
        for wa in (True, False):
            for cap in (1, 2, 7, 10000):
                S.Integrator.INITIAL_SIZE = cap
                n = 23
                pva, inc = _float_setup(py, n)
                ref = S.Integrator(pva, wa); ref.integrate(inc)
                for _ in range(4 if ctx.tier == "quick" else 40):
                    cuts = sorted(rng.randint(0, n + 1, rng.randint(0, 6)))
                    b = [0] + list(cuts) + [n]
                    it = S.Integrator(pva, wa)
                    for lo, hi in zip(b[:-1], b[1:]):
                        if lo < n and rng.rand() < 0.5:
                            it.predict(inc.iloc[lo])
                        it.integrate(inc.iloc[lo:hi])
                    evals += 1
                    if not (np.array_equal(it.trajectory.values, ref.trajectory.values) and list(it.trajectory.index) == list(ref.trajectory.index)):
                        fails.append(dict(with_altitude=wa, capacity=cap, cuts=[int(c) for c in cuts]))
                # restart
                it = S.Integrator(pva, wa); it.integrate(inc.iloc[:9])
                q = it.get_pva().copy(); q["lat"] += 1e-5; q["heading"] += 2e-4
                if not wa:
                    q["VD"] = 0.0
                it.set_pva(q)
                fr = S.Integrator(q, wa)
                evals += 1
                if not np.array_equal(it.integrate(inc.iloc[9:]).values[1:], fr.integrate(inc.iloc[9:]).values[1:]):
                    fails.append(dict(with_altitude=wa, capacity=cap, restart=True))
    finally:
        S.Integrator.INITIAL_SIZE = old
    ctx.standin("C02.histories.bitwise.rt", "compiled kernel, float64: random chunkings of 23 increments with predicts, capacities {1,2,7,10000}, both modes, restart via set_pva; np.array_equal with the single call",
                evals, fails, time_s=time.time() - t0)


def replay(obligation, cex):
    from pvx.harness import Ctx
    ctx = Ctx("C02", "quick", 0, "props.C02")
    run(ctx)
    o = next((o for o in ctx.obs if o.name == obligation), None)
    return dict(reproduced=bool(o and o.status == "failed" and (o.native or {}).get("reproduced", True)),
                obligation=obligation, status=o.status if o else "absent", native_replay=o.native if o else None)
