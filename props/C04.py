"""C04 -- INS error model is the linearisation of actual strapdown error growth."""
import math
import time

import numpy as np
import pandas as pd
import sympy as sp

from pvx import field, nonzero
from pvx.claims import deg, flat, flat_float, full_domain, cross_check, divisor_obligations, CONST_BOX
from pvx.harness import Ob
from pvx.loader import load, rdomain
from pvx.sym import RSym, unwrap, record_divisors
from spec import wgs84, frames, nav_ode
from props.C05 import make_pva, ST, NAMES, phi, lam, h, VN, VE, VD, r, p, hd

MANIFEST = dict(
    category="proof",
    technique="forward residual of the real system_matrices (symbolic execution) against the variational equation of the exact navigation ODE in the library's error coordinates; entries decided in a fraction field; declared-neglected velocity-dependent coefficients bounded by interval arithmetic; propagate_errors loop body verified against letter matrices; Every claim is also checked for call history: the real code is run twice in the same symbolic world (primed inputs first; same captured objects and module state) and the second result must still meet the contract on every path a concrete witness input takes; value-dependent branches inside a claim are explored path by path. The frame obligations (C19's analysis) of the modules under contract are re-established under this property's name.; Bounded stand-ins shared by all properties (labelled bounded, never counted as proved): the argument-form battery of the modules under contract (batches of 1 and 1200 rows, integer-typed values, labels / columns in other orders, extra labels); where the frame analysis finds state that outlives a call (a cache, a memo) the frame obligation becomes a dynamic purity contract against pristine process states; names the proofs replace by scipy contracts are checked to be bound to the library's functions (else a differential test).",
    text="With the error dynamics x' = F x + B_g dw + B_a df produced by the real code substituted, the displaced state ins(eps) = Psi(true, eps x) is required to satisfy the exact navigation equations driven by (w + eps dw, f + eps df) to first order in eps. The residual is linear, r = D_x x + D_g dw + D_a df, and for all latitudes, altitudes, velocities, attitudes and ellipsoid constants it is proved that D_g = D_a = 0, that every entry of D_x outside the four blocks [DR,DR],[DV,DR],[DV,PHI],[PHI,DR] is 0, that at rest D_x is exactly the single declared-neglected north gradient of normal gravity, and that the velocity-dependent coefficients in the four blocks are bounded by the declared sizes on |lat|<=80 deg, 0..20 km. Same for the 7-state no-altitude model against the altitude-frozen ODE. The loop body of propagate_errors is proved to be the trapezoid step of exactly these matrices (irregular stamps), started at T_io e0 and output through T_oi. By C01 the integrator is the flow of the same ODE to first order, so this is the linearisation of actual strapdown error growth (Taylor/Groenwall assumed).",
    note="A1-A6; C01 (integrator consistent with spec ODE); error coordinates true = correct_pva(ins, x) as proved in C05; Taylor/Groenwall: first-order agreement of vector fields gives first-order agreement of flows; scipy from_euler contract; bounds of neglected terms use R >= 6.3e6 m, |tan lat| <= tan 80 deg.",
)
LEVEL = "proof"
LEVEL_NOTE = MANIFEST["text"]

eps = sp.Symbol("eps", real=True)
X9 = sp.symbols("x0:9", real=True)
DW = sp.symbols("dw1:4", real=True)
DF = sp.symbols("df1:4", real=True)
Wb = sp.symbols("w1:4", real=True)
Fb = sp.symbols("f1:4", real=True)
LAT80 = 1.3963
BOX = {phi: (-LAT80, LAT80), lam: (-3.1, 3.1), h: (0.0, 20000.0), VN: (-300, 300), VE: (-300, 300), VD: (-300, 300),
       r: (-3.1, 3.1), p: (-LAT80, LAT80), hd: (-3.1, 3.1)}
COSNN = (phi, p)
NM9 = ["DR1", "DR2", "DR3", "DV1", "DV2", "DV3", "PHI1", "PHI2", "PHI3"]
IDX7 = [0, 1, 3, 4, 6, 7, 8]
# declared-neglected blocks (row group, column group) and bounds on the coefficient of a velocity monomial
RMIN = 6.3e6
SEC2 = 1.0 / math.cos(LAT80) ** 2
TAN = math.tan(LAT80)
OMEGA = 7.3e-5
C_ = 3.0
NEGLECTED = {("DR", "DR"): {1: C_ * (1 + TAN) / RMIN, 2: 0.0},
             ("DV", "DR"): {1: C_ * OMEGA * SEC2 / RMIN, 2: C_ * SEC2 * (1 + TAN) / RMIN ** 2},
             ("DV", "PHI"): {1: C_ * OMEGA, 2: 0.0},
             ("PHI", "DR"): {1: C_ * SEC2 * (1 + TAN) / RMIN ** 2, 2: 0.0}}


def grp(name):
    return name.rstrip("123")


def code_matrices(py, wa, v=None):
    """F, B_gyro, B_accel of the real code at a symbolic pva (sympy matrices)."""
    em = py.error_model.InsErrorModel(wa)
    if v is None:
        v = {s.name: RSym(s) for s in ST}
        if not wa:
            v["VD"] = RSym(sp.Integer(0))      # class invariant of the no-altitude mode (C13): VD == 0
    with rdomain(py), record_divisors() as divs:
        F, Bg, Ba = em.system_matrices(make_pva(v))
    n = em.n_states
    return sp.Matrix(n, n, flat(F)), sp.Matrix(n, 3, flat(Bg)), sp.Matrix(n, 3, flat(Ba)), list(divs)


def residual(F, Bg, Ba, wa):
    """First-order residual of ins(eps) = Psi(true, eps x) in the exact ODE, in error-state units."""
    n = F.shape[0]
    xs = list(X9[:n])
    x = sp.Matrix(xs)
    dw, df, w, f = (sp.Matrix(s) for s in (DW, DF, Wb, Fb))
    vd = VD if wa else sp.Integer(0)
    V = sp.Matrix([VN, VE, vd])
    C = frames.attitude(r, p, hd)
    xdot = F * x + Bg * dw + Ba * df
    if wa:
        x9 = list(xs)
        x9dot = list(xdot)
    else:
        # embedding of the 7 states into the 9: DR3 = 0, DV3 = VE*phi1 - VN*phi2
        x9 = [xs[0], xs[1], 0, xs[2], xs[3], VE * xs[4] - VN * xs[5], xs[4], xs[5], xs[6]]
    if not wa:
        # the TRUE motion of the no-altitude mode is altitude-frozen physics: V_D = 0 and V_D' = 0 hold because the
        # vertical specific force balances gravity and the vertical Coriolis/transport term, i.e.
        # (C f)_D = -g + [(2 Omega + rho) x V]_D ; the two horizontal components stay free.
        a1, a2 = sp.symbols("an1 an2", real=True)
        Om = wgs84.earth_rate_n(phi)
        rho = nav_ode.transport_rate(phi, h, V)
        cor = (2 * Om + rho).cross(V)
        a_n = sp.Matrix([a1, a2, -wgs84.normal_gravity(phi, h) + cor[2]])
        f = C.T * a_n
    pd_, ld, hd_, Vd, Cd = nav_ode.rhs(phi, lam, h, V, C, w, f, wa)
    Csym = sp.Matrix(3, 3, sp.symbols("c00 c01 c02 c10 c11 c12 c20 c21 c22", real=True))
    Vs = sp.Matrix(sp.symbols("v_n v_e v_d", real=True))

    def Psi(ph_, la_, h_, V_, C_m, x_):
        M2, N2, rp2 = wgs84.principal_radii(ph_, h_)
        q = sp.Matrix(x_[6:9])
        T = sp.eye(3) - eps * frames.skew(q)
        return [ph_ + eps * x_[0] / M2, la_ + eps * x_[1] / rp2, h_ - eps * x_[2]] + list(T * V_ + eps * sp.Matrix(x_[3:6])) + list(T * C_m)
    x9s = [sp.Symbol("X%d" % i, real=True) for i in range(9)]
    I = Psi(phi, lam, h, Vs, Csym, x9s)
    vars_ = [phi, lam, h] + list(Vs) + list(Csym) + x9s
    if wa:
        x9dots = list(xdot)
    else:
        # d/dt of the embedded vector: DV3' = VE' phi1 + VE phi1' - VN' phi2 - VN phi2'
        x9dots = [xdot[0], xdot[1], 0, xdot[2], xdot[3],
                  Vd[1] * xs[4] + VE * xdot[4] - Vd[0] * xs[5] - VN * xdot[5], xdot[4], xdot[5], xdot[6]]
    dots = [pd_, ld, hd_] + list(Vd) + list(Cd) + x9dots
    back = dict(zip(list(Csym), list(C)))
    back.update(dict(zip(list(Vs), list(V))))
    back.update(dict(zip(x9s, x9)))
    dI = [sum(sp.diff(e, v_) * d for v_, d in zip(vars_, dots)).xreplace(back) for e in I]
    Ie = [e.xreplace(back) for e in I]
    rhs = nav_ode.rhs(Ie[0], Ie[1], Ie[2], sp.Matrix(Ie[3:6]), sp.Matrix(3, 3, Ie[6:15]), w + eps * dw, f + eps * df, wa)
    rhsf = [rhs[0], rhs[1], rhs[2]] + list(rhs[3]) + list(rhs[4])
    res = [sp.diff(a - b, eps).subs(eps, 0) for a, b in zip(dI, rhsf)]
    M_h, N_h, rp = wgs84.principal_radii(phi, h)
    Rm = sp.Matrix(3, 3, res[6:15]) * C.T
    r9 = [res[0] * M_h, res[1] * rp, -res[2]] + res[3:6] + [-(Rm[2, 1] - Rm[1, 2]) / 2, -(Rm[0, 2] - Rm[2, 0]) / 2, -(Rm[1, 0] - Rm[0, 1]) / 2]
    if wa:
        return r9, xs, NM9
    # the DR3 and DV3 rows of the embedded residual must vanish identically (checked as obligations too)
    return r9, xs, [NM9[i] for i in IDX7]


def run(ctx):
    py = load()
    ctx.under_contract("pyins.error_model.InsErrorModel.system_matrices (3D and 2D, Series and DataFrame forms)",
                       "pyins.error_model.propagate_errors (loop ordinal 0)", "pyins.earth.curvature_matrix", "pyins.earth.rate_n",
                       "pyins.earth.gravity_n", "pyins.earth.gravity", "pyins.util.skew_matrix", "pyins.util.mm_prod", "pyins.util.mv_prod",
                       "pyins.transform.mat_from_rph")
    ctx.trust("spec/nav_ode.py, spec/wgs84.py, spec/frames.py", "scipy from_euler contract", "sympy polys, mpmath.iv")
    ctx.assume("C01: the integrator is, to first order in dt, the flow of spec.nav_ode (proved in C01)",
               "error coordinates true = correct_pva(ins, x) (proved against T_oi in C05)",
               "Taylor/Groenwall: first-order agreement of vector fields implies first-order agreement of error propagation",
               "|lat| <= 80 deg, 0 <= alt <= 20 km, |V_i| <= 300 m/s for the bounds of neglected terms")
    for wa in (True, False):
        ctx.guard(_model, ctx, py, wa)
        ctx.guard(_history, ctx, py, wa)
    ctx.guard(_forms, ctx, py)
    ctx.guard(_propagate, ctx, py)
    from props import helpers
    helpers.util_products(ctx, py, "C04")

    # frame of the modules under contract (no state kept between calls, arguments left alone): same analysis as C19
    from props import C19 as _C19
    ctx.guard(_C19.frame_obligations, ctx, py, "C04", {'util', 'error_model', 'earth', 'transform'})


_REAL_CONSTS = {}


def _history(ctx, py, wa):
    """system_matrices is specified as a function of the pva it is given: on ONE model object, the matrices returned
    after a call at another pva are the matrices of a single call (every path of the two-call sequence)."""
    from pvx.claims import history_independent
    em = py.error_model.InsErrorModel(wa)

    def code(v):
        if not wa:
            v = dict(v, VD=(RSym(sp.Integer(0)) if isinstance(v["phi"], RSym) else 0.0))
        return list(em.system_matrices(make_pva(v)))
    history_independent(ctx, "C04.%s.system_matrices" % ("3d" if wa else "2d"), ST, code, BOX, cos_nonneg=COSNN, py=py, tol=1e-10)


def _model(ctx, py, wa):
    from pvx.claims import const_point
    _REAL_CONSTS.update(const_point(py))
    tag = "3d" if wa else "2d"
    t0 = time.time()
    F, Bg, Ba, divs = code_matrices(py, wa)
    dom = full_domain(py, BOX)
    divisor_obligations(ctx, "C04.%s.system_matrices" % tag, divs, dom, lambda v: _native_mats(py, wa, v), ST, py)
    r9, xs, names = residual(F, Bg, Ba, wa)
    rows = range(9)
    row_names = NM9
    ctx.paths += 1
    for i in rows:
        e = r9[i]
        if not wa and i in (2, 5):
            # altitude / vertical-velocity rows of the embedded residual: identically zero in every variable
            for v_ in xs + list(DW) + list(DF):
                vz = field.check_zero(sp.diff(e, v_), domain=dom, seed=ctx.seed, cos_nonneg=COSNN)
                ctx.from_verdict("C04.%s.embedding.%s_row_zero[%s]" % (tag, row_names[i], v_), "b", vz, None)
            continue
        for j, v_ in enumerate(DW):
            ctx.from_verdict("C04.%s.B_gyro.exact[%s,%d]" % (tag, row_names[i], j), "b",
                             field.check_zero(sp.diff(e, v_), domain=dom, seed=ctx.seed, cos_nonneg=COSNN),
                             lambda pt, _i=i, _j=j: _native_sens(py, wa, pt, _i, ("gyro", _j)))
        for j, v_ in enumerate(DF):
            ctx.from_verdict("C04.%s.B_accel.exact[%s,%d]" % (tag, row_names[i], j), "b",
                             field.check_zero(sp.diff(e, v_), domain=dom, seed=ctx.seed, cos_nonneg=COSNN),
                             lambda pt, _i=i, _j=j: _native_sens(py, wa, pt, _i, ("accel", _j)))
        for j, v_ in enumerate(xs):
            d = sp.diff(e, v_)
            blk = (grp(row_names[i]), grp(names[j]))
            allowed = 0.0
            if blk in NEGLECTED:
                allowed = NEGLECTED[blk][1] * 900.0 + NEGLECTED[blk][2] * 900.0 ** 2 + (2e-8 if (row_names[i], names[j]) == ("DV3", "DR1") else 0.0)
            nat = lambda pt, _i=i, _j=j, _al=allowed: _native_sens(py, wa, pt, _i, ("x", _j), _al)
            if blk not in NEGLECTED:
                ctx.from_verdict("C04.%s.F.exact[%s,%s]" % (tag, row_names[i], names[j]), "b",
                                 field.check_zero(d, domain=dom, seed=ctx.seed, cos_nonneg=COSNN), nat)
                continue
            # at rest: exactly the declared gravity north-gradient term, nothing else
            rest = d.subs({VN: 0, VE: 0, VD: 0})
            want = 0
            if row_names[i] == "DV3" and names[j] == "DR1":
                M_h = wgs84.principal_radii(phi, h)[0]
                want = -sp.diff(wgs84.normal_gravity(phi, h), phi) / M_h
            ctx.from_verdict("C04.%s.F.at_rest[%s,%s]" % (tag, row_names[i], names[j]), "b",
                             field.check_zero(rest - want, domain=dom, seed=ctx.seed, cos_nonneg=COSNN), nat)
            # velocity-dependent remainder: polynomial in V, each coefficient bounded by the declared size
            _bounded(ctx, "C04.%s.F.neglected[%s,%s]" % (tag, row_names[i], names[j]), d - rest, NEGLECTED[blk], dom, nat)
    # engine sanity: symbolic matrices == native matrices
    cross_check(ctx, "C04.%s.system_matrices" % tag, ST, lambda v: _native_mats(py, wa, v),
                list(F) + list(Bg) + list(Ba), dom, py=py, tol=1e-8)


def _native_mats(py, wa, v):
    em = py.error_model.InsErrorModel(wa)
    if not wa:
        v = dict(v, VD=(RSym(sp.Integer(0)) if isinstance(v["phi"], RSym) else 0.0))
    F, Bg, Ba = em.system_matrices(make_pva(v))
    return [F, Bg, Ba]


def _bounded(ctx, name, expr, bounds, dom, nat):
    t0 = time.time()
    if expr == 0:
        ctx.ob(name, "d", True, "syntactic", 0.0, "no velocity-dependent term")
        return
    try:
        num, den, Rg, gens = field.normal_form(expr, cos_nonneg=COSNN, full=True, domain=dom)
        e = field._back_substitute(num, gens) / field._back_substitute(den, gens)
    except Exception as exc:
        ctx.ob(name, "d", None, "field-nf", time.time() - t0, "normal form failed: %r" % (exc,))
        return
    if e == 0:
        ctx.ob(name, "d", True, "field-nf", time.time() - t0, "velocity-dependent part is identically zero")
        return
    e = e.xreplace(_REAL_CONSTS)          # bounds are stated for the actual WGS-84 constants
    pol = sp.Poly(sp.numer(sp.together(e)), VN, VE, VD)
    den_e = sp.denom(sp.together(e))
    box = {k_: v_ for k_, v_ in BOX.items()}
    worst = None
    for mon, coeff in pol.terms():
        deg_ = sum(mon)
        b = bounds.get(deg_, 0.0)
        c_ = coeff / den_e
        if deg_ == 0 or b == 0.0:
            ctx.ob(name, "d", False, "poly-in-V", time.time() - t0,
                   "term of degree %d in V not in the declared list: %s" % (deg_, str(c_)[:120]),
                   cex=dict(monomial=mon, coefficient=str(c_)[:200]), native=None)
            return
        for sgn in (1, -1):
            v = field.check_positive(b + sgn * c_, box, COSNN, ctx.seed)
            if v.status != "proved":
                r_ = field.refute(sp.Max(0, sgn * c_ - b) if False else (sgn * c_ - b), box, ctx.seed, 8)
                # a point where the bound is exceeded?
                exceeded = None
                rng_pts = 0
                import random
                rr = random.Random(ctx.seed)
                for _ in range(200):
                    pt = field.sample_point(sorted(c_.free_symbols, key=lambda s: s.name), box, rr)
                    try:
                        val = float(field.numeric_value(sgn * c_ - b, pt, 30))
                    except Exception:
                        continue
                    if val > 0:
                        exceeded = {str(k_): str(v_) for k_, v_ in pt.items()}
                        break
                if exceeded:
                    ctx.add(Ob(name, "d", "failed", "interval+sampling", time.time() - t0,
                               "coefficient of V^%s exceeds the declared bound %.3g: %s" % (mon, b, str(c_)[:120]),
                               cex=dict(point=exceeded, monomial=list(mon), bound=b), native=nat({k_: float(sp.Rational(v_)) for k_, v_ in exceeded.items()}) if nat else None))
                else:
                    ctx.ob(name, "d", None, "interval(mpmath.iv)", time.time() - t0, "cannot bound coefficient %s by %.3g: %s" % (str(c_)[:80], b, v.detail))
                return
    ctx.ob(name, "d", True, "field-nf+interval(mpmath.iv)", time.time() - t0,
           "%d velocity monomials, each coefficient within the declared size" % len(pol.terms()))


# ---------------------------------------------------------------------------------------------
def _native_sens(py, wa, pt, i, what, allowed=0.0):
    """Replay on the real code: compare the model's column with the *measured* sensitivity of the real
    integrator (one kernel step from the true and from the displaced state, same increments)."""
    S = py.strapdown
    em = py.error_model.InsErrorModel(wa)
    v = {s.name: pt.get(s.name, 0.1) for s in ST}
    if not wa:
        v["VD"] = 0.0
    pva = make_pva(v)
    w = np.array([pt.get(s.name, 0.01) for s in Wb])
    f = np.array([pt.get(s.name, 0.5) for s in Fb]) + py.transform.mat_from_rph(pva[["roll", "pitch", "heading"]].values).T @ np.array([0, 0, -9.8])
    F, Bg, Ba = em.system_matrices(pva)
    n = em.n_states
    rows7 = IDX7 if not wa else list(range(9))
    if i not in rows7:
        return dict(reproduced=None, note="row not part of the 2D model")
    ii = rows7.index(i)
    dt = 2e-3
    kind, j = what
    if kind == "x":
        col = F[ii, j]
        x0 = np.zeros(n); scale = [1.0, 1.0, 1.0, 0.1, 0.1, 0.1, 1e-4, 1e-4, 1e-4]
        sc = scale[rows7[j]]
        x0[j] = sc
        dwv, dfv = np.zeros(3), np.zeros(3)
    else:
        col = (Bg if kind == "gyro" else Ba)[ii, j]
        x0 = np.zeros(n)
        sc = 1e-4 if kind == "gyro" else 1e-2
        dwv, dfv = np.zeros(3), np.zeros(3)
        (dwv if kind == "gyro" else dfv)[j] = sc

    def step(p0, wv, fv):
        it = S.Integrator(p0, wa)
        inc = pd.DataFrame([[dt] + list(wv * dt) + list(fv * dt)], index=[dt],
                           columns=["dt", "theta_x", "theta_y", "theta_z", "dv_x", "dv_y", "dv_z"])
        return it.integrate(inc).iloc[-1]
    pva.name = 0.0
    ins0 = em.correct_pva(pva, -x0)
    ins0.name = 0.0
    t1 = step(pva, w, f)
    i1 = step(ins0, w + dwv, f + dfv)

    def err(ins, tru):
        d = py.transform.compute_state_difference(ins, tru)
        x_out = d.values
        T_io = em.transform_to_internal(tru)
        return T_io @ x_out
    x1 = err(i1, t1)
    x00 = err(ins0, pva)
    meas = (x1[ii] - x00[ii]) / dt / sc
    blk_ok = abs(meas - col)
    tol = 2e-6 * (1 + abs(col)) + allowed
    return dict(reproduced=bool(blk_ok > tol), inputs=dict(pva=v, w=list(w), f=list(f)), model_entry=float(col),
                measured_sensitivity_of_integrator=float(meas), tolerance=tol,
                method="one real kernel step (dt=%g) from true and displaced state; error in the library's coordinates" % dt)


# ---------------------------------------------------------------------------------------------
def _forms(ctx, py):
    """DataFrame (stacked) form of system_matrices: each row equals the Series form."""
    t0 = time.time()
    ren = {s: sp.Symbol(s.name + "_b", real=True) for s in ST}
    for wa in (True, False):
        tag = "3d" if wa else "2d"
        em = py.error_model.InsErrorModel(wa)
        with rdomain(py):
            a = make_pva({s.name: RSym(s) for s in ST})
            b = make_pva({s.name: RSym(ren[s]) for s in ST})
            df = pd.DataFrame([a.values, b.values], index=[0.0, 1.0], columns=NAMES, dtype=object)
            Fs, Bgs, Bas = em.system_matrices(df)
            F1, Bg1, Ba1 = em.system_matrices(a)
        ok = True
        bad = None
        for stacked, single in ((Fs, F1), (Bgs, Bg1), (Bas, Ba1)):
            s0, s1, one = flat(stacked[0]), flat(stacked[1]), flat(single)
            for k in range(len(one)):
                if sp.simplify(s0[k] - one[k]) != 0 or sp.simplify(s1[k] - one[k].xreplace(ren)) != 0:
                    ok = False
                    bad = k
        ctx.ob("C04.%s.forms.stacked_rows_equal_single" % tag, "a", ok, "symbolic-execution", time.time() - t0,
               "2-row DataFrame: row k of F, B_gyro, B_accel is the Series result at row k" if ok else "cell %s differs" % bad)


def _propagate(ctx, py):
    """Loop body of propagate_errors with system_matrices / transforms replaced by letter matrices."""
    EM = py.error_model
    for wa in (True, False):
        tag = "3d" if wa else "2d"
        t0 = time.time()
        n = 9 if wa else 7
        nrow = 3
        from pvx.sym import increasing_stamps
        ts = [RSym(x) for x in increasing_stamps(nrow)]
        Fl = [sp.Matrix(n, n, lambda i, j: sp.Symbol("F%d_%d_%d" % (k, i, j), real=True) if (i + 2 * j + k) % 3 == 0 else 0) for k in range(nrow)]
        Gl = [sp.Matrix(n, 3, lambda i, j: sp.Symbol("G%d_%d_%d" % (k, i, j), real=True) if (i + j) % 2 == 0 else 0) for k in range(nrow)]
        Al = [sp.Matrix(n, 3, lambda i, j: sp.Symbol("A%d_%d_%d" % (k, i, j), real=True) if (i + j) % 2 == 1 else 0) for k in range(nrow)]
        Tio = sp.Matrix(n, 9, lambda i, j: sp.Symbol("Tio_%d_%d" % (i, j), real=True) if (i + j) % 2 == 0 else 0)
        Toi = [sp.Matrix(9, n, lambda i, j: sp.Symbol("Toi%d_%d_%d" % (k, i, j), real=True) if (i + j + k) % 2 == 0 else 0) for k in range(nrow)]

        def to_obj(Ms):
            a = np.empty((len(Ms),) + Ms[0].shape, dtype=object)
            for k, M in enumerate(Ms):
                for i in range(M.shape[0]):
                    for j in range(M.shape[1]):
                        a[k, i, j] = RSym(M[i, j])
            return a

        class Stub(EM.InsErrorModel):
            def system_matrices(self, trajectory):
                return to_obj(Fl), to_obj(Gl), to_obj(Al)

            def transform_to_internal(self, pva):
                return to_obj([Tio])[0]

            def transform_to_output(self, trajectory):
                return to_obj(Toi)
        g = [RSym(sp.Symbol("g%d" % k, real=True)) for k in range(3)]
        a = [RSym(sp.Symbol("a%d" % k, real=True)) for k in range(3)]
        e0 = [RSym(sp.Symbol("e%d" % k, real=True)) for k in range(9)]
        with rdomain(py, extra=[(EM, dict(InsErrorModel=Stub))]):
            traj = pd.DataFrame(np.zeros((nrow, 9)), index=pd.Index(ts, dtype=object), columns=NAMES)
            err, model = EM.propagate_errors(traj, pd.Series(e0, index=EM.TRAJECTORY_ERROR_COLS, dtype=object),
                                             np.array(g, dtype=object), np.array(a, dtype=object), wa)
        xm = [sp.Matrix(flat(model.iloc[k].values)) for k in range(nrow)]
        gv, av, ev = sp.Matrix([x.e for x in g]), sp.Matrix([x.e for x in a]), sp.Matrix([x.e for x in e0])
        ok0 = sp.expand(xm[0] - Tio * ev) == sp.zeros(n, 1)
        ctx.ob("C04.propagate.%s.initial_state" % tag, "a", ok0, "symbolic-execution(letters)", time.time() - t0, "x_0 = T_io(trajectory row 0) e_0")
        for k in range(nrow - 1):
            dt = ts[k + 1].e - ts[k].e
            want = (sp.eye(n) + (Fl[k] + Fl[k + 1]) * dt / 2) * xm[k] + ((Gl[k] + Gl[k + 1]) * gv + (Al[k] + Al[k + 1]) * av) * dt / 2
            okk = sp.expand(xm[k + 1] - want) == sp.zeros(n, 1)
            ctx.ob("C04.propagate.%s.trapezoid_step[%d]" % (tag, k), "b", okk, "symbolic-execution(letters)", time.time() - t0,
                   "x_{k+1} = (I + (F_k+F_{k+1}) dt_k/2) x_k + ((Bg_k+Bg_{k+1}) g + (Ba_k+Ba_{k+1}) a) dt_k/2 with dt_k = t_{k+1}-t_k (symbolic, irregular): zeroth order x_k, first order F x + B_g g + B_a a",
                   cex=None if okk else dict(step=k), native=None if okk else _propagate_native(py, wa))
        oko = all(sp.expand(sp.Matrix(flat(err.iloc[k].values)) - Toi[k] * xm[k]) == sp.zeros(9, 1) for k in range(nrow))
        ctx.ob("C04.propagate.%s.output_transform" % tag, "a", oko, "symbolic-execution(letters)", time.time() - t0, "trajectory_error_k = T_oi(row k) x_k")
        okidx = all(x is y for x, y in zip(err.index, ts)) and list(err.columns) == list(EM.TRAJECTORY_ERROR_COLS) and list(model.columns) == EM.InsErrorModel(wa).states
        ctx.ob("C04.propagate.%s.schema" % tag, "c", okidx, "symbolic-execution(letters)", 0.0, "index = trajectory index, documented columns")


def _propagate_native(py, wa):
    """Replay: propagate_errors on an irregular grid vs an independent trapezoid recursion of the public matrices."""
    EM = py.error_model
    t = np.array([0.0, 0.1, 0.2, 2.2, 4.2, 4.3])
    n = len(t)
    traj = pd.DataFrame(dict(lat=50 + 1e-4 * t, lon=30 + 1e-4 * t, alt=100.0 + 0 * t, VN=10.0 + 0 * t, VE=5.0 + 0 * t, VD=0 * t,
                             roll=1.0 + 0 * t, pitch=2.0 + 0 * t, heading=30 + t), index=t)[NAMES]
    g, a = np.array([1e-5, -2e-5, 3e-5]), np.array([1e-3, 2e-3, -1e-3])
    err, model = EM.propagate_errors(traj, None, g, a, wa)
    em = EM.InsErrorModel(wa)
    F, Bg, Ba = em.system_matrices(traj)
    x = np.zeros(em.n_states)
    worst = 0.0
    for k in range(n - 1):
        dt = t[k + 1] - t[k]
        x = (np.eye(len(x)) + 0.5 * (F[k] + F[k + 1]) * dt) @ x + 0.5 * ((Bg[k] + Bg[k + 1]) @ g + (Ba[k] + Ba[k + 1]) @ a) * dt
        worst = max(worst, float(np.max(np.abs(x - model.iloc[k + 1].values))))
    return dict(reproduced=worst > 1e-12, max_abs_difference=worst, grid=list(t))


def replay(obligation, cex):
    from pvx.harness import Ctx
    ctx = Ctx("C04", "quick", 0, "props.C04")
    run(ctx)
    o = next((o for o in ctx.obs if o.name == obligation), None)
    return dict(reproduced=bool(o and o.status == "failed" and (o.native or {}).get("reproduced", True)),
                obligation=obligation, status=o.status if o else "absent", native_replay=o.native if o else None)
