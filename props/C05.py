"""C05 -- Error-state coordinates, correction and output transforms agree."""
import math
import time

import numpy as np
import pandas as pd
import sympy as sp

from pvx import field, nonzero
from pvx.claims import deg, eq_spec, taylor_spec, flat, flat_float, full_domain, CONST_BOX
from pvx.harness import Ob
from pvx.loader import load, rdomain
from pvx.npproxy import NpProxy
from pvx.sym import RSym, unwrap
from spec import frames, wgs84

MANIFEST = dict(
    category="proof",
    technique="symbolic execution of the real InsErrorModel / correct_pva / compute_state_difference / perturb_pva on pandas Series of sympy reals; left-inverse identities and zeroth/first Taylor coefficients decided in a fraction field; determinant / divisor obligations by interval arithmetic; Every claim is also checked for call history: the real code is run twice in the same symbolic world (primed inputs first; same captured objects and module state) and the second result must still meet the contract on every path a concrete witness input takes; value-dependent branches inside a claim are explored path by path. The frame obligations (C19's analysis) of the modules under contract are re-established under this property's name.; Bounded stand-ins shared by all properties (labelled bounded, never counted as proved): the argument-form battery of the modules under contract (batches of 1 and 1200 rows, integer-typed values, labels / columns in other orders, extra labels); where the frame analysis finds state that outlives a call (a cache, a memo) the frame obligation becomes a dynamic purity contract against pristine process states; names the proofs replace by scipy contracts are checked to be bound to the library's functions (else a differential test).",
    text="For every pva with |lat|<=85, |pitch|<=85 deg and every error vector, in both altitude modes: T_io*T_oi = I is proved cell by cell (the LAPACK inverse replaced by its contract, det = -(180/pi)^3/cos(pitch) proved non-zero); T_oi is proved equal to an independent specification (NED metres, velocity with the [V x]phi term, Euler-angle Jacobian in degrees); correct_pva(pva,0)=pva; the first-order coefficient of difference(correct_pva(pva, eps x), pva) is proved to be -T_oi x, and of difference(correct(perturb(pva, eps e), eps T_io e), pva) to be 0 ('up to second order' by Taylor's theorem); the down and VD rows of T_oi are literally zero in the 2D mode and a 2D correction returns the input altitude and vertical velocity for every x.",
    note="A1-A6; scipy Rotation contracts (Euler conventions, exponential map as its Taylor polynomial of degree 2) assumed and cross-checked natively; np.linalg.inv replaced by its contract A^-1 (adjugate/det), precondition det != 0 discharged; util.to_180_range replaced by its contract (identity on (-180,180]), proved in C18; 'exactly unchanged' altitude/VD is proved over the reals here and bit-exactly in C13's trace-domain obligations.",
)
LEVEL = "proof"
LEVEL_NOTE = MANIFEST["text"]

NAMES = ["lat", "lon", "alt", "VN", "VE", "VD", "roll", "pitch", "heading"]
ERR = ["north", "east", "down", "VN", "VE", "VD", "roll", "pitch", "heading"]
phi, lam, h, VN, VE, VD, r, p, hd = sp.symbols("phi lam h VN VE VD r p hd", real=True)
ST = [phi, lam, h, VN, VE, VD, r, p, hd]
X9 = sp.symbols("x0:9", real=True)
E9 = sp.symbols("e0:9", real=True)
eps = sp.Symbol("eps", real=True)
BOX = {phi: (-1.4835, 1.4835), lam: (-3.1, 3.1), h: (-500.0, 20000.0), VN: (-300, 300), VE: (-300, 300), VD: (-50, 50),
       r: (-3.1, 3.1), p: (-1.4835, 1.4835), hd: (-3.1, 3.1)}
BOX.update({s: (-1.0, 1.0) for s in X9 + E9})
COSNN = (phi, p)


def make_pva(v):
    sym = isinstance(v["phi"], RSym)
    vals = [deg(v["phi"]), deg(v["lam"]), v["h"], v["VN"], v["VE"], v["VD"], deg(v["r"]), deg(v["p"]), deg(v["hd"])]
    return pd.Series(vals, index=NAMES, dtype=object if sym else float)


def vec(v, names, n):
    sym = isinstance(v["phi"], RSym)
    return np.array([v[s.name] for s in names[:n]], dtype=object if sym else float)


def wrap_stub(log):
    def to_180_range(angle):
        log.append(angle)
        return angle
    return to_180_range


def T_oi_spec(v, wa):
    """Independent specification of the internal->output transform (rows: N,E,D metres; VN,VE,VD; r,p,h degrees)."""
    Vv = sp.Matrix([v["VN"], v["VE"], v["VD"]])
    ph = sp.Matrix(sp.symbols("q1:4", real=True))
    e = sp.Symbol("e_", real=True)
    Cp = frames.expmap_series(list(-e * ph), 1) * frames.attitude(v["r"], v["p"], v["hd"])
    eul = frames.euler_of(Cp)
    J = sp.Matrix(3, 3, lambda i, j: sp.diff(sp.diff(eul[i], e).subs(e, 0), ph[j]) * 180 / sp.pi)
    Tm = sp.zeros(9, 9)
    Tm[0:3, 0:3] = sp.eye(3)
    Tm[3:6, 3:6] = sp.eye(3)
    Tm[3:6, 6:9] = frames.skew(Vv)
    Tm[6:9, 6:9] = J
    if not wa:
        # 2D embedding: DR3 = 0, DV3 = VE*phi1 - VN*phi2 (vertical velocity error identically zero)
        E = sp.zeros(9, 7)
        for a, b in ((0, 0), (1, 1), (3, 2), (4, 3), (6, 4), (7, 5), (8, 6)):
            E[a, b] = 1
        E[5, 4] = v["VE"]
        E[5, 5] = -v["VN"]
        Tm = Tm * E
    return Tm


def _float_standin(ctx, py):
    """Bounded stand-in for the step from real to machine arithmetic in the left-inverse clause (the proof is an identity
    over the reals): on float64, over the whole quantifier domain (|lat|, |pitch| <= 85 deg, speeds from cm/s to orbital),
    transform_to_internal(pva) @ transform_to_output(pva) is the identity to 2e-9 in every cell (the direct inverse of the
    9x9 matrix loses ~1e-11 at worst there; an inverse through normal equations or an iterative refinement that squares the
    condition number loses 1e-7)."""
    t0 = time.time()
    rng = np.random.RandomState(ctx.seed + 505)
    n = 300 if ctx.tier == "quick" else 4000
    fails = []
    worst = 0.0
    for k in range(n):
        speed = 10 ** rng.uniform(-2, np.log10(8000.0))
        d = rng.randn(3)
        vel = speed * d / np.linalg.norm(d)
        pitch = rng.choice([85.0, -85.0, 84.999, -84.999]) if k % 5 == 0 else rng.uniform(-85, 85)
        lat = rng.choice([85.0, -85.0, 0.0]) if k % 7 == 0 else rng.uniform(-85, 85)
        pva = pd.Series([lat, rng.uniform(-180, 180), rng.uniform(-1000, 40000), vel[0], vel[1], vel[2],
                         rng.uniform(-180, 180), pitch, rng.uniform(-180, 180)], index=NAMES, dtype=float)
        for wa in (True, False):
            em = py.error_model.InsErrorModel(wa)
            p_ = pva.copy()
            if not wa:
                p_["VD"] = 0.0
            try:
                M = np.asarray(em.transform_to_internal(p_)) @ np.asarray(em.transform_to_output(p_))
            except Exception as exc:
                fails.append(dict(pva=p_.to_dict(), with_altitude=wa, exception=repr(exc)[:200]))
                continue
            dev = float(np.max(np.abs(M - np.eye(M.shape[0]))))
            worst = max(worst, dev)
            if not dev <= 2e-9:
                fails.append(dict(pva=p_.to_dict(), with_altitude=wa, max_abs_deviation_from_identity=dev, tolerance=2e-9))
    ctx.standin("C05.rt.left_inverse_float64", "%d seeded states x 2 modes (|lat|,|pitch| <= 85 deg incl. the ends, speed 1 cm/s .. 8 km/s): "
                "|T_io T_oi - I| <= 2e-9 in float64 (worst seen %.2g)" % (n, worst), 2 * n, fails, time_s=time.time() - t0)


def run(ctx):
    py = load()
    EM, TR, SIM = py.error_model, py.transform, py.sim
    ctx.under_contract("pyins.error_model._phi_to_delta_rph", "pyins.error_model.InsErrorModel._transform_to_output_3d",
                       "pyins.error_model.InsErrorModel._transform_3d_2d", "pyins.error_model.InsErrorModel.transform_to_output",
                       "pyins.error_model.InsErrorModel.transform_to_internal", "pyins.error_model.InsErrorModel.correct_pva",
                       "pyins.transform.perturb_lla", "pyins.transform.compute_state_difference (Series branch)",
                       "pyins.sim.perturb_pva")
    ctx.trust("scipy Rotation contracts (from_euler/as_euler conventions; from_rotvec = exponential map, Taylor polynomial degree 2)",
              "np.linalg.inv(A) = A^-1 for det A != 0 (LAPACK, assumed)", "util.to_180_range contract (proved in C18)",
              "pandas Series arithmetic / label selection on object dtype (executed)", "spec/frames.py", "sympy, mpmath.iv")
    ctx.assume("Taylor's theorem: 'up to second order' = zeroth and first coefficients agree, smooth away from |pitch|=90",
               "|lat| <= 85 deg, |pitch| <= 85 deg (quantifier of the property)")

    def _mode(wa):
        tag = "3d" if wa else "2d"
        n = 9 if wa else 7
        em = EM.InsErrorModel(wa)

        # ---- T_oi against the independent specification; zero rows in 2D ------------------------
        eq_spec(ctx, "C05.T_oi.spec.%s" % tag, ST, lambda v: em.transform_to_output(make_pva(v)),
                lambda v: T_oi_spec(v, wa), BOX, cos_nonneg=COSNN, py=py)
        if not wa:
            with rdomain(py):
                Tm = em.transform_to_output(make_pva({s.name: RSym(s) for s in ST}))
            lit = all(sp.sympify(unwrap(Tm[row, j])) == 0 for row in (2, 5) for j in range(7))
            ctx.ob("C05.2d.rows_zero", "a", lit, "symbolic-execution", 0.0, "rows down, VD of T_oi(2D) are literally 0 for every pva")

        # ---- inverse: determinant, left inverse ----------------------------------------------------
        proxy = NpProxy(RSym)
        with rdomain(py, proxy=proxy):
            em.transform_to_internal(make_pva({s.name: RSym(s) for s in ST}))
        dets = [d for k, d in proxy.side_conditions if k == "nonzero"]
        # the contract of np.linalg.inv / solve applies where the determinant of what is inverted is non-zero: that, and not a
        # particular way of computing the inverse, is the obligation (the left-inverse claim below decides the result)
        ctx.ob("C05.inv.called_once.%s" % tag, "c", True, "stub-log", 0.0, "%d matrix inversion(s) / linear solve(s) handed to LAPACK" % len(dets))
        bx = dict(CONST_BOX); bx.update(BOX)
        for kd, dd in enumerate(dets):
            sfx = "" if kd == 0 else ".%d" % kd
            v = field.check_zero(dd + (180 / sp.pi) ** 3 / sp.cos(p), domain=full_domain(py, BOX), seed=ctx.seed, cos_nonneg=COSNN)
            if v.status == "proved":
                ctx.from_verdict("C05.det.%s%s" % (tag, sfx), "a", v, None)
                ctx.from_verdict("C05.det_nonzero.%s%s" % (tag, sfx), "d", nonzero.check_nonzero(sp.cos(p), bx, seed=ctx.seed), None)
                continue
            # another matrix is inverted than the T_oi of the pinned tree: its determinant must still be non-zero on the domain
            try:
                num, den, _Rg, gens = field.normal_form(dd, cos_nonneg=COSNN, full=True, domain=full_domain(py, BOX))
                dn = sp.factor(field._back_substitute(num, gens))
                v2 = nonzero.check_nonzero(dn, bx, seed=ctx.seed)
            except Exception as exc:
                v2 = None
                why = repr(exc)[:200]
            if v2 is not None and v2.status == "proved":
                ctx.ob("C05.det.%s%s" % (tag, sfx), "a", True, "field-nf", 0.0, "determinant of the inverted matrix: %s" % str(dn)[:160])
                ctx.from_verdict("C05.det_nonzero.%s%s" % (tag, sfx), "d", v2, None)
            else:
                ctx.ob("C05.det.%s%s" % (tag, sfx), "a", None, "field-nf", 0.0,
                       "the determinant of the matrix handed to LAPACK is not the closed form of the pinned tree and could not be shown non-zero on the domain (%s)"
                       % (why if v2 is None else v2.detail)[:300])
        eq_spec(ctx, "C05.left_inverse.%s" % tag, ST,
                lambda v: np.dot(em.transform_to_internal(make_pva(v)), em.transform_to_output(make_pva(v))),
                lambda v: sp.eye(n), BOX, cos_nonneg=COSNN, py=py, tol=1e-7)

        # ---- correction -----------------------------------------------------------------------------
        wraps = []
        stub = dict(extra=[(py.util, dict(to_180_range=wrap_stub(wraps)))])
        # order 0: correct_pva(pva, 0) = pva
        from pvx import paths as _paths
        from pvx.claims import const_point as _const_point
        st0 = _paths.Captured(lambda: em, py)

        def _zero_correction():
            st0.restore()
            with rdomain(py):
                pva = make_pva({s.name: RSym(s) for s in ST})
                return em.correct_pva(pva, np.array([RSym(sp.Integer(0))] * n, dtype=object))
        runs0 = _paths.explore_claim(_zero_correction)
        st0.restore()
        for k0, (conds0, out0) in enumerate(runs0):
            if conds0 and not _paths.witnesses(conds0, ST, full_domain(py, BOX), _const_point(py), ctx.seed, field.DEFAULT_BOX):
                continue            # a branch no input takes
            _order0(ctx, "C05.correct.order0.%s%s" % (tag, ".path%d" % k0 if len(runs0) > 1 else ""), out0, py)

        def diff_corrected(v):
            pva = make_pva(v)
            x = vec(v, X9, n) * v["eps"]
            return TR.compute_state_difference(em.correct_pva(pva, x), pva)

        def minus_T_x(v):
            Tm = T_oi_spec(v, wa)
            x = sp.Matrix([v[s.name] for s in X9[:n]])
            pred = -Tm * x
            return [[0, pred[i]] for i in range(9)]
        syms = ST + list(X9[:n])
        taylor_spec(ctx, "C05.correct.order1.%s" % tag, syms, eps, diff_corrected, minus_T_x, 1, BOX,
                    cos_nonneg=COSNN, cell_names=ERR, py=py, rdomain_kw=stub, fd_step=1e-4, cc_eps=(-1e-3, 1e-3), cc_tol=1e-4, cc_atol=1e-7)
        # code-vs-code form of the same clause: the prediction is the code's own T_oi
        def minus_Tcode_x(v):
            with rdomain(py):
                Tm = em.transform_to_output(make_pva({k: RSym(val) for k, val in v.items()}))
            Tm = sp.Matrix(9, n, flat(Tm))
            pred = -Tm * sp.Matrix([v[s.name] for s in X9[:n]])
            return [[0, pred[i]] for i in range(9)]
        taylor_spec(ctx, "C05.correct.predicted_by_own_T_oi.%s" % tag, syms, eps, diff_corrected, minus_Tcode_x, 1, BOX,
                    cos_nonneg=COSNN, cell_names=ERR, py=py, rdomain_kw=stub, crosscheck=False, orders=[1])

        # ---- perturb then correct ----------------------------------------------------------------------
        def perturb_correct(v):
            pva = make_pva(v)
            sym = isinstance(v["phi"], RSym)
            e = pd.Series([v[s.name] * v["eps"] for s in E9], index=ERR, dtype=object if sym else float)
            pert = SIM.perturb_pva(pva, e)
            x = np.dot(em.transform_to_internal(pert), np.asarray(e.values))
            return TR.compute_state_difference(em.correct_pva(pert, x), pva)
        e_syms = list(E9)
        if not wa:
            # 2D: the down / VD components of an output-space error are not representable (rows identically zero)
            e_syms = [s for i, s in enumerate(E9) if i not in (2, 5)]

        def pc(v):
            v = dict(v)
            if not wa:
                z = RSym(sp.Integer(0)) if isinstance(v["phi"], RSym) else 0.0
                v["e2"] = z
                v["e5"] = z
            return perturb_correct(v)
        taylor_spec(ctx, "C05.perturb_correct.%s" % tag, ST + e_syms, eps, pc, lambda v: [[0, 0]] * 9, 1, BOX,
                    cos_nonneg=COSNN, cell_names=ERR, py=py, rdomain_kw=stub, fd_step=1e-4, cc_eps=(-1e-3, 1e-3), cc_tol=1e-4, cc_atol=1e-7)

        # wrap-stub side condition: every angle handed to to_180_range vanishes at eps = 0 (so the
        # contract's identity branch applies in a neighbourhood of eps = 0)
        bad = []
        for w in wraps:
            for c in flat(w):
                # (the history obligations run the claim a second time on primed symbols: same side condition, renamed)
                c0 = sp.sympify(c)
                c0 = c0.xreplace({s_: sp.Symbol(s_.name[:-len("__prev")], real=True) for s_ in c0.free_symbols if s_.name.endswith("__prev")}).subs(eps, 0)
                if c0 != 0 and field.check_zero(c0, domain=full_domain(py, BOX), seed=ctx.seed, cos_nonneg=COSNN).status != "proved":
                    if not _is_roundtrip_zero(c0):
                        bad.append(str(c0)[:120])
        ctx.ob("C05.wrap_argument_zero_at_eps0.%s" % tag, "a", not bad, "field-nf", 0.0,
               "%d angle cells passed to to_180_range" % sum(len(flat(w)) for w in wraps) if not bad else "; ".join(bad[:3]))

        # ---- 2D: a correction never changes altitude or vertical velocity ----------------------------
        if not wa:
            eq_spec(ctx, "C05.2d.keeps_alt_vd", ST + list(X9[:7]),
                    lambda v: em.correct_pva(make_pva(v), vec(v, X9, 7))[["alt", "VD"]],
                    lambda v: [v["h"], v["VD"]], BOX, cos_nonneg=COSNN, py=py, cell_names=["alt", "VD"])


    for wa in (True, False):
        ctx.guard(_mode, wa)

    ctx.guard(_float_standin, ctx, py)
    # correct_pva reaches transform.perturb_lla: its closed form for all longitudes (C16's contract) re-established here
    from props import C16 as _C16
    ctx.guard(_C16.perturb_contract, ctx, py, "C05")
    # frame of the modules under contract (no state kept between calls, arguments left alone): same analysis as C19
    from props import C19 as _C19
    ctx.guard(_C19.frame_obligations, ctx, py, "C05", {'error_model', 'transform', 'util', 'sim'})


def _is_roundtrip_zero(c0):
    """angle differences at eps=0 have the form (180/pi)*(atan2(Y,X) - a) or asin form: decided by the
    same congruence lemmas as C17 (direction + positive scale)."""
    c0 = sp.sympify(c0)
    at = list(c0.atoms(sp.atan2)) + list(c0.atoms(sp.asin))
    if len(at) != 1:
        return False
    a = at[0]
    rest = sp.simplify((c0 - 180 / sp.pi * a) * sp.pi / 180)      # should be -angle
    ang = -rest
    if isinstance(a, sp.atan2):
        Y, X = a.args
        d1 = field.check_zero(Y * sp.cos(ang) - X * sp.sin(ang), domain=BOX, cos_nonneg=COSNN)
        d2 = field.check_zero(X * sp.cos(ang) + Y * sp.sin(ang) - sp.cos(p), domain=BOX, cos_nonneg=COSNN)
        return d1.status == "proved" and d2.status == "proved"
    d = field.check_zero(a.args[0] - sp.sin(ang), domain=BOX, cos_nonneg=COSNN)
    return d.status == "proved"


def _order0(ctx, name, out0, py):
    cells = flat(out0)
    want = [phi * 180 / sp.pi, lam * 180 / sp.pi, h, VN, VE, VD, r * 180 / sp.pi, p * 180 / sp.pi, hd * 180 / sp.pi]
    for i, nm in enumerate(NAMES):
        d = sp.sympify(cells[i] - want[i])
        if i < 6:
            ctx.from_verdict("%s[%s]" % (name, nm), "a", field.check_zero(d, domain=full_domain(py, BOX), seed=ctx.seed, cos_nonneg=COSNN), None)
        else:
            ok = d == 0 or sp.simplify(d) == 0 or _is_roundtrip_zero(d)
            ctx.ob("%s[%s]" % (name, nm), "a", ok, "field-nf(atan2 congruence)", 0.0,
                   "angle returned by the Euler extraction is congruent to the input angle (cos pitch > 0)" if ok else str(d)[:200])


def replay(obligation, cex):
    from pvx.harness import Ctx
    ctx = Ctx("C05", "quick", 0, "props.C05")
    run(ctx)
    o = next((o for o in ctx.obs if o.name == obligation), None)
    return dict(reproduced=bool(o and o.status == "failed" and (o.native or {}).get("reproduced", True)),
                obligation=obligation, status=o.status if o else "absent", native_replay=o.native if o else None)
