"""C12 -- Feedback filter: transparent without data, first-order equal to feedforward."""
import ast
import inspect
import textwrap
import time

import numpy as np
import pandas as pd
import z3

from pvx.harness import Ob
from pvx.npproxy import alias_update as _alias_update
from pvx.loader import load, tdomain
from pvx.sym import T, TSym, Sym, t_const, T_ZERO, T_ONE
from pvx.zdomain import explore_z, ZCtx
from props import sched, C09
from props.C02 import t_increments, node, NAMES, INC

MANIFEST = dict(
    category="proof",
    technique="clause (a): lemma over discharged contracts -- cut loop of the real feedback filter with the hypothesis 'no stamp in the span' (z3: correction branch unreachable, no set_pva/update_estimates), reset-before-use, identity of _correct_increments in the trace domain, contiguous batches (C09) and the integrator fold lemma (C02); clause (c): frame analysis over the AST of EstimationModel and the filters; clause (b): NOT decided (bounded relational stand-in), except for a decided necessary condition: both filters thread the corrections of one stamp sequentially, every sensor once at the stamp's own time; Bounded stand-ins shared by all properties (labelled bounded, never counted as proved): the argument-form battery of the modules under contract (batches of 1 and 1200 rows, integer-typed values, labels / columns in other orders, extra labels); where the frame analysis finds state that outlives a call (a cache, a memo) the frame obligation becomes a dynamic purity contract against pristine process states; names the proofs replace by scipy contracts are checked to be bound to the library's functions (else a differential test).",
    text="(a) Proved: when no measurement time lies in [start, end) the correction branch of the real loop body is unreachable for every schedule and time_step, so the integrator is only ever driven by integrate(batch) with contiguous batches of increments that _correct_increments returns unchanged (after reset_estimates the transform is the literal identity and the bias literal zeros; in the trace domain the corrected cells are the input cells themselves, for Series and DataFrame forms and every enabled subset of model states); by C02's fold lemma the trajectory is bit-identical to a single integrate call. (c) Proved by frame reasoning: the only sensor-model attributes written after construction are transform and bias, both overwritten by reset_estimates before any read in either filter; the filters store nothing on the model objects. (b) The second-order agreement of the two filters relates two whole programs in a small-error limit; no contract within reach states it. It is exercised by a bounded relational run only and is not claimed as proved.",
    note="A2, A4; LAPACK solve(I,b)=b exactly (assumed, bounded-checked natively); C02 and C09 obligations are prerequisites (re-run in their own checks); clause (b) undecided by this technique -- stand-in with three error scales on one simulated scenario.",
)
LEVEL = "proof"
LEVEL_NOTE = MANIFEST["text"]


def run(ctx):
    py = load()
    ctx.under_contract("pyins.filters.run_feedback_filter (loop body under the no-data hypothesis)", "pyins.filters._correct_increments",
                       "pyins.inertial_sensor.EstimationModel.reset_estimates/correct_increments/update_estimates (frame)",
                       "pyins.filters.run_feedforward_filter (frame of model objects)")
    ctx.trust("np.linalg.solve(I, b) == b bit-exactly (LAPACK; bounded-checked natively here)", "z3", "C02 fold lemma, C09 loop contract")
    ctx.assume("clause (b) (second-order agreement with the feedforward filter) is NOT decided: bounded stand-in only")
    ctx.guard(_no_data_branch_unreachable, ctx, py)
    ctx.guard(_correct_increments_identity, ctx, py)
    ctx.guard(_frame_models, ctx, py)
    ctx.guard(_trace_runs, ctx, py)
    ctx.guard(_same_update_structure, ctx, py)
    ctx.guard(_standin_a_c, ctx, py)
    ctx.guard(_standin_b, ctx, py)

    # correct_pva reaches transform.perturb_lla: its closed form for all longitudes (C16's contract) re-established here
    from props import C16 as _C16
    ctx.guard(_C16.perturb_contract, ctx, py, "C12")
    from props import helpers as _helpers_l
    ctx.guard(_helpers_l.lean_induction, ctx, "C12", ['Pvx.transparent_run', 'Pvx.chunking_independent'])
    # frame of the modules under contract (no state kept between calls, arguments left alone): same analysis as C19
    from props import C19 as _C19
    ctx.guard(_C19.frame_obligations, ctx, py, "C12", {'inertial_sensor', 'util', 'filters'})


# -----------------------------------------------------------------------------------------------
def _same_update_structure(ctx, py):
    """A necessary condition of clause (b), decided: both filters process the measurements of one stamp in the same way --
    sequentially, each correction starting from the posterior of the previous one, every sensor once at the stamp's own
    time.  (The agreement of the two estimates itself stays undecided; a filter that corrected each sensor from the prior
    and added the corrections would differ from the other at first order whenever two sensors share a stamp.)"""
    from props import C10
    from pvx.zdomain import explore_z, Concretization
    t0 = time.time()
    for tag, mod, args in (("feedback", C09, lambda code: (lambda: C09.scenario(py, code, "two", []))),
                           ("feedforward", C10, lambda code: (lambda: C10.scenario(py, code, "two", False)))):
        code, info = mod.build(py)
        agg = {}
        n_paths = 0
        try:
            paths = explore_z(args(code), max_paths=600)
        except Concretization as exc:
            ctx.add(Ob("C12.engine.update_structure.%s" % tag, "guard", "error", "python", 0.0, "construct outside the executable subset: %r" % (exc,)))
            continue
        for pa, res in paths:
            n_paths += 1
            for (name, st, detail, cex) in res["obligations"]:
                if not name.startswith(("loop.kalman.", "guard.kalman.", "loop.measurement.each_sensor_once", "loop.measurement.own_time")):
                    continue
                cur = agg.get(name)
                rank = dict(proved=0, undecided=1, failed=2)[st]
                if cur is None or rank > cur[0]:
                    agg[name] = (rank, st, detail, cex, 1 if cur is None else cur[4] + 1)
                else:
                    agg[name] = cur[:4] + (cur[4] + 1,)
        ctx.paths += n_paths
        for need in ("loop.kalman.sequential", "guard.kalman.sequential_exercised"):
            if need not in agg and n_paths:
                ctx.ob("C12.b.%s.%s" % (tag, need), "c", False, "z3(cut loop)", 0.0, "no such obligation was generated on %d paths (vacuous)" % n_paths)
        for name in sorted(agg):
            rank, st, detail, cex, count = agg[name]
            ctx.add(Ob("C12.b.%s.%s" % (tag, name), "c", st, "z3(cut loop)", (time.time() - t0) / max(1, len(agg)), "%s [%d path instances]" % (detail, count), cex=cex))


def _no_data_branch_unreachable(ctx, py):
    code, info = C09.build(py)
    t0 = time.time()
    seen = dict(iterations=0, corrections=0, set_pva=0, updates=0, predicts=0)
    obligations = []

    def scen():
        F = py.filters
        c = ZCtx()
        w = sched.World(c, 1)
        c.assume(w.t0 < w.Tt(z3.IntVal(0)), "initial time before the first stamp")
        # hypothesis of clause (a): no measurement time in [start, end)
        orig_Mt = w.Mt

        def Mt(k):
            v = orig_Mt(k)
            c.assume(z3.Implies(z3.And(k >= 0, k < w.K), v >= w.Tt(w.N - 1)), "no stamp inside the processed span")
            return v
        w.Mt = Mt
        sensors = [sched.SensorA(w)]
        hooks = C09.Hooks(w, sensors, ["SensorA"], func=F.run_feedback_filter)
        cap = sched.BunchCapture()
        gm, am = sched.ModelStub(w, "gyro"), sched.ModelStub(w, "accel")
        integ = []

        class StrapNS:
            @staticmethod
            def Integrator(pva, with_altitude=True):
                integ.append(sched.IntegratorStub(w, pva, with_altitude))
                return integ[-1]

        class InertialNS:
            @staticmethod
            def EstimationModel(*a, **k):
                return sched.ModelStub(w, "default")

        def correct_increments(inc, g, a):
            return inc
        ns = dict(F.__dict__)
        from pvx.zdomain import OPAQUE, zmin, zmax, Stop, ObligationFailed
        _alias_update(ns, F.__dict__, dict(__pvx=hooks, np=sched.ZNp(w), pd=OPAQUE, kalman=OPAQUE, transform=OPAQUE, earth=OPAQUE, Rotation=OPAQUE,
                  util=cap, strapdown=StrapNS, inertial_sensor=InertialNS, InsErrorModel=lambda wa=True: OPAQUE,
                  _correct_increments=correct_increments, _initialize_covariance=lambda *a, **k: OPAQUE,
                  _compute_error_propagation_matrices=lambda *a, **k: (OPAQUE, OPAQUE), _compute_sd=lambda *a, **k: (OPAQUE, OPAQUE, OPAQUE),
                  _interpolate_pva=lambda *a, **k: OPAQUE, min=zmin, max=zmax, len=sched.zlen))
        from pvx import loopcut
        fn, _ = loopcut.instantiate(F.run_feedback_filter, code, ns)
        from pvx.zdomain import ZSym
        try:
            fn(sched.PvaStub(ZSym(w.t0)), OPAQUE, OPAQUE, OPAQUE, OPAQUE, sched.IncTable(w), gyro_model=gm, accel_model=am,
               measurements=list(sensors), time_step=ZSym(w.step), with_altitude=True)
        except Stop:
            seen["iterations"] += 1
            it = integ[0]
            seen["set_pva"] += sum(1 for x in it.calls if x[0] == "set_pva")
            seen["predicts"] += sum(1 for x in it.calls if x[0] == "predict")
            seen["corrections"] += len(sensors[0].calls)
            seen["updates"] += gm.events.count("update") + am.events.count("update")
        except ObligationFailed:
            pass
        obligations.extend(c.obligations)
        return None
    paths = explore_z(scen, max_paths=200)
    ctx.paths += len(paths)
    bad = [o for o in obligations if o[1] != "proved"]
    ok = seen["iterations"] > 0 and not any(seen[k] for k in ("corrections", "set_pva", "updates", "predicts")) and not bad
    ctx.ob("C12.a.correction_branch_unreachable", "c", ok, "z3(cut loop)", time.time() - t0,
           "hypothesis: every stamp >= end.  %d iteration paths of the real loop body: %d compute_matrices calls, %d set_pva, %d predict, %d update_estimates; invariant obligations on these paths: %d, not proved: %d"
           % (seen["iterations"], seen["corrections"], seen["set_pva"], seen["predicts"], seen["updates"], len(obligations), len(bad)),
           cex=None if ok else dict(seen=seen, not_proved=[b[0] for b in bad][:5]),
           native=None if ok else _native_transparent(py))


# -----------------------------------------------------------------------------------------------
def _correct_increments_identity(ctx, py):
    IS = py.inertial_sensor
    t0 = time.time()
    configs = [dict(), dict(bias_sd=1.0), dict(bias_sd=[1.0, 0, 2.0], bias_walk=[0.1, 0, 0]), dict(scale_misal_sd=np.full((3, 3), 0.01)),
               dict(bias_sd=1.0, noise=0.1, bias_walk=0.01, scale_misal_sd=np.diag([0.01, 0, 0.02]))]
    for k, cfg in enumerate(configs):
        gm, am = IS.EstimationModel(**cfg), IS.EstimationModel(**configs[(k + 2) % len(configs)])
        # dirty the estimates natively first: reset must restore the literal identity / zeros
        if gm.n_states:
            gm.update_estimates(np.arange(1, gm.n_states + 1) * 1e-3)
        with tdomain(py) as proxy:
            gm.reset_estimates()
            am.reset_estimates()
            lit = (all(node(gm.transform[i, j]) is (T_ONE if i == j else T_ZERO) for i in range(3) for j in range(3))
                   and all(node(x) is T_ZERO for x in gm.bias))
            inc = t_increments([0.1, 0.2, 0.3])
            out_df = py.filters._correct_increments(inc, gm, am)
            row = inc.iloc[1]
            out_s = py.filters._correct_increments(row, gm, am)
            same_df = (list(out_df.columns) == list(inc.columns) and list(out_df.index) == list(inc.index)
                       and all(node(a) is node(b) for a, b in zip(out_df.values.reshape(-1), inc.values.reshape(-1))))
            same_s = (list(out_s.index) == list(row.index) and out_s.name == row.name
                      and all(node(a) is node(b) for a, b in zip(out_s.values, row.values)))
            untouched = all(node(a) is node(b) for a, b in zip(inc.values.reshape(-1), t_increments([0.1, 0.2, 0.3]).values.reshape(-1)))
            solves = [s_ for s_, _ in proxy.side_conditions]
        ctx.ob("C12.a.reset_gives_literal_identity[%d]" % k, "T", lit, "trace-domain", time.time() - t0, "transform is the literal identity, bias literal zeros after reset_estimates (config %s)" % sorted(cfg))
        ctx.ob("C12.a.correct_increments_identity[%d]" % k, "T", same_df and same_s and untouched and all(s_ == "solve_identity" for s_ in solves),
               "trace-domain(DAG identity)", time.time() - t0,
               "with reset estimates _correct_increments returns the input cells themselves (DataFrame and Series forms), same index/columns/name; input table untouched; %d solve(I, .) calls" % len(solves),
               cex=None if (same_df and same_s) else dict(config=sorted(cfg)), native=None if (same_df and same_s) else _native_transparent(py))
    # bounded check of the assumed LAPACK clause solve(I, b) == b
    rng = np.random.RandomState(ctx.seed)
    bad = 0
    for _ in range(200):
        b = rng.randn(3, rng.randint(1, 40)) * 10 ** rng.uniform(-8, 8)
        if not np.array_equal(np.linalg.solve(np.identity(3), b), b):
            bad += 1
    ctx.standin("C12.a.lapack_solve_identity.rt", "200 random right-hand sides over 16 decades: np.linalg.solve(I3, b) bit-equal to b", 200,
                [dict(count=bad)] if bad else [])


# -----------------------------------------------------------------------------------------------
def _frame_models(ctx, py):
    """(c): attributes of the model objects written after construction, and reads in the filters."""
    IS, F = py.inertial_sensor, py.filters
    t0 = time.time()
    cls_src = textwrap.dedent(inspect.getsource(IS.EstimationModel))
    cls = ast.parse(cls_src).body[0]
    written = {}
    inplace = {}
    for fn in [n for n in cls.body if isinstance(n, ast.FunctionDef)]:
        for n in ast.walk(fn):
            if isinstance(n, ast.Attribute) and isinstance(n.ctx, ast.Store) and getattr(n.value, "id", "") == "self":
                written.setdefault(fn.name, set()).add(n.attr)
            if isinstance(n, (ast.Subscript,)) and isinstance(n.ctx, ast.Store):
                base = n.value
                while isinstance(base, ast.Subscript):
                    base = base.value
                if isinstance(base, ast.Attribute) and getattr(base.value, "id", "") == "self":
                    inplace.setdefault(fn.name, set()).add(base.attr)
            if isinstance(n, ast.AugAssign):
                tgt = n.target
                base = tgt
                while isinstance(base, ast.Subscript):
                    base = base.value
                if isinstance(base, ast.Attribute) and getattr(base.value, "id", "") == "self":
                    inplace.setdefault(fn.name, set()).add(base.attr)
    after_init = set()
    for k, v in written.items():
        if k != "__init__":
            after_init |= v
    inpl = set()
    for k, v in inplace.items():
        if k != "__init__":
            inpl |= v
    ok_w = after_init <= {"transform", "bias"} and inpl <= {"transform", "bias"}
    ctx.ob("C12.c.model_state_written_after_construction", "f", ok_w, "ast-frame", time.time() - t0,
           "EstimationModel methods other than __init__ assign only %s and mutate in place only %s" % (sorted(after_init), sorted(inpl)),
           cex=None if ok_w else dict(assigned=sorted(after_init), in_place=sorted(inpl)))
    reset = next(n for n in cls.body if isinstance(n, ast.FunctionDef) and n.name == "reset_estimates")
    fresh = {ast.unparse(s.targets[0]): ast.unparse(s.value) for s in reset.body if isinstance(s, ast.Assign)}
    ok_r = fresh.get("self.transform", "").startswith("np.identity(") and fresh.get("self.bias", "").startswith("np.zeros(")
    ctx.ob("C12.c.reset_allocates_fresh_state", "f", ok_r, "ast-frame", 0.0, "reset_estimates rebinds transform / bias to freshly allocated arrays: %s" % fresh)
    for fname in ("run_feedback_filter", "run_feedforward_filter"):
        fn = ast.parse(textwrap.dedent(inspect.getsource(getattr(F, fname)))).body[0]
        stores = [ast.unparse(n) for n in ast.walk(fn) if isinstance(n, (ast.Attribute, ast.Subscript)) and isinstance(n.ctx, ast.Store)
                  and any(isinstance(x, ast.Name) and x.id in ("gyro_model", "accel_model") for x in ast.walk(n))]
        # first use of each model is reset_estimates (statement order in the prologue)
        first = {}
        for st in fn.body:
            for n in ast.walk(st):
                if isinstance(n, ast.Attribute) and isinstance(n.value, ast.Name) and n.value.id in ("gyro_model", "accel_model"):
                    first.setdefault(n.value.id, []).append(n.attr)
        # reads that happen before reset must be construction-time data only
        pre_reset_ok = True
        for m, attrs in first.items():
            i = attrs.index("reset_estimates") if "reset_estimates" in attrs else None
            if i is None or any(a in ("transform", "bias", "get_estimates", "correct_increments", "update_estimates") for a in attrs[:i]):
                pre_reset_ok = False
        ctx.ob("C12.c.%s.models_not_written_and_reset_first" % fname, "f", not stores and pre_reset_ok, "ast-frame", 0.0,
               "no attribute/item store on gyro_model/accel_model in the filter; estimate state is not read before reset_estimates (first uses: %s)" % {k: v[:4] for k, v in first.items()},
               cex=None if (not stores and pre_reset_ok) else dict(stores=stores, first=first))


# -----------------------------------------------------------------------------------------------
TRACE_SCHEDULES = [
    # (increment stamps, per-sensor stamps (none in [start, end)), time_step, with_altitude)
    ([0.1, 0.2, 0.3, 0.4, 0.5, 0.6], [[0.6, 0.9], [-1.0]], 0.25, True),
    ([0.1, 0.2, 0.3, 0.4, 0.5, 0.6], [[0.6], []], 0.1, True),
    ([0.1, 0.25, 0.3, 0.55, 0.6, 0.8, 0.85], [[-0.5, 0.85, 2.0], [0.85]], 0.3, True),
    ([0.1, 0.2, 0.3, 0.4, 0.5, 0.6, 0.7], [[], [1.0]], 100.0, False),
]


def _trace_runs(ctx, py):
    """the REAL, uncut run_feedback_filter with estimated sensor states on symbolic payloads and stamps outside the
    span: the returned trajectory is cell-for-cell the SAME operation DAG as one Integrator.integrate call"""
    from props import sched
    from props.C02 import same_rows
    cfgs = [dict(bias_sd=1.0, scale_misal_sd=np.ones((3, 3))), dict(bias_sd=1.0, bias_walk=0.1)]
    scheds = TRACE_SCHEDULES if ctx.tier != "quick" else TRACE_SCHEDULES[:2]
    for k, (times, stamps, step, wa) in enumerate(scheds):
        t0 = time.time()
        res, pva, inc, ref = sched.feedback_filter_trace(py, times, stamps, step, wa, gyro_cfg=cfgs[k % 2], accel_cfg=cfgs[(k + 1) % 2])
        ok = list(res.trajectory.index) == list(ref.index) and same_rows(res.trajectory, ref)
        ctx.ob("C12.a.trace_run[%d]" % k, "T", ok, "trace-domain(real uncut filter, symbolic payload, DAG identity)", time.time() - t0,
               "stamps %s, measurement stamps %s (none in the span), time_step %s, with_altitude=%s: trajectory == Integrator.integrate(increments) as operation DAGs" % (times, stamps, step, wa),
               cex=None if ok else dict(index=list(map(float, res.trajectory.index)), expected=list(map(float, ref.index))),
               native=None if ok else _native_transparent(py))


def _scenario(py, seed, n=80, scale=1.0):
    rng = np.random.RandomState(seed)
    dt = 0.1
    traj, imu = py.sim.generate_sine_velocity_motion(dt, n * dt + dt, [55.0, 37.0, 100.0], [3.0, 2.0, 0.0], [2.0, 2.0, 0.2], 30.0)
    inc = py.strapdown.compute_increments_from_imu(imu, "rate")
    return traj, imu, inc


def _native_transparent(py):
    IS = py.inertial_sensor
    traj, imu, inc = _scenario(py, 0)
    pva = traj.iloc[0]
    ref = py.strapdown.Integrator(pva).integrate(inc)
    gm = IS.EstimationModel(bias_sd=1e-4, scale_misal_sd=np.full((3, 3), 1e-3))
    am = IS.EstimationModel(bias_sd=1e-2, noise=1e-3)
    pos = pd.DataFrame(dict(lat=[55.0, 55.0], lon=[37.0, 37.0], alt=[100.0, 100.0]), index=[-5.0, float(inc.index[-1])])
    bad = []
    for step in (0.03, 0.1, 0.37, 5.0, 100.0):
        res = py.filters.run_feedback_filter(pva, 5, 0.5, 1, 2, inc, gm, am, measurements=[py.measurements.Position(pos, 3.0)], time_step=step)
        if not np.array_equal(res.trajectory.values, ref.values) or list(res.trajectory.index) != list(ref.index):
            bad.append(step)
    return dict(reproduced=bool(bad), time_steps_with_difference=bad)


def _standin_a_c(ctx, py):
    t0 = time.time()
    r = _native_transparent(py)
    fails = [r] if r["reproduced"] else []
    # (c) re-running with the same model objects
    IS = py.inertial_sensor
    traj, imu, inc = _scenario(py, 1)
    pva = traj.iloc[0]
    gm = IS.EstimationModel(bias_sd=1e-4, scale_misal_sd=np.diag([1e-3, 1e-3, 1e-3]))
    am = IS.EstimationModel(bias_sd=1e-2, noise=1e-3, bias_walk=1e-4)
    pos = py.sim.generate_position_measurements(traj.iloc[::10], 1.0, rng=3)
    args = lambda: dict(measurements=[py.measurements.Position(pos, 1.0)], time_step=0.5)
    a = py.filters.run_feedback_filter(pva, 5, 0.5, 1, 2, inc, gm, am, **args())
    b = py.filters.run_feedback_filter(pva, 5, 0.5, 1, 2, inc, gm, am, **args())
    for k in ("trajectory", "trajectory_sd", "gyro", "accel", "gyro_sd", "accel_sd"):
        if not np.array_equal(a[k].values, b[k].values):
            fails.append(dict(clause="c", filter="feedback", table=k))
    tc = py.strapdown.Integrator(pva).integrate(inc)
    a = py.filters.run_feedforward_filter(tc, tc, 5, 0.5, 1, 2, gm, am, increments=inc, **args())
    b = py.filters.run_feedforward_filter(tc, tc, 5, 0.5, 1, 2, gm, am, increments=inc, **args())
    for k in ("trajectory", "trajectory_sd", "gyro", "accel"):
        if not np.array_equal(a[k].values, b[k].values):
            fails.append(dict(clause="c", filter="feedforward", table=k))
    ctx.standin("C12.ac.rt", "real filters: (a) 5 time steps, scale/misalignment states enabled, stamps only outside the span: trajectory bit-equal to plain integration; (c) both filters run twice with the same model objects: all tables bit-equal",
                7, fails, time_s=time.time() - t0)


def _standin_b(ctx, py):
    """BOUNDED relational stand-in for clause (b); nothing is claimed as proved about (b)."""
    t0 = time.time()
    IS, S, F, M = py.inertial_sensor, py.sim, py.filters, py.measurements
    n = 300
    traj, imu, _ = _scenario(py, 2, n)
    pos = traj.iloc[::10][["lat", "lon", "alt"]]
    base_err = pd.Series([3.0, -2.0, 1.0, 0.1, -0.1, 0.05, 0.05, -0.05, 0.2], index=py.util.TRAJECTORY_ERROR_COLS)
    out = []
    for scale in (1.0, 0.3, 0.1):
        gp = IS.Parameters(bias=np.array([2e-5, -1e-5, 1.5e-5]) * scale)
        ap = IS.Parameters(bias=np.array([0.02, -0.01, 0.015]) * scale)
        imu_e = IS.apply_imu_parameters(imu, "rate", gp, ap)
        inc = py.strapdown.compute_increments_from_imu(imu_e, "rate")
        pva0 = S.perturb_pva(traj.iloc[0], base_err * scale)
        gm = IS.EstimationModel(bias_sd=3e-5 * scale)
        am = IS.EstimationModel(bias_sd=0.03 * scale)
        sds = (5.0 * scale, 0.2 * scale, 0.1 * scale, 0.4 * scale)
        meas = [M.Position(pos, 1.0 * scale)]
        fb = F.run_feedback_filter(pva0, *sds, inc, gm, am, measurements=meas, time_step=1.0)
        tc = py.strapdown.Integrator(pva0).integrate(inc)
        ff = F.run_feedforward_filter(tc, tc, *sds, gm, am, measurements=meas, time_step=1.0)
        common = ff.trajectory.index.intersection(fb.trajectory_sd.index)
        d = py.transform.compute_state_difference(fb.trajectory.loc[common], ff.trajectory.loc[common])
        norm = (d.abs() / fb.trajectory_sd.loc[common].values).iloc[3:]
        out.append(float(norm.max().max()))
    desc = "ONE simulated 30 s scenario, error scales {1, 0.3, 0.1}: max disagreement feedback vs feedforward in units of the reported sd is %s. Clause (b) is not decided by this technique." % ["%.3g" % x for x in out]
    strict = out[2] <= 0.5 * out[0] + 1e-9 and out[1] <= 0.9 * out[0] + 1e-9
    ctx.standin("C12.b.rt.strict_proportionality", desc + " Required: shrinks with the scale (d(0.1) <= 0.5 d(1)).",
                3, [] if strict else [dict(normalised_disagreement=out)], time_s=time.time() - t0)
    bounded = max(out) <= 0.02
    ctx.standin("C12.b.rt.bounded_disagreement", desc + " Required: never above 2 % of the reported sd at any scale.",
                3, [] if bounded else [dict(normalised_disagreement=out)])
    # the same relation on a schedule where TWO distinct epochs (a position fix, then a velocity fix) fall inside one IMU interval
    # -- the path of the feedback loop that handles a second epoch before the next increment is applied
    t1 = time.time()
    dt_imu = float(np.median(np.diff(traj.index)))
    base = np.asarray(traj.index[5:-5:10], dtype=float)
    tp, tv = base + 0.3 * dt_imu, base + 0.7 * dt_imu
    rs = py.transform.resample_state(traj, np.sort(np.hstack([tp, tv])))
    pos2, vel2 = rs.loc[tp, ["lat", "lon", "alt"]], rs.loc[tv, ["VN", "VE", "VD"]]
    out2 = []
    for scale in (1.0, 0.1):
        gp = IS.Parameters(bias=np.array([2e-5, -1e-5, 1.5e-5]) * scale)
        ap = IS.Parameters(bias=np.array([0.02, -0.01, 0.015]) * scale)
        inc = py.strapdown.compute_increments_from_imu(IS.apply_imu_parameters(imu, "rate", gp, ap), "rate")
        pva0 = S.perturb_pva(traj.iloc[0], base_err * scale)
        gm, am = IS.EstimationModel(bias_sd=3e-5 * scale), IS.EstimationModel(bias_sd=0.03 * scale)
        sds = (5.0 * scale, 0.2 * scale, 0.1 * scale, 0.4 * scale)
        meas = [M.Position(pos2, 1.0 * scale), M.NedVelocity(vel2, 0.1 * scale)]
        fb = F.run_feedback_filter(pva0, *sds, inc, gm, am, measurements=meas, time_step=1.0)
        tc = py.strapdown.Integrator(pva0).integrate(inc)
        ff = F.run_feedforward_filter(tc, tc, *sds, gm, am, measurements=meas, time_step=1.0)
        common = ff.trajectory.index.intersection(fb.trajectory_sd.index)
        d = py.transform.compute_state_difference(fb.trajectory.loc[common], ff.trajectory.loc[common])
        norm = (d.abs() / fb.trajectory_sd.loc[common].values).iloc[3:]
        out2.append(float(norm.max().max()))
    ok2 = max(out2) <= 0.3
    ctx.standin("C12.b.rt.two_epochs_in_one_interval",
                "the same 30 s scenario with a position fix at 0.3 and a velocity fix at 0.7 of one IMU interval (every 10th interval), error scales {1, 0.1}: max disagreement "
                "feedback vs feedforward in units of the reported sd is %s. Required: never above 0.3 sd. Clause (b) is not decided by this technique." % ["%.3g" % x for x in out2],
                2, [] if ok2 else [dict(normalised_disagreement=out2, schedule="position at t_k + 0.3 dt, NED velocity at t_k + 0.7 dt")], time_s=time.time() - t1)


def replay(obligation, cex):
    py = load()
    return _native_transparent(py)
