"""C16 -- Earth model and geodetic transforms are one coherent ellipsoidal geometry."""
import math
import time

import numpy as np
import sympy as sp

from pvx import field
from pvx.claims import deg, rad, eq_spec, taylor_spec, flat, flat_float, full_domain
from pvx.harness import Ob
from pvx.loader import load, rdomain, real_constants
from pvx.sym import RSym, unwrap, explore
from spec import wgs84, frames

MANIFEST = dict(
    category="proof",
    technique="contract-directed symbolic execution of the real functions on sympy reals; equality with spec functions decided by a fraction-field normal form; Taylor-coefficient obligations; run-time stand-in for Olson's inverse; Every claim is also checked for call history: the real code is run twice in the same symbolic world (primed inputs first; same captured objects and module state) and the second result must still meet the contract on every path a concrete witness input takes; value-dependent branches inside a claim are explored path by path. The frame obligations (C19's analysis) of the modules under contract are re-established under this property's name.; Bounded stand-ins shared by all properties (labelled bounded, never counted as proved): the argument-form battery of the modules under contract (batches of 1 and 1200 rows, integer-typed values, labels / columns in other orders, extra labels); where the frame analysis finds state that outlives a call (a cache, a memo) the frame obligation becomes a dynamic purity contract against pristine process states; names the proofs replace by scipy contracts are checked to be bound to the library's functions (else a differential test).",
    text="Every function of pyins.earth and the geodetic functions of pyins.transform are executed symbolically (real code objects, scalar and stacked forms) and proved equal, for all latitudes/longitudes/altitudes and all ellipsoid constants, to an independent closed-form WGS-84 specification; the differential statements (frame axes = partial derivatives of ECEF position with the principal radii as lengths, first-order agreement of perturb/difference/NED coordinates, curvature matrix = rotation of the NED frame) are proved as Taylor-coefficient identities; parity in latitude is proved on the code's own expressions. The accuracy of Olson's ECEF->LLA approximation is NOT proved: only its longitude formula and hemisphere symmetry are, the round trip is a bounded run-time stand-in on a stated grid.",
    note="Assumes A1-A6 (floats as reals, numpy structural ops executed on object arrays, numba faithful); scipy Rotation.from_euler replaced by its assumed contract (intrinsic 'ZY'), cross-checked natively on every run; cos(lat)>=0 i.e. |lat|<=90 deg as side condition for sqrt(1-sin^2); Olson inverse accuracy only bounded-checked.",
)
LEVEL = "proof"
LEVEL_NOTE = MANIFEST["text"]

phi, lam, h = sp.symbols("phi lam h", real=True)
phi2, lam2, h2 = sp.symbols("phi2 lam2 h2", real=True)
dN, dE, dD = sp.symbols("dN dE dD", real=True)
eps = sp.Symbol("eps", real=True)

BOX = {phi: (-1.5, 1.5), lam: (-3.1, 3.1), h: (-1e4, 1e5),
       phi2: (-1.5, 1.5), lam2: (-3.1, 3.1), h2: (-1e4, 1e5),
       dN: (-50, 50), dE: (-50, 50), dD: (-50, 50)}
COSNN = (phi, phi2)


def perturb_contract(ctx, py, prefix):
    """perturb_lla against its closed form for ALL longitudes, the antimeridian included (the result is lon + dE / r_p as
    it stands: every consumer -- compute_state_difference, the measurement models -- subtracts longitudes without
    wrapping); also used by the properties whose code reaches perturb_lla through correct_pva (C05, C12, C13)"""
    T = py.transform
    box = dict(BOX)
    box[lam] = (-math.pi, math.pi)
    eq_spec(ctx, "%s.perturb.closed_form" % prefix, [phi, lam, h, dN, dE, dD],
            lambda v: T.perturb_lla([deg(v["phi"]), deg(v["lam"]), v["h"]], [v["dN"], v["dE"], v["dD"]]),
            lambda v: _perturb_spec(v["phi"], v["lam"], v["h"], v["dN"], v["dE"], v["dD"]),
            box, cos_nonneg=COSNN, py=py, cell_names=["lat", "lon", "alt"])


def run(ctx):
    py = load()
    E, T = py.earth, py.transform
    ctx.under_contract(
        "pyins.earth.principal_radii", "pyins.earth.gravity", "pyins.earth.gravity_n",
        "pyins.earth.gravitation_ecef", "pyins.earth.curvature_matrix", "pyins.earth.rate_n",
        "pyins.transform.lla_to_ecef", "pyins.transform.ecef_to_lla (longitude, symmetry only)",
        "pyins.transform.lla_to_ned", "pyins.transform.perturb_lla",
        "pyins.transform.compute_lla_difference", "pyins.transform.mat_en_from_ll",
        "pyins._numba_integrate.gravity (py_func)")
    ctx.trust("scipy Rotation.from_euler('ZY', [lon, -90-lat], degrees=True).as_matrix() == Rz(lon) Ry(-90-lat) (assumed contract, cross-checked natively)",
              "sympy polys (fraction field, remainder), mpmath", "spec/wgs84.py, spec/frames.py (hand-written oracle)")
    ctx.assume("|lat| <= 90 deg so that sqrt(1-sin^2 lat) = cos lat; denominators (1-E2 sin^2 lat) > 0 for 0<E2<1",
               "Taylor's theorem for the 'to first order' clauses")

    # ---- constants (finite: checked completely at run time) -------------------------
    rc = real_constants(py)
    t0 = time.time()
    for k, v in wgs84.WGS84_VALUES.items():
        ctx.ob("C16.constants.%s" % k, "c", rc[k] == v, "exact-compare", 0.0,
               "module %s=%r, WGS-84 %r" % (k, rc[k], v),
               cex=None if rc[k] == v else dict(constant=k, module=rc[k], wgs84=v),
               native=None if rc[k] == v else dict(reproduced=True))
    Fdef = (1 - rc["E2"]) ** 0.5 * rc["GP"] / rc["GE"] - 1
    okF = abs(rc["F"] - Fdef) <= 4e-16 * abs(Fdef)
    ctx.ob("C16.constants.F", "c", okF, "exact-compare", time.time() - t0,
           "earth.F=%r, sqrt(1-E2)*GP/GE-1=%r" % (rc["F"], Fdef),
           cex=None if okF else dict(F=rc["F"], expected=Fdef), native=None if okF else dict(reproduced=True))

    # ---- closed forms ------------------------------------------------------------------
    eq_spec(ctx, "C16.ecef.closed_form.scalar", [phi, lam, h],
            lambda v: T.lla_to_ecef([deg(v["phi"]), deg(v["lam"]), v["h"]]),
            lambda v: wgs84.r_e(v["phi"], v["lam"], v["h"]), BOX, cos_nonneg=COSNN, py=py,
            cell_names=["x", "y", "z"])
    eq_spec(ctx, "C16.ecef.closed_form.stacked", [phi, lam, h, phi2, lam2, h2],
            lambda v: T.lla_to_ecef([[deg(v["phi"]), deg(v["lam"]), v["h"]],
                                     [deg(v["phi2"]), deg(v["lam2"]), v["h2"]]]),
            lambda v: list(wgs84.r_e(v["phi"], v["lam"], v["h"])) + list(wgs84.r_e(v["phi2"], v["lam2"], v["h2"])),
            BOX, cos_nonneg=COSNN, py=py)
    eq_spec(ctx, "C16.radii.scalar", [phi, h],
            lambda v: E.principal_radii(deg(v["phi"]), v["h"]),
            lambda v: list(wgs84.principal_radii(v["phi"], v["h"])), BOX, cos_nonneg=COSNN, py=py,
            cell_names=["rn", "re", "rp"])
    eq_spec(ctx, "C16.radii.stacked", [phi, h, phi2, h2],
            lambda v: E.principal_radii(np.array([deg(v["phi"]), deg(v["phi2"])], dtype=object if isinstance(v["phi"], RSym) else float),
                                        np.array([v["h"], v["h2"]], dtype=object if isinstance(v["phi"], RSym) else float)),
            lambda v: [x for pair in zip(wgs84.principal_radii(v["phi"], v["h"]),
                                         wgs84.principal_radii(v["phi2"], v["h2"])) for x in pair],
            BOX, cos_nonneg=COSNN, py=py)

    # ---- local frame ---------------------------------------------------------------------
    eq_spec(ctx, "C16.frame.closed_form.scalar", [phi, lam],
            lambda v: T.mat_en_from_ll(deg(v["phi"]), deg(v["lam"])),
            lambda v: frames.C_en(v["phi"], v["lam"]), BOX, py=py)
    eq_spec(ctx, "C16.frame.closed_form.stacked", [phi, lam, phi2, lam2],
            lambda v: T.mat_en_from_ll([deg(v["phi"]), deg(v["phi2"])], [deg(v["lam"]), deg(v["lam2"])]),
            lambda v: list(frames.C_en(v["phi"], v["lam"])) + list(frames.C_en(v["phi2"], v["lam2"])), BOX, py=py)
    # lemmas over the spec (what the property says about the frame): orthonormal, proper,
    # axes along the partial derivatives of ECEF position, lengths = principal radii.
    C = frames.C_en(phi, lam)
    _lemma_matrix(ctx, "C16.frame.orthonormal", C.T * C - sp.eye(3))
    _lemma(ctx, "C16.frame.proper", C.det() - 1)
    r = wgs84.r_e(phi, lam, h)
    M_h, N_h, rp = wgs84.principal_radii(phi, h)
    north, east, down = frames.ned_axes_in_ecef(phi, lam)
    _lemma_matrix(ctx, "C16.frame.axes.dlat", sp.diff(r, phi) - M_h * north, cos_nonneg=COSNN)
    _lemma_matrix(ctx, "C16.frame.axes.dlon", sp.diff(r, lam) - rp * east, cos_nonneg=COSNN)
    _lemma_matrix(ctx, "C16.frame.axes.dalt", sp.diff(r, h) + down, cos_nonneg=COSNN)

    # ---- perturbation / difference / NED coordinates -----------------------------------
    perturb_contract(ctx, py, "C16")
    d = [dN, dE, dD]
    want01 = lambda v: [[0, v["dN"]], [0, v["dE"]], [0, v["dD"]]]
    taylor_spec(ctx, "C16.ned.order1", [phi, lam, h, dN, dE, dD], eps,
                lambda v: T.lla_to_ned(
                    np.atleast_2d(T.perturb_lla([deg(v["phi"]), deg(v["lam"]), v["h"]],
                                                [v["eps"] * v["dN"], v["eps"] * v["dE"], v["eps"] * v["dD"]])),
                    [deg(v["phi"]), deg(v["lam"]), v["h"]]),
                want01, 1, BOX, cos_nonneg=COSNN, py=py, cell_names=["north", "east", "down"], fd_step=1e-2)
    taylor_spec(ctx, "C16.difference.order1", [phi, lam, h, dN, dE, dD], eps,
                lambda v: T.compute_lla_difference(
                    T.perturb_lla([deg(v["phi"]), deg(v["lam"]), v["h"]],
                                  [v["eps"] * v["dN"], v["eps"] * v["dE"], v["eps"] * v["dD"]]),
                    [deg(v["phi"]), deg(v["lam"]), v["h"]]),
                want01, 1, BOX, cos_nonneg=COSNN, py=py, cell_names=["north", "east", "down"], fd_step=1e-2)
    eq_spec(ctx, "C16.difference.antisymmetric", [phi, lam, h, phi2, lam2, h2],
            lambda v: T.compute_lla_difference([deg(v["phi"]), deg(v["lam"]), v["h"]],
                                               [deg(v["phi2"]), deg(v["lam2"]), v["h2"]]),
            lambda v: _difference_spec(v["phi"], v["lam"], v["h"], v["phi2"], v["lam2"], v["h2"]),
            BOX, py=py, cos_nonneg=(), cell_names=["north", "east", "down"])

    # ---- curvature ---------------------------------------------------------------------------
    eq_spec(ctx, "C16.curvature.closed_form", [phi, h],
            lambda v: E.curvature_matrix(deg(v["phi"]), v["h"]),
            lambda v: _curvature_spec(v["phi"], v["h"]), BOX, cos_nonneg=COSNN, py=py)
    eq_spec(ctx, "C16.curvature.closed_form.stacked", [phi, h, phi2, h2],
            lambda v: E.curvature_matrix(_arr(v, "phi", "phi2", deg), _arr(v, "h", "h2")),
            lambda v: list(_curvature_spec(v["phi"], v["h"])) + list(_curvature_spec(v["phi2"], v["h2"])),
            BOX, cos_nonneg=COSNN, py=py)
    # lemma over the spec + code of perturb_lla: d/d eps [C_en(p)^T C_en(perturb(p, eps d))] = [(F d) x]
    pl = _perturb_spec(phi, lam, h, eps * dN, eps * dE, eps * dD)
    Cp = frames.C_en(pl[0] * sp.pi / 180, pl[1] * sp.pi / 180)
    dC = (C.T * sp.diff(Cp, eps)).subs(eps, 0)
    Fd = _curvature_spec(phi, h) * sp.Matrix(d)
    _lemma_matrix(ctx, "C16.curvature.is_frame_rotation", dC - frames.skew(Fd), cos_nonneg=COSNN, kind="b")

    # ---- gravity in all representations ---------------------------------------------------
    eq_spec(ctx, "C16.gravity.earth", [phi, h], lambda v: E.gravity(deg(v["phi"]), v["h"]),
            lambda v: wgs84.normal_gravity(v["phi"], v["h"]), BOX, py=py)
    eq_spec(ctx, "C16.gravity.compiled", [phi, h],
            lambda v: _compiled_gravity(py, deg(v["phi"]), v["h"]),
            lambda v: wgs84.normal_gravity(v["phi"], v["h"]), BOX, py=py)
    eq_spec(ctx, "C16.gravity.stacked", [phi, h, phi2, h2],
            lambda v: E.gravity(_arr(v, "phi", "phi2", deg), _arr(v, "h", "h2")),
            lambda v: [wgs84.normal_gravity(v["phi"], v["h"]), wgs84.normal_gravity(v["phi2"], v["h2"])], BOX, py=py)
    eq_spec(ctx, "C16.gravity_n.scalar", [phi, h], lambda v: E.gravity_n(deg(v["phi"]), v["h"]),
            lambda v: [0, 0, wgs84.normal_gravity(v["phi"], v["h"])], BOX, py=py)
    eq_spec(ctx, "C16.gravity_n.stacked", [phi, h, phi2, h2],
            lambda v: E.gravity_n(_arr(v, "phi", "phi2", deg), _arr(v, "h", "h2")),
            lambda v: [0, 0, wgs84.normal_gravity(v["phi"], v["h"]), 0, 0, wgs84.normal_gravity(v["phi2"], v["h2"])],
            BOX, py=py)
    g = wgs84.normal_gravity(phi, h)
    _lemma(ctx, "C16.gravity.equator_is_GE", g.subs({phi: 0, h: 0}) - wgs84.GE)
    for sgn, nm in ((1, "north"), (-1, "south")):
        _lemma(ctx, "C16.gravity.pole_is_GP.%s" % nm,
               (g.subs({phi: sgn * sp.pi / 2, h: 0}) - wgs84.GP).subs(wgs84.F, wgs84.F_DEFINITION))
    omega_e = sp.Matrix([0, 0, wgs84.RATE])
    eq_spec(ctx, "C16.gravitation_ecef.scalar", [phi, lam, h],
            lambda v: E.gravitation_ecef([deg(v["phi"]), deg(v["lam"]), v["h"]]),
            lambda v: frames.C_en(v["phi"], v["lam"]) * sp.Matrix([0, 0, wgs84.normal_gravity(v["phi"], v["h"])])
            + omega_e.cross(omega_e.cross(wgs84.r_e(v["phi"], v["lam"], v["h"]))),
            BOX, cos_nonneg=COSNN, py=py, cell_names=["x", "y", "z"])
    eq_spec(ctx, "C16.gravitation_ecef.stacked", [phi, lam, h, phi2, lam2, h2],
            lambda v: E.gravitation_ecef([[deg(v["phi"]), deg(v["lam"]), v["h"]],
                                          [deg(v["phi2"]), deg(v["lam2"]), v["h2"]]]),
            lambda v: list(_gravitation_spec(v["phi"], v["lam"], v["h"])) + list(_gravitation_spec(v["phi2"], v["lam2"], v["h2"])),
            BOX, cos_nonneg=COSNN, py=py)
    eq_spec(ctx, "C16.rate_n.scalar", [phi], lambda v: E.rate_n(deg(v["phi"])),
            lambda v: wgs84.earth_rate_n(v["phi"]), BOX, py=py)
    eq_spec(ctx, "C16.rate_n.stacked", [phi, phi2], lambda v: E.rate_n(_arr(v, "phi", "phi2", deg)),
            lambda v: list(wgs84.earth_rate_n(v["phi"])) + list(wgs84.earth_rate_n(v["phi2"])), BOX, py=py)
    _lemma_matrix(ctx, "C16.rate_n.is_projected_earth_axis",
                  wgs84.earth_rate_n(phi) - frames.C_en(phi, lam).T * omega_e)

    # ---- parity in latitude (on the code's own expressions) -------------------------------
    ctx.guard(_parity, ctx, py)

    # ---- ECEF -> LLA ------------------------------------------------------------------------
    ctx.guard(_ecef_to_lla, ctx, py)
    ctx.guard(_olson_standin, ctx, py)
    ctx.guard(_forward_float_standin, ctx, py)

    # frame of the modules under contract (no state kept between calls, arguments left alone): same analysis as C19
    from props import C19 as _C19
    ctx.guard(_C19.frame_obligations, ctx, py, "C16", {'earth', 'transform', 'util'})


# ---------------------------------------------------------------------------------------------
def _arr(v, a, b, f=lambda x: x):
    sym = isinstance(v[a], RSym)
    return np.array([f(v[a]), f(v[b])], dtype=object if sym else float)


def _compiled_gravity(py, lat, alt):
    g = py._numba_integrate.gravity        # py_func inside rdomain, compiled dispatcher natively
    return g(lat, alt)


def _perturb_spec(p, l, hh, n, e, dd):
    M_h, N_h, rp = wgs84.principal_radii(p, hh)
    return [(p + n / M_h) * 180 / sp.pi, (l + e / rp) * 180 / sp.pi, hh - dd]


def _difference_spec(p1, l1, h1, p2, l2, h2_):
    M_h, N_h, rp = wgs84.principal_radii((p1 + p2) / 2, (h1 + h2_) / 2)
    # note: the code takes cos of the mean latitude through sqrt(1 - sin^2): same expression here
    s = sp.sin((p1 + p2) / 2)
    rp = N_h * sp.sqrt(1 - s ** 2)
    return [(p1 - p2) * M_h, (l1 - l2) * rp, -(h1 - h2_)]


def _curvature_spec(p, hh):
    M_h, N_h, _ = wgs84.principal_radii(p, hh)
    return sp.Matrix([[0, 1 / N_h, 0], [-1 / M_h, 0, 0], [0, -sp.tan(p) / N_h, 0]])


def _gravitation_spec(p, l, hh):
    omega_e = sp.Matrix([0, 0, wgs84.RATE])
    return (frames.C_en(p, l) * sp.Matrix([0, 0, wgs84.normal_gravity(p, hh)])
            + omega_e.cross(omega_e.cross(wgs84.r_e(p, l, hh))))


def _lemma(ctx, name, expr, cos_nonneg=(), kind="lemma"):
    v = field.check_zero(expr, domain=_lemma_domain(), seed=ctx.seed, cos_nonneg=cos_nonneg)
    ctx.from_verdict(name, kind, v, None)


def _lemma_matrix(ctx, name, M, cos_nonneg=(), kind="lemma"):
    for i, e in enumerate(list(M)):
        v = field.check_zero(e, domain=_lemma_domain(), seed=ctx.seed + i, cos_nonneg=cos_nonneg)
        ctx.from_verdict("%s[%d]" % (name, i), kind, v, None)


def _lemma_domain():
    d = dict(BOX)
    d[wgs84.E2] = (0.001, 0.5)
    return d


def _parity(ctx, py):
    E, T = py.earth, py.transform
    t0 = time.time()
    with rdomain(py):
        pos = dict(
            gravity=flat(E.gravity(deg(RSym(phi)), RSym(h))),
            radii=flat(E.principal_radii(deg(RSym(phi)), RSym(h))),
            rate=flat(E.rate_n(deg(RSym(phi)))),
            ecef=flat(T.lla_to_ecef([deg(RSym(phi)), deg(RSym(lam)), RSym(h)])),
            grav_ecef=flat(E.gravitation_ecef([deg(RSym(phi)), deg(RSym(lam)), RSym(h)])),
            compiled=flat(py._numba_integrate.gravity(deg(RSym(phi)), RSym(h))),
        )
        neg = dict(
            gravity=flat(E.gravity(deg(RSym(-phi)), RSym(h))),
            radii=flat(E.principal_radii(deg(RSym(-phi)), RSym(h))),
            rate=flat(E.rate_n(deg(RSym(-phi)))),
            ecef=flat(T.lla_to_ecef([deg(RSym(-phi)), deg(RSym(lam)), RSym(h)])),
            grav_ecef=flat(E.gravitation_ecef([deg(RSym(-phi)), deg(RSym(lam)), RSym(h)])),
            compiled=flat(py._numba_integrate.gravity(deg(RSym(-phi)), RSym(h))),
        )
    signs = dict(gravity=[1], compiled=[1], radii=[1, 1, 1], rate=[1, 1, -1], ecef=[1, 1, -1],
                 grav_ecef=[1, 1, -1])
    dom = full_domain(py, BOX)
    for k, sg in signs.items():
        for i, s in enumerate(sg):
            v = field.check_zero(neg[k][i] - s * pos[k][i], domain=dom, seed=ctx.seed + i, cos_nonneg=COSNN)
            ctx.from_verdict("C16.parity.%s[%d].%s" % (k, i, "even" if s == 1 else "odd"), "a", v,
                             (lambda p, _k=k, _i=i, _s=s: _parity_native(py, p, _k, _i, _s)))


def _parity_native(py, p, k, i, s):
    E, T = py.earth, py.transform
    la, lo, hh = math.degrees(p.get("phi", 0.3)), math.degrees(p.get("lam", 0.2)), p.get("h", 100.0)
    f = dict(gravity=lambda x: [E.gravity(x, hh)], radii=lambda x: E.principal_radii(x, hh),
             rate=lambda x: E.rate_n(x), ecef=lambda x: T.lla_to_ecef([x, lo, hh]),
             grav_ecef=lambda x: E.gravitation_ecef([x, lo, hh]),
             compiled=lambda x: [py._numba_integrate.gravity(x, hh)])[k]
    a, b = flat_float(f(la))[i], flat_float(f(-la))[i]
    return dict(reproduced=abs(b - s * a) > 1e-9 * (1 + abs(a)), inputs=dict(lat=la, lon=lo, alt=hh),
                at_plus_lat=a, at_minus_lat=b, expected_sign=s)


def _ecef_to_lla(ctx, py):
    """Path enumeration of the real ecef_to_lla on symbolic (x, y, z): both mask
    branches (c2 > 0.3) and both hemispheres (z < 0) are forked."""
    T = py.transform
    x, y, z = sp.symbols("x y z", real=True)
    zp = sp.Symbol("zp", positive=True)
    t0 = time.time()

    def go(zexpr):
        def body():
            with rdomain(py):
                out = T.ecef_to_lla(np.array([RSym(x), RSym(y), RSym(zexpr)], dtype=object))
            return flat(out)
        return explore(body)

    north = go(zp)            # z > 0
    south = go(-zp)           # z < 0
    ctx.paths += len(north) + len(south)
    dom = full_domain(py, {x: (1e6, 7e6), y: (-7e6, 7e6), zp: (1e5, 7e6)})
    if len(north) != len(south) or not north:
        ctx.ob("C16.inverse.paths", "c", False, "path-enumeration", time.time() - t0,
               "unequal / empty path sets: %d vs %d" % (len(north), len(south)))
        return
    for (pn, rn), (ps, rs) in zip(sorted(north, key=lambda t: t[0].decisions),
                                  sorted(south, key=lambda t: t[0].decisions)):
        tag = "mask_%s" % "".join("T" if d else "F" for d in pn.decisions)
        v = field.check_zero(rn[1] - sp.atan2(y, x) * 180 / sp.pi, domain=dom, seed=ctx.seed)
        ctx.from_verdict("C16.inverse.lon.%s" % tag, "a", v, lambda p: _lon_native(py, p))
        v = field.check_zero(rs[0] + rn[0], domain=dom, seed=ctx.seed)
        ctx.from_verdict("C16.inverse.lat_odd_in_z.%s" % tag, "a", v, lambda p: _sym_native(py, p, 0))
        v = field.check_zero(rs[2] - rn[2], domain=dom, seed=ctx.seed)
        ctx.from_verdict("C16.inverse.alt_even_in_z.%s" % tag, "a", v, lambda p: _sym_native(py, p, 2))


def _lon_native(py, p):
    r = [p.get("x", 4e6), p.get("y", 1e6), p.get("zp", 3e6)]
    out = py.transform.ecef_to_lla(r)
    want = math.degrees(math.atan2(r[1], r[0]))
    return dict(reproduced=abs(out[1] - want) > 1e-9, inputs=r, real_code=float(out[1]), contract_demands=want)


def _sym_native(py, p, i):
    r = [p.get("x", 4e6), p.get("y", 1e6), p.get("zp", 3e6)]
    a = py.transform.ecef_to_lla(r)
    b = py.transform.ecef_to_lla([r[0], r[1], -r[2]])
    s = -1 if i == 0 else 1
    return dict(reproduced=abs(b[i] - s * a[i]) > 1e-9 * (1 + abs(a[i])), inputs=r,
                north=float(a[i]), south=float(b[i]))


def _forward_float_standin(ctx, py):
    """BOUNDED stand-in for the step from real to machine arithmetic in lla_to_ecef (proved equal to the closed form over the
    reals): float64 result against a 40-digit evaluation of the closed form, the neighbourhoods of the poles included (where
    cos(lat) obtained as sqrt(1 - sin^2) would lose all its digits); 4e-8 m (1 + |h|/a), 20 x the error of the pinned tree."""
    import mpmath as mp
    T, E = py.transform, py.earth
    t0 = time.time()
    rng = np.random.RandomState(ctx.seed + 16)
    lats = [90.0, -90.0, 0.0] + [s_ * (90 - 10.0 ** -k) for k in range(0, 13) for s_ in (1, -1)] \
        + list(rng.uniform(-90, 90, 100 if ctx.tier == "quick" else 2000))
    fails = []
    worst = 0.0
    n = 0
    for la in lats:
        for al in (-1e4, 0.0, 500.0, 1e5, 4e7):
            lo = float(rng.choice([-180.0, 180.0, 0.0, rng.uniform(-180, 180)], p=[0.05, 0.05, 0.05, 0.85]))
            got = np.asarray(T.lla_to_ecef([la, lo, al]), dtype=float)
            with mp.workdps(40):
                A_, E2_ = mp.mpf(float(E.A)), mp.mpf(float(E.E2))
                a_, o_, h_ = mp.radians(mp.mpf(float(la))), mp.radians(mp.mpf(lo)), mp.mpf(al)
                N_ = A_ / mp.sqrt(1 - E2_ * mp.sin(a_) ** 2)
                want = [float((N_ + h_) * mp.cos(a_) * mp.cos(o_)), float((N_ + h_) * mp.cos(a_) * mp.sin(o_)), float((N_ * (1 - E2_) + h_) * mp.sin(a_))]
            n += 1
            d = float(np.max(np.abs(got - np.array(want)))) / (1 + abs(al) / 6378137.0)
            worst = max(worst, d)
            if not d <= 4e-8:
                fails.append(dict(lla=[float(la), lo, al], real_code=[float(v) for v in got], closed_form_40_digits=want, error_m=d, tolerance_m=4e-8))
    ctx.standin("C16.lla_to_ecef.float64.rt", "%d points: poles, equator, 90 - 10^-k deg (k = 0..12, both hemispheres), seeded random latitudes x 5 altitudes "
                "(-10 km .. 40000 km), longitudes incl. +-180: |float64 - closed form| <= 4e-8 m (1 + |h|/a) (worst seen %.2g)" % (n, worst), n, fails[:5], time_s=time.time() - t0)


def _olson_standin(ctx, py):
    """BOUNDED stand-in: round trip ecef_to_lla(lla_to_ecef(p)) on a grid (accuracy of
    Olson's approximation is outside the reach of the identity back end)."""
    T = py.transform
    t0 = time.time()
    n_lat = 181 if ctx.tier == "quick" else 721
    lats = np.linspace(-90, 90, n_lat)
    alts = np.concatenate([[-1e4, -500, 0, 1, 500, 9000, 2e4, 1e5, 4e5, 2e6, 2e7, 4e7],
                           np.logspace(0, 7.6, 13)])
    lons = np.array([-180, -179.999999, -90, -1e-9, 0, 1e-9, 45, 90, 135, 179.999999, 180])
    rng = np.random.RandomState(ctx.seed)
    pts = [(la, lo, al) for la in lats for al in alts for lo in lons[rng.randint(0, len(lons), 2)]]
    extra = np.column_stack([rng.uniform(-90, 90, 2000), rng.uniform(-180, 180, 2000),
                             10 ** rng.uniform(0, 7.6, 2000) * rng.choice([-1e-3, 1], 2000)])
    P = np.vstack([np.array(pts), extra])
    out = T.ecef_to_lla(T.lla_to_ecef(P))
    dlat = np.abs(out[:, 0] - P[:, 0])
    dlon = np.abs((out[:, 1] - P[:, 1] + 180) % 360 - 180)
    dlon[np.abs(np.abs(P[:, 0]) - 90) < 1e-9] = 0          # longitude undefined at the poles
    dalt = np.abs(out[:, 2] - P[:, 2])
    bad = np.where((dlat > 1e-9) | (dlon > 1e-9) | (dalt > 1e-3 * (1 + np.abs(P[:, 2]) / 6378137.0)))[0]
    fails = [dict(lla=[float(v) for v in P[i]], got=[float(v) for v in out[i]]) for i in bad[:5]]
    # scalar form equals row of stacked form
    one = T.ecef_to_lla(T.lla_to_ecef(P[7]))
    if not np.array_equal(one, out[7]):
        fails.append(dict(form="scalar vs stacked", scalar=[float(v) for v in one], stacked=[float(v) for v in out[7]]))
    ctx.standin("C16.olson.roundtrip.rt",
                "grid %d lats x %d alts (-10 km..40000 km) x 2 of %d lons + 2000 seeded random points; tolerance 1e-9 deg, 1e-3*(1+|h|/A) m"
                % (n_lat, len(alts), len(lons)), len(P), fails, time_s=time.time() - t0)


def replay(obligation, cex):
    """./check replay: re-run a recorded counterexample on the current tree."""
    py = load()
    p = {k: float(sp.Rational(str(v))) for k, v in ((cex or {}).get("point") or {}).items()}
    if obligation.startswith("C16.parity."):
        k = obligation.split(".")[2].split("[")[0]
        i = int(obligation.split("[")[1].split("]")[0])
        s = 1 if obligation.endswith("even") else -1
        return _parity_native(py, p, k, i, s)
    if obligation.startswith("C16.inverse.lon"):
        return _lon_native(py, p)
    if obligation.startswith("C16.inverse.lat_odd"):
        return _sym_native(py, p, 0)
    if obligation.startswith("C16.inverse.alt_even"):
        return _sym_native(py, p, 2)
    # generic: re-run the whole property and report whether this obligation still fails
    from pvx.harness import Ctx
    ctx = Ctx("C16", "quick", 0, "props.C16")
    run(ctx)
    o = next((o for o in ctx.obs if o.name == obligation), None)
    return dict(reproduced=bool(o and o.status == "failed"), obligation=obligation,
                status=o.status if o else "absent", native_replay=o.native if o else None)
