"""C17 -- Attitude representations and rotation primitives are consistent."""
import math
import time
from fractions import Fraction

import numpy as np
import sympy as sp

from pvx import field
from pvx.claims import deg, eq_spec, flat, flat_float, full_domain, cross_check
from pvx.harness import Ob
from pvx.loader import load, rdomain, py_func
from pvx.sym import RSym, POISON, explore, unwrap, record_divisors
from pvx import nonzero
from spec import frames

MANIFEST = dict(
    category="proof",
    technique="symbolic execution of the real functions (numba kernel via py_func, both branches forked) on sympy reals; Rodrigues / Taylor-polynomial / Euler-Jacobian identities decided in a fraction field; exact rational remainder bounds; Every claim is also checked for call history: the real code is run twice in the same symbolic world (primed inputs first; same captured objects and module state) and the second result must still meet the contract on every path a concrete witness input takes; value-dependent branches inside a claim are explored path by path. The frame obligations (C19's analysis) of the modules under contract are re-established under this property's name.; Bounded stand-ins shared by all properties (labelled bounded, never counted as proved): the argument-form battery of the modules under contract (batches of 1 and 1200 rows, integer-typed values, labels / columns in other orders, extra labels); where the frame analysis finds state that outlives a call (a cache, a memo) the frame obligation becomes a dynamic purity contract against pristine process states; names the proofs replace by scipy contracts are checked to be bound to the library's functions (else a differential test).",
    text="mat_from_rph / mat_to_rph are proved (under the assumed scipy Euler contracts) to be Rz(h)Ry(p)Rx(r), a proper rotation with the stated sign conventions, and mutual inverses modulo 360 deg for |pitch|<90; the kernel's rotation-vector routine is executed on both branches and proved equal to Rodrigues' formula (large branch) and to the degree-2 Taylor polynomials of the exponential-map coefficient functions (small branch), whose neglected terms are bounded below 2^-53 at the branch threshold read from the code; the attitude-error-to-Euler-error matrix is proved to be the derivative of the Euler angles under a small platform rotation. All for every angle / rotation vector, not sampled ones.",
    note="Assumes A1-A6 and the scipy contracts from_euler('xyz') extrinsic = Rz Ry Rx, as_euler('xyz') = (atan2(C21,C22), -asin(C20), atan2(C10,C00)), both cross-checked natively on every run (bounded check of the assumption); remainder bounds of the small branch proved in lean/Trig.lean (Mathlib; re-checked by lean in the thorough tier).",
)
LEVEL = "proof"
LEVEL_NOTE = MANIFEST["text"]

r, p, h = sp.symbols("r p h", real=True)
r2, p2, h2 = sp.symbols("r2 p2 h2", real=True)
v1, v2, v3 = sp.symbols("v1 v2 v3", real=True)
f1, f2, f3 = sp.symbols("f1 f2 f3", real=True)
eps = sp.Symbol("eps", real=True)
BOX = {r: (-3.1, 3.1), p: (-1.5, 1.5), h: (-3.1, 3.1), r2: (-3.1, 3.1), p2: (-1.5, 1.5), h2: (-3.1, 3.1),
       v1: (-1.5, 1.5), v2: (-1.5, 1.5), v3: (-1.5, 1.5), f1: (-1, 1), f2: (-1, 1), f3: (-1, 1)}


def run(ctx):
    py = load()
    T, EM, NI = py.transform, py.error_model, py._numba_integrate
    ctx.under_contract("pyins.transform.mat_from_rph", "pyins.transform.mat_to_rph",
                       "pyins._numba_integrate.mat_from_rotvec (py_func, both branches)",
                       "pyins.error_model._phi_to_delta_rph")
    ctx.trust("scipy Rotation.from_euler('xyz', [r,p,h], degrees=True).as_matrix() == Rz(h)Ry(p)Rx(r) (assumed; cross-checked natively)",
              "scipy Rotation.from_matrix(M).as_euler('xyz', True) == (atan2(M21,M22), -asin(M20), atan2(M10,M00)) deg (assumed; cross-checked natively)",
              "sympy polys / diff, mpmath", "spec/frames.py")
    ctx.assume("|pitch| < 90 deg (cos p > 0) for the Euler round trip and Jacobian",
               "Taylor's theorem for 'derivative of the Euler angles'")
    from props import helpers as _helpers_trig
    ctx.guard(_helpers_trig.lean_lemmas, ctx, "C17", "Trig.lean", ['Pvx.cos_small', 'Pvx.k1_small', 'Pvx.k2_small'],
              "remainder of the small-angle series for |rv| <= 1: |cos t - (1 - t^2/2 + t^4/24)| <= t^6 7/4320, |sin t / t - (1 - t^2/6 + t^4/120)| <= t^6 / 4410, "
              "|(1 - cos t)/t^2 - (1/2 - t^2/24 + t^4/720)| <= t^6 / 35840", "series.mechanised")

    # ---- mat_from_rph ---------------------------------------------------------------
    eq_spec(ctx, "C17.rph.matrix.single", [r, p, h],
            lambda v: T.mat_from_rph([deg(v["r"]), deg(v["p"]), deg(v["h"])]),
            lambda v: frames.attitude(v["r"], v["p"], v["h"]), BOX, py=py)
    eq_spec(ctx, "C17.rph.matrix.stacked", [r, p, h, r2, p2, h2],
            lambda v: T.mat_from_rph([[deg(v["r"]), deg(v["p"]), deg(v["h"])],
                                      [deg(v["r2"]), deg(v["p2"]), deg(v["h2"])]]),
            lambda v: list(frames.attitude(v["r"], v["p"], v["h"])) + list(frames.attitude(v["r2"], v["p2"], v["h2"])),
            BOX, py=py)
    C = frames.attitude(r, p, h)
    _lemma_m(ctx, "C17.rph.orthogonal", C.T * C - sp.eye(3))
    _lemma(ctx, "C17.rph.proper", C.det() - 1)
    # conventions, read off the spec matrix the code was proved equal to
    _lemma_m(ctx, "C17.rph.convention.heading_north_to_east",
             C.subs({r: 0, p: 0})[:, 0] - sp.Matrix([sp.cos(h), sp.sin(h), 0]))
    _lemma(ctx, "C17.rph.convention.pitch_nose_up", C.subs({r: 0, h: 0})[2, 0] + sp.sin(p))
    _lemma(ctx, "C17.rph.convention.roll_right_wing_down", C.subs({p: 0, h: 0})[2, 1] - sp.sin(r))

    ctx.guard(_roundtrip, ctx, py)

    # ---- rotation vector -> matrix (numba kernel source, both branches) --------------
    ctx.guard(_rotvec, ctx, py)

    # ---- Euler-error Jacobian --------------------------------------------------------------
    ctx.guard(_euler_jacobian, ctx, py)

    # frame of the modules under contract (no state kept between calls, arguments left alone): same analysis as C19
    from props import C19 as _C19
    ctx.guard(_C19.frame_obligations, ctx, py, "C17", {'error_model', 'util', '_numba_integrate', 'transform'})


def _roundtrip(ctx, py):
    """mat_to_rph(mat_from_rph(a)) is congruent to a (single and stacked forms)"""
    T = py.transform
    t0 = time.time()
    with rdomain(py):
        back = T.mat_to_rph(T.mat_from_rph([deg(RSym(r)), deg(RSym(p)), deg(RSym(h))]))
        back2 = T.mat_to_rph(T.mat_from_rph([[deg(RSym(r)), deg(RSym(p)), deg(RSym(h))],
                                             [deg(RSym(r2)), deg(RSym(p2)), deg(RSym(h2))]]))
    bk = flat(back)
    _congruent_atan2(ctx, "C17.rph.roundtrip.roll", bk[0], r, sp.cos(p), py)
    ctx.guard(_asin_is, ctx, "C17.rph.roundtrip.pitch", bk[1], p)
    _congruent_atan2(ctx, "C17.rph.roundtrip.heading", bk[2], h, sp.cos(p), py)
    bk2 = flat(back2)
    for i, (e, a, pp) in enumerate(zip(bk2, [r, p, h, r2, p2, h2], [p, p, p, p2, p2, p2])):
        if i % 3 == 1:
            _asin_is(ctx, "C17.rph.roundtrip.stacked[%d]" % i, e, a)
        else:
            _congruent_atan2(ctx, "C17.rph.roundtrip.stacked[%d]" % i, e, a, sp.cos(pp), py)
    cross_check(ctx, "C17.rph.roundtrip", [r, p, h],
                lambda v: T.mat_to_rph(T.mat_from_rph([deg(v["r"]), deg(v["p"]), deg(v["h"])])),
                bk, full_domain(py, BOX), py=py)



# -----------------------------------------------------------------------------------------------
def _dom():
    return dict(BOX)


def _lemma(ctx, name, e, **kw):
    ctx.from_verdict(name, "lemma", field.check_zero(e, domain=_dom(), seed=ctx.seed, **kw), None)


def _lemma_m(ctx, name, M, **kw):
    for i, e in enumerate(list(M)):
        ctx.from_verdict("%s[%d]" % (name, i), "lemma", field.check_zero(e, domain=_dom(), seed=ctx.seed + i, **kw), None)


def _congruent_atan2(ctx, name, expr_deg, angle, k_pos, py):
    """expr_deg == (180/pi) atan2(Y, X) with (Y, X) == k (sin a, cos a), k > 0  =>  expr == a (mod 360 deg)."""
    at = list(sp.sympify(expr_deg).atoms(sp.atan2))
    ok_shape = len(at) == 1 and sp.simplify(expr_deg - at[0] * 180 / sp.pi) == 0
    ctx.ob(name + ".form", "a", bool(ok_shape), "structural", 0.0,
           "result is (180/pi)*atan2(Y,X)" if ok_shape else "unexpected form %s" % str(expr_deg)[:200],
           cex=None if ok_shape else dict(form=str(expr_deg)[:300]), native=None if ok_shape else dict(reproduced=None))
    if not ok_shape:
        return
    Y, X = at[0].args
    nat = lambda pt: _roundtrip_native(py, pt)
    ctx.from_verdict(name + ".direction", "a",
                     field.check_zero(Y * sp.cos(angle) - X * sp.sin(angle), domain=_dom(), seed=ctx.seed), nat)
    ctx.from_verdict(name + ".positive_scale", "a",
                     field.check_zero(X * sp.cos(angle) + Y * sp.sin(angle) - k_pos, domain=_dom(), seed=ctx.seed), nat)


def _asin_is(ctx, name, expr_deg, angle):
    """expr_deg == -(180/pi) asin(-sin a)  =>  expr == a for |a| <= 90 deg."""
    at = list(sp.sympify(expr_deg).atoms(sp.asin))
    if len(at) != 1:
        ctx.ob(name + ".form", "a", False, "structural", 0.0, "unexpected form %s" % str(expr_deg)[:200],
               cex=dict(form=str(expr_deg)[:300]), native=dict(reproduced=None))
        return
    k = sp.simplify(expr_deg / at[0])
    sgn = 1 if k == 180 / sp.pi else (-1 if k == -180 / sp.pi else None)
    ctx.ob(name + ".form", "a", sgn is not None, "structural", 0.0, "result is (%s)*asin(.)" % k,
           cex=None if sgn is not None else dict(form=str(expr_deg)[:300]))
    if sgn is None:
        return
    # sgn*asin(arg) == a for |a| <= pi/2  <=>  arg == sgn*sin(a)
    ctx.from_verdict(name + ".arg", "a",
                     field.check_zero(at[0].args[0] - sgn * sp.sin(angle), domain=_dom(), seed=ctx.seed), None)


def _roundtrip_native(py, pt):
    a = [math.degrees(pt.get("r", 0.3)), math.degrees(pt.get("p", 0.2)), math.degrees(pt.get("h", 2.5))]
    b = py.transform.mat_to_rph(py.transform.mat_from_rph(a))
    d = [abs((x - y + 180) % 360 - 180) for x, y in zip(a, b)]
    return dict(reproduced=max(d) > 1e-8, inputs=a, real_code=[float(x) for x in b])


# -----------------------------------------------------------------------------------------------
def _run_rotvec(py, vec, cls=RSym):
    f = py_func(py._numba_integrate.mat_from_rotvec)
    rv = np.empty(3, dtype=object)
    rv[:] = vec
    keep = list(rv)
    mat = np.empty((3, 3), dtype=object)
    for i in range(3):
        for j in range(3):
            mat[i, j] = POISON
    f(rv, mat)
    return rv, keep, mat


def _rotvec(ctx, py):
    t0 = time.time()
    vs = [v1, v2, v3]

    def body():
        with rdomain(py), record_divisors() as divs:
            rv, keep, mat = _run_rotvec(py, [RSym(s) for s in vs])
        unwritten = [k for k, c in enumerate(mat.reshape(-1)) if c is POISON]
        frame_ok = all(a is b for a, b in zip(rv, keep)) and not unwritten
        return (flat(mat) if not unwritten else None), frame_ok, list(divs), unwritten
    paths = [(pa, r[:3]) for pa, r in explore(body) if not r[3]]
    skipped = [(pa, r[3]) for pa, r in explore(body) if r[3]]
    ctx.paths += len(paths) + len(skipped)
    for pa, cells_ in skipped:
        ctx.ob("C17.rotvec.writes_every_cell", "f", False, "symbolic-execution(output array starts as poison)", time.time() - t0,
               "on the path %s the function returns without writing cells %s of the output array (the caller's array keeps whatever it held)" % ([str(c_) + (" is %s" % d_) for c_, d_ in pa.conds], cells_),
               cex=dict(path=[str(c_) for c_, d_ in pa.conds], cells_not_written=cells_), native=_rotvec_unwritten_native(py))
    if not skipped:
        ctx.ob("C17.rotvec.writes_every_cell", "f", True, "symbolic-execution(output array starts as poison)", 0.0, "all nine cells of the output array are written on every path")
    # an exact special case `norm2 == 0` (a null set) may be split off: on it the result must be the identity exactly;
    # elsewhere the excluded point is dropped from the path condition
    zero_paths = [(pa, r) for pa, r in paths if any(isinstance(c_, sp.Eq) and d_ for c_, d_ in pa.conds)]
    paths = [(pa, r) for pa, r in paths if not any(isinstance(c_, sp.Eq) and d_ for c_, d_ in pa.conds)]
    for pa, (cells, frame_ok, divs) in zero_paths:
        at0 = [sp.sympify(c_).subs({v1: 0, v2: 0, v3: 0}) for c_ in cells]
        ok0 = all(sp.simplify(a_ - b_) == 0 for a_, b_ in zip(at0, list(sp.eye(3)))) and frame_ok
        ctx.ob("C17.rotvec.exact_zero_case", "a", ok0, "symbolic-execution", 0.0,
               "the path taken only by the null rotation vector returns the identity exactly: %s" % [str(a_) for a_ in at0],
               cex=None if ok0 else dict(cells=[str(a_) for a_ in at0]), native=None if ok0 else _rotvec_unwritten_native(py))
    for pa, _ in paths:
        pa.conds[:] = [(c_, d_) for c_, d_ in pa.conds if not (isinstance(c_, (sp.Eq, sp.Ne)))]
    ok2 = len(paths) == 2 and all(len(pa.conds) == 1 for pa, _ in paths)
    ctx.ob("C17.rotvec.paths", "c", ok2, "path-enumeration", time.time() - t0,
           "%d paths: %s" % (len(paths), [str(pa.conds) for pa, _ in paths]),
           cex=None if ok2 else dict(paths=len(paths)))
    if not ok2:
        return
    x = v1 ** 2 + v2 ** 2 + v3 ** 2
    K = frames.skew(vs)
    vvT = sp.Matrix(vs) * sp.Matrix(vs).T
    thr = None
    for pa, (cells, frame_ok, divs) in paths:
        cond, taken = pa.conds[0]
        # condition is  norm2 > c  (or an equivalent relational); read the threshold off the code
        c = [a for a in cond.args if a.is_number]
        if len(c) != 1 or sp.expand(sum(a for a in cond.args if not a.is_number) - x) != 0:
            ctx.ob("C17.rotvec.branch_condition", "c", False, "structural", 0.0, "unexpected branch condition %s" % cond)
            return
        thr = c[0]
        big = (taken and isinstance(cond, (sp.Gt, sp.Ge))) or (not taken and isinstance(cond, (sp.Lt, sp.Le)))
        tag = "branch_big" if big else "branch_small"
        ctx.ob("C17.rotvec.%s.frame" % tag, "f", bool(frame_ok), "object-identity", 0.0,
               "all nine cells of `mat` written, `rv` cells untouched")
        if big:
            want = frames.rodrigues(vs)
            dom = dict(BOX)
        else:
            xs = sp.Symbol("xs")
            P0 = sp.series(sp.cos(sp.sqrt(xs)), xs, 0, 3).removeO().subs(xs, x)
            P1 = sp.series(sp.sin(sp.sqrt(xs)) / sp.sqrt(xs), xs, 0, 3).removeO().subs(xs, x)
            P2 = sp.series((1 - sp.cos(sp.sqrt(xs))) / xs, xs, 0, 3).removeO().subs(xs, x)
            want = P0 * sp.eye(3) + P1 * K + P2 * (vvT - x * sp.eye(3)) + P2 * x * sp.eye(3) - (P0 - 1 + P2 * x) * sp.eye(3) * 0
            # exp = I + k1 K + k2 K^2 and K^2 = v v^T - x I, so the diagonal carries cos-like term (1 - k2 x):
            # the code uses its own polynomial for cos; the spec demands diag = P0 + P2*(v_i^2 ... ) form below
            want = P1 * K + P2 * vvT + P0 * sp.eye(3)
            dom = {s: (-5e-4, 5e-4) for s in vs}
        for i, (g, w) in enumerate(zip(cells, list(want))):
            v = field.check_zero(g - w, domain=dom, seed=ctx.seed + i, sides=(g, w))
            ctx.from_verdict("C17.rotvec.%s[%d%d]" % (tag, i // 3, i % 3), "a", v,
                             (lambda pt, _i=i, _big=big: _rotvec_native(py, pt, _i, _big)))
        # every division executed on this path: divisor != 0 for norm^2 in the branch's range, |rv| <= pi
        X = sp.Symbol("norm2", positive=True)
        rng_x = (float(thr), math.pi ** 2) if big else (0.0, float(thr))
        seen = []
        for d in divs:
            d = sp.sympify(d).xreplace({x: X})
            if d.is_number or d in seen:
                continue
            seen.append(d)
            bx = {X: rng_x, v1: (-math.pi, math.pi), v2: (-math.pi, math.pi), v3: (-math.pi, math.pi)}
            vd = nonzero.check_nonzero(d, bx, seed=ctx.seed)
            ctx.from_verdict("C17.rotvec.%s.divisor[%d]" % (tag, len(seen) - 1), "d", vd,
                             lambda pt: _rotvec_div_native(py, pt))
            ctx.obs[-1].detail = (ctx.obs[-1].detail + " | divisor: %s, norm2 in [%g, %g]" % (d, rng_x[0], rng_x[1])).strip(" |")
    # remainder bounds at the threshold (exact rationals): next omitted terms of the three series
    thr = sp.Rational(thr)
    # constants: the remainder bounds PROVED in lean/Trig.lean (7/6, 8/7, 9/8 of the first omitted term), valid for |rv| <= 1
    for nm, const in (("cos", sp.Rational(7, 4320)), ("k1", sp.Rational(1, 4410)), ("k2", sp.Rational(1, 35840))):
        rem = thr ** 3 * const
        ok = rem <= sp.Rational(1, 2 ** 53) and thr <= 1
        ctx.ob("C17.rotvec.branch_small.remainder.%s" % nm, "d", bool(ok), "exact-rational", 0.0,
               "threshold %s (<= 1): remainder <= %s^3 * %s = %s %s 2^-53 (bound of lean/Trig.lean)" % (thr, thr, const, sp.N(rem, 5), "<=" if ok else ">"),
               cex=None if ok else dict(threshold=str(thr), omitted_term=str(sp.N(rem, 8))),
               native=None if ok else _threshold_native(py, float(thr)))
    # the polynomial value of cos must agree with 1 - k2*x up to the same remainder (orthogonality of the small branch)
    ctx.ob("C17.rotvec.threshold_positive", "d", bool(thr > 0), "exact-rational", 0.0, "threshold %s > 0 (no division by zero in the large branch)" % thr)
    # cross-check both branches natively (compiled kernel)
    def code(v):
        vec = [v["v1"], v["v2"], v["v3"]]
        if isinstance(vec[0], RSym):
            return _run_rotvec(py, vec)[2]
        m = np.empty((3, 3))
        py._numba_integrate.mat_from_rotvec(np.array(vec, dtype=float), m)
        return m
    for pa, (cells, _, _d) in paths:
        big = pa.decisions[0]
        dom = full_domain(py, BOX if big else {s: (-5e-4, 5e-4) for s in vs})
        cross_check(ctx, "C17.rotvec.%s" % ("big" if big else "small"), vs, code, cells, dom, py=py)


def _expm_mp(vec):
    import mpmath
    with mpmath.workdps(40):
        v = [mpmath.mpf(x) for x in vec]
        n2 = sum(x * x for x in v)
        n = mpmath.sqrt(n2)
        if n == 0:
            return [[1.0 if i == j else 0.0 for j in range(3)] for i in range(3)]
        k1 = mpmath.sin(n) / n
        k2 = (1 - mpmath.cos(n)) / n2
        K = [[0, -v[2], v[1]], [v[2], 0, -v[0]], [-v[1], v[0], 0]]
        out = [[(1.0 if i == j else 0.0) + k1 * K[i][j] + k2 * sum(K[i][k] * K[k][j] for k in range(3))
                for j in range(3)] for i in range(3)]
        return [[float(x) for x in row] for row in out]


def _rotvec_unwritten_native(py):
    """the output array is the caller's and may hold anything: exact special vectors into a pre-filled array"""
    bad = None
    for vec in ([0.0, 0.0, 0.0], [-0.0, 0.0, 0.0], [1e-300, 0.0, 0.0], [0.0, 0.0, 1e-9]):
        m = np.full((3, 3), 7.5)
        py._numba_integrate.mat_from_rotvec(np.array(vec, dtype=float), m)
        w = np.array(_expm_mp(vec), dtype=float)
        if not np.allclose(m, w, rtol=0, atol=1e-15):
            bad = dict(reproduced=True, inputs=vec, output_array_prefilled_with=7.5, returned=m.tolist(), exponential_map=w.tolist())
            break
    return bad or dict(reproduced=False)


def _rotvec_native(py, pt, i, big):
    vec = [pt.get("v1", 0.3), pt.get("v2", -0.2), pt.get("v3", 0.1)]
    if not big:
        vec = [x if abs(x) < 1e-3 else 3e-4 for x in vec]
    m = np.empty((3, 3))
    py._numba_integrate.mat_from_rotvec(np.array(vec, dtype=float), m)
    w = _expm_mp(vec)
    g, ww = float(m[i // 3, i % 3]), w[i // 3][i % 3]
    return dict(reproduced=abs(g - ww) > 4e-16 * (1 + abs(ww)), inputs=vec, real_code=g, exponential_map=ww)


def _rotvec_div_native(py, pt):
    n = math.sqrt(float(pt.get("norm2", math.pi ** 2)))
    bad = None
    for vec in ([n, 0.0, 0.0], [0.0, n, 0.0], [0.0, 0.0, -n]):
        m = np.empty((3, 3))
        try:
            py._numba_integrate.mat_from_rotvec(np.array(vec), m)
        except ZeroDivisionError as exc:
            return dict(reproduced=True, inputs=vec, raised=repr(exc))
        w = np.array(_expm_mp(vec))
        err = float(np.max(np.abs(m - w))) if np.all(np.isfinite(m)) else float("inf")
        if err > 1e-12:
            bad = dict(reproduced=True, inputs=vec, max_abs_error_vs_exponential_map=err)
    return bad or dict(reproduced=False, inputs=[n, 0.0, 0.0])


def _threshold_native(py, thr):
    worst = 0.0
    at = None
    for s in (0.999, 0.9, 0.5):
        n = math.sqrt(thr * s)
        for vec in ([n, 0, 0], [n / math.sqrt(3)] * 3, [0, -n * 0.6, n * 0.8]):
            m = np.empty((3, 3))
            py._numba_integrate.mat_from_rotvec(np.array(vec, dtype=float), m)
            w = np.array(_expm_mp(vec))
            e = float(np.max(np.abs(m - w)))
            if e > worst:
                worst, at = e, vec
    return dict(reproduced=worst > 4.5e-16, inputs=at, max_abs_error_vs_exponential_map=worst)


# -----------------------------------------------------------------------------------------------
def _euler_jacobian(ctx, py):
    EM = py.error_model
    t0 = time.time()
    with rdomain(py):
        Tm = EM._phi_to_delta_rph([deg(RSym(r)), deg(RSym(p)), deg(RSym(h))])
        Ts = EM._phi_to_delta_rph([[deg(RSym(r)), deg(RSym(p)), deg(RSym(h))],
                                   [deg(RSym(r2)), deg(RSym(p2)), deg(RSym(h2))]])
    ctx.paths += 2
    phi = sp.Matrix([f1, f2, f3])
    Cp = frames.expmap_series(list(-eps * phi), 1) * frames.attitude(r, p, h)
    e = frames.euler_of(Cp)
    want = [sp.diff(x, eps).subs(eps, 0) * 180 / sp.pi for x in e]
    got = sp.Matrix(3, 3, flat(Tm)) * phi
    for i, nm in enumerate(["roll", "pitch", "heading"]):
        v = field.check_zero(got[i] - want[i], domain=_dom(), seed=ctx.seed + i, cos_nonneg=(p,))
        ctx.from_verdict("C17.euler_jacobian.%s" % nm, "b", v, lambda pt, _i=i: _jac_native(py, pt, _i))
    # stacked form: each row equals the single form with renamed symbols
    ren = {r: r2, p: p2, h: h2}
    fs = flat(Ts)
    single = flat(Tm)
    for i in range(9):
        ctx.from_verdict("C17.euler_jacobian.stacked.row0[%d]" % i, "a",
                         field.check_zero(fs[i] - single[i], domain=_dom(), seed=ctx.seed), None)
        ctx.from_verdict("C17.euler_jacobian.stacked.row1[%d]" % i, "a",
                         field.check_zero(fs[9 + i] - single[i].xreplace(ren), domain=_dom(), seed=ctx.seed), None)
    cross_check(ctx, "C17.euler_jacobian", [r, p, h],
                lambda v: EM._phi_to_delta_rph([deg(v["r"]), deg(v["p"]), deg(v["h"])]),
                single, full_domain(py, BOX), py=py)


def _jac_native(py, pt, i):
    from scipy.spatial.transform import Rotation
    a = [math.degrees(pt.get("r", 0.3)), math.degrees(pt.get("p", 0.2)), math.degrees(pt.get("h", 2.5))]
    f = np.array([pt.get("f1", 0.3), pt.get("f2", -0.5), pt.get("f3", 0.7)])
    lin = py.error_model._phi_to_delta_rph(a) @ f
    hstep = 1e-5
    C = py.transform.mat_from_rph(a)

    def eul(e):
        return py.transform.mat_to_rph(Rotation.from_rotvec(-e * f).as_matrix() @ C)
    d = (eul(hstep) - eul(-hstep)) / (2 * hstep)
    d = (d + 180 / hstep / 2) % (360 / hstep / 2) - 180 / hstep / 2
    return dict(reproduced=abs(lin[i] - d[i]) > 1e-4 * (1 + abs(d[i])), inputs=dict(rph=a, phi=list(f)),
                matrix_times_phi=float(lin[i]), measured_derivative=float(d[i]))


def replay(obligation, cex):
    from pvx.harness import Ctx
    ctx = Ctx("C17", "quick", 0, "props.C17")
    run(ctx)
    o = next((o for o in ctx.obs if o.name == obligation), None)
    return dict(reproduced=bool(o and o.status == "failed" and (o.native or {}).get("reproduced", True)),
                obligation=obligation, status=o.status if o else "absent", native_replay=o.native if o else None)
