"""C10 -- Feedforward filter terminates and consumes every schedule exactly once."""
import time

import numpy as np
import z3

from pvx import loopcut
from pvx.harness import Ob
from pvx.npproxy import alias_update as _alias_update
from pvx.loader import load
from pvx.sym import Concretization
from pvx.zdomain import ZCtx, ZSym, _z, zmin, zmax, OPAQUE, Stop, ObligationFailed, explore_z
from props import sched
from props.sched import World

MANIFEST = dict(
    category="proof",
    technique="the real run_feedforward_filter with its while loop cut at the AST level (invariant, lexicographic variant, exit postcondition) executed on z3 terms with contract stubs for every callee and opaque numeric payloads; verification conditions discharged by z3 over all table lengths, all real time stamps and every positive time_step; counter-models minimised and replayed on the real filter; increments batches must be selected by label, one per propagating iteration; Measurement objects are frame-tracked; corrections at one stamp are threaded sequentially; Bounded stand-ins shared by all properties (labelled bounded, never counted as proved): the argument-form battery of the modules under contract (batches of 1 and 1200 rows, integer-typed values, labels / columns in other orders, extra labels); where the frame analysis finds state that outlives a call (a cache, a memo) the frame obligation becomes a dynamic purity contract against pristine process states; names the proofs replace by scipy contracts are checked to be bound to the library's functions (else a differential test).",
    text="For ALL equally indexed trajectory pairs (any length N>=2, any strictly increasing stamps), all measurement time sets of up to two sensors with arbitrary real stamps, EVERY positive time_step (below, equal to or above the sampling interval), with and without increments and measurements in {None, [], lists}: the unequal-index guard raises ValueError; the prologue's stub preconditions hold; the loop invariant (0<=index<=N-1, 0<=mi<=K, no stamp overdue: times[index] <= M[mi], result times strictly increasing input times starting with the first) holds initially and is preserved on every path of the real body; the lexicographic measure (N-1-index, K-mi) decreases on every path (termination for every positive time_step); each step advances by at most max(time_step, local sampling gap); each processed stamp is evaluated by every sensor exactly once at its own time with exactly one innovation row per sensor holding it; the increments batch is the label slice (time, next_time]; all divisors (interpolation weight, time_delta) are non-zero; at exit index = N-1 and every stamp before the end has been used.",
    note="A1, A6; contracts assumed for callees (compute_matrices None iff absent, numpy searchsorted/unique/sort/mask/append, pandas label slice); stamps strictly increasing; induction over iterations is a paper argument over the per-iteration obligations; 'finite' beyond division by zero only exercised by the run-time stand-in.",
)
LEVEL = "proof"
LEVEL_NOTE = MANIFEST["text"]


class Hooks:
    Stop = Stop
    Break = loopcut.Break
    with_inc = False

    def __init__(self, w, sensors, func=None):
        self.func = func
        self.w = w
        self.sensors = sensors
        self.reached = []
        self.pre = None

    def _inv_parts(self, idx, mi, tr_empty, tr_last):
        w = self.w
        return [("index_range", z3.And(idx >= 0, idx <= w.N - 1)),
                ("mi_range", z3.And(mi >= 0, mi <= w.K)),
                ("nothing_overdue", z3.Or(mi >= w.K, w.Tt(idx) <= w.Mt(mi))),
                ("times_result_increasing", z3.Or(tr_empty, tr_last < w.Tt(idx))),
                ("starts_at_first_time", z3.Implies(tr_empty, idx == 0))]

    def _state(self, L):
        return (_z(L[self.roles["index"]]).v, _z(L[self.roles["mi"]]).v)

    def head(self, which, L):
        w, c = self.w, self.w.c
        self.reached.append(which)
        if which == "init":
            self.roles = sched.discover_roles(self.func, L)
            r = self.roles
            okr = all(r[k] for k in ("bag", "mi", "index")) and len(r["lists"]) >= 1 and len(r["models"]) == 2
            c.prove("guard.roles_identified", z3.BoolVal(bool(okr)),
                    "loop variables identified by role: measurement array %s, its cursor %s, row cursor %s, result lists %s, logs %s" % (r["bag"], r["mi"], r["index"], r["lists"], r["dicts"]))
            if not okr:
                raise Concretization("cannot identify the loop variables by role: %s" % {k: r[k] for k in ("bag", "mi", "index", "lists")})
            bag = L[r["bag"]]
            ok_bag = isinstance(bag, sched.Bag) and bag.sentinel and bag.sorted and bag.unique
            c.prove("prologue.M.shape", z3.BoolVal(bool(ok_bag)), "measurement_times sorted, unique, clipped, +inf sentinel")
            if isinstance(bag, sched.Bag):
                lo_ok = bag.lo is not None and bag.lo[0] == "ge"
                hi_ok = bag.hi is not None and bag.hi[0] == "le"
                c.prove("prologue.M.clipped_to_span", z3.Or(z3.BoolVal(not bag.sensors),        # no sensor, no stamp: nothing to clip
                                                            z3.And(z3.BoolVal(lo_ok and hi_ok),
                                                                   bag.lo[1].v == w.Tt(z3.IntVal(0)) if lo_ok else z3.BoolVal(False),
                                                                   bag.hi[1].v == w.Tt(w.N - 1) if hi_ok else z3.BoolVal(False))),
                        "clip keeps times[0] <= tau <= times[-1]")
                if not bag.sensors:
                    c.assume(w.K == 0, "no sensors")
                if bag.lo is not None:
                    c.assume(z3.Implies(w.K > 0, w.Mt(z3.IntVal(0)) >= w.Tt(z3.IntVal(0))), "clip lower (first element)")
            idx, mi = self._state(L)
            for nm, f in self._inv_parts(idx, mi, z3.BoolVal(True), z3.RealVal(0)):
                c.prove("loop.init." + nm, f, "invariant holds on loop entry", concretize=w.concretize)
            for m in [L[k] for k in self.roles["models"]]:
                ok = isinstance(m, sched.ModelStub) and m.events[:1] == ["reset"]
                c.prove("prologue.models_reset_before_use", z3.BoolVal(bool(ok)), "reset_estimates first (%s)" % (getattr(m, "events", None),))
        elif which == "preserved":
            idx0, mi0, tr_empty, tr_last = self.pre
            idx1, mi1 = self._state(L)
            tl, oth = sched.times_list(L, self.roles)
            A = L[tl] if tl else []
            others = [len(L[k]) for k in self.roles["lists"] if k != tl]
            c.prove("loop.results.same_length", z3.BoolVal(all(o == len(A) for o in others) and len(A) <= 1),
                    "times/x/P results appended together, at most once per iteration (%d, %s)" % (len(A), others))
            if len(A) >= 1:
                a = _z(A[0])
                c.prove("loop.results.time_is_row_time", a.v == w.Tt(idx0), "the recorded time is times[index] of the iteration", concretize=w.concretize)
                tr_empty1, tr_last1 = z3.BoolVal(False), a.v
            else:
                tr_empty1, tr_last1 = tr_empty, tr_last
                c.prove("loop.results.progress_only_after_recording", idx1 == idx0, "index advances only in iterations that record a result row", concretize=w.concretize)
            for nm, f in self._inv_parts(idx1, mi1, tr_empty1, tr_last1):
                c.prove("loop.preserved." + nm, f, "invariant re-established after the body", concretize=w.concretize)
            c.prove("loop.variant", z3.Or(idx1 > idx0, z3.And(idx1 == idx0, mi1 > mi0)),
                    "lexicographic measure (N-1-index, K-mi) decreases: terminates for every positive time_step", concretize=w.concretize)
            gap = w.Tt(idx0 + 1) - w.Tt(idx0)
            c.prove("loop.step_bound", z3.Implies(idx1 > idx0, w.Tt(idx1) - w.Tt(idx0) <= z3.If(w.step >= gap, w.step, gap)),
                    "never steps further than max(time_step, local sampling gap)", concretize=w.concretize)
            per = [len(s.calls) for s in self.sensors]
            processed = any(per)
            c.prove("loop.measurement.each_sensor_once", z3.BoolVal(all(n_ == 1 for n_ in per) or not processed),
                    "when a stamp is processed every sensor is asked exactly once (%s)" % per)
            for s in self.sensors:
                for (t, p) in s.calls:
                    c.prove("loop.measurement.own_time", z3.And(z3.Not(t.inf), t.v == w.Mt(mi0)), "compute_matrices evaluated at the stamp M[mi]", concretize=w.concretize)
            c.prove("loop.measurement.index_advance", mi1 == mi0 + (1 if processed else 0), "cursor advances by one iff a stamp was used", concretize=w.concretize)
            if getattr(self, "kalman", None) is not None:
                sched.kalman_threading(c, self.kalman)
            for s in self.sensors:
                nm = s.__class__.__name__
                want = [t for x in self.sensors if x.__class__.__name__ == nm for (t, p) in x.calls if p]
                counts = [len(L[dn][nm]) for dn in self.roles["dicts"]]
                c.prove("loop.innovation.one_row_per_present_sample", z3.BoolVal(len(counts) == 2 and all(n_ == len(want) for n_ in counts)),
                        "innovation rows appended: %s, samples present: %d" % (counts, len(want)))
            # increments batch (when increments are supplied)
            for b in self.batches:
                lo, hi = b.a, b.b
                ok = b.kind == "loc" and isinstance(lo, sched.NextAfter)
                c.prove("loop.batch.label_slice", z3.And(z3.BoolVal(ok), lo.a.v == w.Tt(idx0) if ok else z3.BoolVal(False),
                                                          _z(hi).v == w.Tt(idx1) if ok else z3.BoolVal(False)),
                        "increments.loc[nextafter(time, .) : next_time] selects exactly the increments of (time, next_time] "
                        "(selection by LABEL: the increments table has its own sampling; got a %s selection)" % b.kind, concretize=w.concretize)
            if self.with_inc:
                c.prove("loop.batch.one_per_propagation", z3.Or(z3.And(idx1 > idx0, z3.BoolVal(len(self.batches) == 1)),
                                                                z3.And(idx1 == idx0, z3.BoolVal(len(self.batches) == 0))),
                        "increments supplied: one batch is selected in every iteration that propagates, none otherwise (%d)" % len(self.batches),
                        concretize=w.concretize)
        elif which == "exit":
            idx, mi = self._state(L)
            c.prove("exit.last_row_reached", idx == w.N - 1, "not (index + 1 < N) and Inv => index = N-1", concretize=w.concretize)
            k = c.new_int("k")
            c.prove("exit.every_stamp_before_end_used", z3.Implies(z3.And(k >= 0, k < w.K, w.Mt(k) < w.Tt(w.N - 1)), k < mi),
                    "every M[k] < end has k < mi", concretize=w.concretize)

    def havoc(self, L):
        w, c = self.w, self.w.c
        idx, mi = c.new_int("index"), c.new_int("mi")
        tr_empty, tr_last = z3.Bool("tr_empty!%d" % next(c.fresh)), c.new_real("tr_last")
        for nm, f in self._inv_parts(idx, mi, tr_empty, tr_last):
            c.assume(f, "Inv." + nm)
        r, _ = c.check()
        c.prove("guard.invariant_satisfiable", z3.BoolVal(r == z3.sat), "assumed invariant satisfiable (vacuity guard)")
        r = self.roles
        for k in r["lists"]:
            del L[k][:]
        for dn in r["dicts"]:
            for key in L[dn]:
                del L[dn][key][:]
        for s in self.sensors:
            s.calls = []
        self.batches = []
        self.pre = (idx, mi, tr_empty, tr_last)
        out = {r["index"]: ZSym(idx), r["mi"]: ZSym(mi)}
        for k in r["stored"]:
            if L.get(k) is OPAQUE and k not in out:
                out[k] = OPAQUE
        return out


def build(py):
    return loopcut.cut(py.filters.run_feedforward_filter, 0)


def scenario(py, code, mode, with_inc, equal_index=True):
    F = py.filters
    c = ZCtx()
    n_s = dict(none=0, empty=0, one=1, two=2)[mode]
    w = World(c, n_s)
    c.assume(w.N >= 2, "at least two trajectory rows")
    sensors = [sched.SensorA(w), sched.SensorB(w)][:n_s]
    hooks = Hooks(w, sensors, func=F.run_feedforward_filter)
    hooks.batches = []
    hooks.with_inc = with_inc
    cap = sched.BunchCapture()

    class MS(sched.ModelStub):
        scale_misal_modelled = False
    gm, am = MS(w, "gyro"), MS(w, "accel")

    class InertialNS:
        @staticmethod
        def EstimationModel(*a, **k):
            return MS(w, "default")

    class Inc(sched.IncTable):
        @property
        def loc(self_):
            outer = self_

            class L_:
                def __getitem__(self__, k):
                    b = sched.IncBatch(w, k.start, k.stop, kind="loc")
                    hooks.batches.append(b)
                    return b
            return L_()

        @property
        def iloc(self_):
            class I_:
                def __getitem__(self__, k):
                    # the increments table has its own sampling: a POSITIONAL selection by trajectory row numbers is only
                    # right when the two tables happen to be row-aligned, which the contract does not promise
                    b = sched.IncBatch(w, getattr(k, "start", k), getattr(k, "stop", k), kind="iloc")
                    hooks.batches.append(b)
                    return b
            return I_()
    ns = dict(F.__dict__)
    hooks.kalman = sched.KalmanStub()
    _alias_update(ns, F.__dict__, dict(__pvx=hooks, np=sched.ZNp(w), pd=OPAQUE, kalman=hooks.kalman, transform=OPAQUE, earth=OPAQUE, Rotation=OPAQUE,
              util=cap, inertial_sensor=InertialNS, InsErrorModel=lambda wa=True: OPAQUE,
              _initialize_covariance=lambda *a, **k: OPAQUE,
              _compute_error_propagation_matrices=lambda *a, **k: (OPAQUE, OPAQUE),
              _compute_feedforward_result=lambda *a, **k: (OPAQUE,) * 6,
              _interpolate_pva=lambda *a, **k: OPAQUE, min=zmin, max=zmax, len=sched.zlen))
    fn, _ = loopcut.instantiate(F.run_feedforward_filter, code, ns)
    traj_nom = sched.TrajIndexed(w)
    traj = sched.TrajIndexed(w if equal_index else World(c, 0))
    status = "ok"
    try:
        fn(traj_nom, traj, OPAQUE, OPAQUE, OPAQUE, OPAQUE, gyro_model=None if mode == "none" else gm, accel_model=None if mode == "none" else am,
           measurements=None if mode == "none" else list(sensors), increments=Inc(w) if with_inc else None, time_step=ZSym(w.step), with_altitude=True)
        status = "exit"
    except Stop:
        status = "iteration"
    except ObligationFailed:
        status = "obligation-failed"
    except ValueError as exc:
        status = "ValueError"
    if sensors:
        c.prove("frame.measurement_objects_not_written", z3.BoolVal(not any(s_.writes for s_ in sensors)),
                "no attribute of the caller's Measurement objects is stored to (written: %s)" % sorted({k for s_ in sensors for k in s_.writes}))
    if status == "exit":
        kw = cap.kw or {}
        c.prove("epilogue.result_fields", z3.BoolVal(sorted(kw) == sorted(["trajectory", "trajectory_sd", "gyro", "gyro_sd", "accel", "accel_sd", "innovations"])),
                "returned Bunch fields: %s" % sorted(kw))
    return dict(mode=mode, status=status, reached=hooks.reached, obligations=list(c.obligations))


def _scheduling(ctx, py):
    """the cut loop on z3 terms: every mode of the measurements argument, every path"""
    code, info = build(py)
    ctx.notes.append(dict(loop_cut=info))
    t0 = time.time()
    agg = {}
    statuses = []
    n_paths = 0
    for mode in ("none", "empty", "one", "two"):
        for with_inc in (False, True):
            try:
                paths = explore_z(lambda: scenario(py, code, mode, with_inc), max_paths=600)
            except Concretization as exc:
                ctx.add(Ob("C10.engine.%s" % mode, "guard", "error", "python", 0.0, "construct outside the executable subset: %r" % (exc,)))
                continue
            for pa, res in paths:
                n_paths += 1
                statuses.append(res["status"])
                for (name, st, detail, cex) in res["obligations"]:
                    cur = agg.get(name)
                    rank = dict(proved=0, undecided=1, failed=2)[st]
                    if cur is None or rank > cur[0]:
                        agg[name] = (rank, st, detail, cex, mode, 1 if cur is None else cur[5] + 1)
                    else:
                        agg[name] = cur[:5] + (cur[5] + 1,)
    ctx.paths += n_paths
    solver_s = time.time() - t0
    ctx.ob("C10.guard.paths", "guard", (n_paths > 0 and "iteration" in statuses and "exit" in statuses) if n_paths > 0 else None, "path-enumeration", 0.0,
           "%d paths; reached: %s" % (n_paths, sorted(set(statuses))))
    # unequal index -> ValueError
    try:
        paths = explore_z(lambda: scenario(py, code, "one", False, equal_index=False), max_paths=50)
        ok = all(res["status"] == "ValueError" for _, res in paths) and len(paths) >= 1
    except Exception as exc:
        ok = False
    ctx.ob("C10.prologue.index_equal_guard", "c", ok, "symbolic-execution", 0.0, "different time indexes -> ValueError before anything else")
    for name in sorted(agg):
        rank, st, detail, cex, mode, count = agg[name]
        native = _replay(py, name, cex) if st == "failed" else None
        ctx.add(Ob("C10." + name, "c", st, "z3", solver_s / max(1, len(agg)), "%s [%d path instances; measurements=%s]" % (detail, count, mode), cex=cex, native=native))


def run(ctx):
    py = load()
    ctx.under_contract("pyins.filters.run_feedforward_filter (prologue, while loop ordinal 0 cut, epilogue)",
                       "contract stubs: Measurement.compute_matrices (C06), kalman.correct, filters._compute_error_propagation_matrices, _compute_feedforward_result, _interpolate_pva (numeric payloads opaque)")
    ctx.trust("z3", "numpy documented behaviour of hstack/unique/sort/mask/append/searchsorted; pandas label slice .loc[a:b] inclusive (contract stubs)")
    ctx.assume("trajectory stamps strictly increasing, N >= 2", "induction over loop iterations (paper argument)", "'finite' beyond division by zero not modelled (A1)")
    ctx.guard(_scheduling, ctx, py)
    from props import helpers
    ctx.guard(helpers.interpolate_pva, ctx, py, "C10")
    ctx.guard(helpers.numpy_contracts_standin, ctx, py, "C10")
    ctx.guard(_standin, ctx, py)

    # "exactly once" rests on the measurement models' contract "None iff the time is absent from the table" (C06), re-established here
    from props import C06 as _C06
    ctx.guard(_C06._absent, ctx, py)
    from props import helpers as _helpers_l
    ctx.guard(_helpers_l.lean_induction, ctx, "C10", ['Pvx.loop_rule', 'Pvx.terminates', 'Pvx.processed_once', 'Pvx.processed_all'])
    # frame of the modules under contract (no state kept between calls, arguments left alone): same analysis as C19
    from props import C19 as _C19
    ctx.guard(_C19.frame_obligations, ctx, py, "C10", {'util', 'filters'})


def _replay(py, name, cex):
    if cex is None:
        return None
    if "measurements" in cex:
        r = sched.feedforward_native(py, [0.0, 0.5, 1.0, 1.5], [], 0.7, "none")
        r2 = sched.feedforward_native(py, [0.0, 0.5, 1.0, 1.5], [], 0.7, "empty")
        return dict(reproduced=not (r["ok"] and r2["ok"]), measurements_None=r, measurements_empty_list=r2)
    if not isinstance(cex.get("T"), list) or len(cex["T"]) < 2:
        return dict(reproduced=None, note="no concrete schedule in the counter-model")
    tried = 0
    c2 = dict(cex, t0=cex["T"][0], T=cex["T"][1:])
    for Mtimes in sched.neighbourhood(c2):
        tried += 1
        if tried > 60:
            break
        st = [list(Mtimes), list(Mtimes)[::2]]
        r = sched.feedforward_native(py, cex["T"], st, cex["time_step"])
        if not r["ok"]:
            return dict(reproduced=True, schedule=dict(trajectory_times=cex["T"], measurement_times=Mtimes, time_step=cex["time_step"]), observed=r["what"],
                        search="schedule %d in the neighbourhood of the counter-model" % tried)
    return dict(reproduced=False, tried=tried)


def _standin(ctx, py):
    from props.C09 import gen_schedules
    t0 = time.time()
    rng = np.random.RandomState(ctx.seed + 7)
    n = 30 if ctx.tier == "quick" else 300
    fails = []
    for s in gen_schedules(rng, n):
        T = [s["t0"]] + s["T"]
        step = s["time_step"] if rng.rand() < 0.7 else float(rng.choice([0.01, 0.05, 0.1]))
        r = sched.feedforward_native(py, T, s["sensors"], step, s["mode"], with_increments=bool(rng.rand() < 0.4), with_altitude=s["wa"])
        if not r["ok"]:
            fails.append(dict(schedule=dict(T=T, sensors=s["sensors"], time_step=step, mode=s["mode"]), observed=r["what"]))
    ctx.standin("C10.rt", "%d seeded schedules (as C09.rt; time_step from 0.01 s, i.e. below the sampling interval, to twice the span; with/without increments): observable statement of C10 on the real filter under a line budget" % n,
                n, fails, time_s=time.time() - t0)


def replay(obligation, cex):
    py = load()
    return _replay(py, obligation.replace("C10.", "", 1), cex) or dict(reproduced=False)
