"""C01 -- Strapdown integration converges to the true navigation solution."""
import ast
import inspect
import math
import textwrap
import time

import numpy as np
import pandas as pd
import sympy as sp

from pvx import field
from pvx.claims import deg, taylor_spec, eq_spec, flat, flat_float, full_domain
from pvx.harness import Ob
from pvx.loader import load, rdomain, py_func, source_of
from pvx.sym import PoisonRead
from pvx.sym import RSym, TSym, T, POISON, unwrap, explore, fill, Node
from pvx.npproxy import NpProxy
from spec import wgs84, frames, nav_ode

MANIFEST = dict(
    category="proof",
    technique="loop-body contract of the real numba kernel (py_func) executed symbolically: frame/purity in an uninterpreted trace domain, index bounds by executing one generic iteration of the real loop on symbolic integers (z3, all lengths), zeroth/first-order Taylor coefficients of the step map against the exact navigation ODE in a fraction field, divisors by interval arithmetic; the convergence theorem's stability half mechanised in Lean (lean/Convergence.lean), consistency => truncation error by Taylor assumed; Richardson run-time stand-in; Every claim is also checked for call history: the real code is run twice in the same symbolic world (primed inputs first; same captured objects and module state) and the second result must still meet the contract on every path a concrete witness input takes; value-dependent branches inside a claim are explored path by path. The frame obligations (C19's analysis) of the modules under contract are re-established under this property's name.; Bounded stand-ins shared by all properties (labelled bounded, never counted as proved): the argument-form battery of the modules under contract (batches of 1 and 1200 rows, integer-typed values, labels / columns in other orders, extra labels); where the frame analysis finds state that outlives a call (a cache, a memo) the frame obligation becomes a dynamic purity contract against pristine process states; names the proofs replace by scipy contracts are checked to be bound to the library's functions (else a differential test).",
    text="The integrator is a one-step method x_{k+1} = F(x_k, dt, theta, dv). For ALL states, rates, forces and ellipsoid constants it is proved that the kernel's loop body (the very source numba compiles) is a pure function of row j and increment i (frame, scratch written before read, indices in range for every buffer length), that F is the identity at dt=0, that dF/dt at 0 equals the right-hand side of the exact navigation equations on the rotating WGS-84 ellipsoid with normal gravity (consistency, 15 state cells, both altitude modes), and that every divisor is non-zero on |lat|<=85 deg, alt>=-500 m (F is C^1, hence locally Lipschitz). A one-step method that is consistent and Lipschitz is convergent, i.e. has no error component that survives dt->0: the stability half (global error <= local truncation error x (exp(L T) - 1) / L, discrete Gronwall) is proved in lean/Convergence.lean (re-checked by lean in the thorough tier); Taylor's theorem for the local truncation error and 'C^1 on a compact domain is Lipschitz' stay assumed. The glue in Integrator (argument order, initial attitude, Euler extraction of the output rows) is proved with the kernel replaced by its contract. The quantitative halving inequality is only exercised by a bounded Richardson stand-in on generated motions.",
    note="A1-A6; mat_from_rotvec and gravity are replaced by their contracts inside the kernel proof (their own obligations C17.rotvec.*, C16.gravity.compiled are re-checked in this run); theta = w dt + O(dt^2), dv = f dt + O(dt^2) is C15's postcondition; convergence theorem and the asymptotic error expansion behind the halving inequality are assumed; float rounding not modelled.",
)
LEVEL = "proof"
LEVEL_NOTE = MANIFEST["text"]

phi, lam, h = sp.symbols("phi lam h", real=True)
V = sp.symbols("V1:4", real=True)
Cm = sp.symbols("C00 C01 C02 C10 C11 C12 C20 C21 C22", real=True)
W = sp.symbols("w1:4", real=True)
Fs = sp.symbols("f1:4", real=True)
eps = sp.Symbol("eps", real=True)
BOX = {phi: (-1.4835, 1.4835), lam: (-3.1, 3.1), h: (-500.0, 20000.0)}
BOX.update({s: (-300.0, 300.0) for s in V})
BOX.update({s: (-1.0, 1.0) for s in Cm})
BOX.update({s: (-3.0, 3.0) for s in W})
BOX.update({s: (-20.0, 20.0) for s in Fs})
STATE_CELLS = ["lat", "lon", "alt", "VN", "VE", "VD"] + ["C%d%d" % (i, j) for i in range(3) for j in range(3)]


# ---------------------------------------------------------------------------------------------
# contract stubs of the kernel's callees
# ---------------------------------------------------------------------------------------------
def rotvec_stub(order):
    def mat_from_rotvec(rv, mat):
        M = frames.expmap_series([unwrap(x) for x in rv], order)
        for i in range(3):
            for j in range(3):
                mat[i, j] = RSym(M[i, j])
    return mat_from_rotvec


def gravity_stub(lat, alt):
    return RSym(wgs84.normal_gravity(unwrap(lat) * sp.pi / 180, unwrap(alt)))


def kernel_step(py, v, with_altitude, order=2):
    """One iteration of the real kernel from a symbolic (or float) state.  Returns the 15 new cells."""
    sym = isinstance(v["phi"], RSym)
    dt = v["eps"]
    if sym:
        mk = lambda shape: fill(np.empty(shape, dtype=object), POISON)
    else:
        mk = lambda shape: np.full(shape, np.nan)
    lla, vel, mat = mk((2, 3)), mk((2, 3)), mk((2, 3, 3))
    lla[0] = [deg(v["phi"]), deg(v["lam"]), v["h"]]
    vel[0] = [v[s.name] for s in V]
    mat[0] = np.array([v[s.name] for s in Cm], dtype=object if sym else float).reshape(3, 3)
    th = np.array([[v[s.name] * dt for s in W]], dtype=object if sym else float)
    dv = np.array([[v[s.name] * dt for s in Fs]], dtype=object if sym else float)
    dts = np.array([dt], dtype=object if sym else float)
    if sym:
        py_func(py._numba_integrate.integrate)(dts, lla, vel, mat, th, dv, 0, with_altitude)
    else:
        py._numba_integrate.integrate(dts, lla, vel, mat, th, dv, 0, with_altitude)
    return list(lla[1]) + list(vel[1]) + list(mat[1].reshape(-1))


def ode_coeffs(v, with_altitude):
    """[[order0, order1]] per state cell from the exact navigation ODE."""
    Vv = [v[s.name] for s in V]
    C = sp.Matrix(3, 3, [v[s.name] for s in Cm])
    pd_, ld, hd, Vd, Cd = nav_ode.rhs(v["phi"], v["lam"], v["h"], Vv, C, [v[s.name] for s in W],
                                      [v[s.name] for s in Fs], with_altitude)
    k = 180 / sp.pi
    zero = [v["phi"] * k, v["lam"] * k, v["h"]] + Vv + list(C)
    one = [pd_ * k, ld * k, hd] + list(Vd) + list(Cd)
    if not with_altitude:
        zero[5] = 0            # the kernel writes VD' = 0.0 (class invariant of the 2D mode, C13)
    return [[a, b] for a, b in zip(zero, one)]


def run(ctx):
    py = load()
    ctx.under_contract("pyins._numba_integrate.integrate (py_func, loop ordinal 0)",
                       "pyins._numba_integrate.gravity (py_func)", "pyins._numba_integrate.mat_from_rotvec (py_func)",
                       "pyins.strapdown.Integrator.__init__", "pyins.strapdown.Integrator._integrate",
                       "pyins.strapdown.Integrator.integrate")
    ctx.trust("spec/nav_ode.py, spec/wgs84.py, spec/frames.py", "sympy polys, mpmath.iv, z3",
              "scipy Rotation Euler contracts (glue only; cross-checked in C17)")
    ctx.assume("Lax/Dahlquist, the parts not mechanised: first-order consistency gives a local truncation error h tau(h) with tau(h) -> 0 (Taylor's theorem); a C^1 step map is Lipschitz on the compact domain",
               "C15 postcondition theta = w*dt + O(dt^2), dv = f*dt + O(dt^2) (proved in C15)",
               "Taylor's theorem", "asymptotic error expansion (halving inequality) -- only exercised by the bounded stand-in")

    from props import helpers as _helpers_cv
    ctx.guard(_helpers_cv.lean_convergence, ctx, "C01")

    syms = [phi, lam, h] + list(V) + list(Cm) + list(W) + list(Fs)
    stubs = lambda order: dict(extra=[(py._numba_integrate, dict(mat_from_rotvec=rotvec_stub(order), gravity=gravity_stub))])

    # ---- consistency with the navigation ODE (order 0 and order 1), both altitude modes --------
    taylor_spec(ctx, "C01.kernel.consistency.3d", syms, eps,
                lambda v: kernel_step(py, v, True), lambda v: ode_coeffs(v, True), 1, BOX,
                cos_nonneg=(phi,), cell_names=STATE_CELLS, py=py, rdomain_kw=stubs(2), fd_step=1e-3, tol=1e-6,
                cc_eps=(-1e-2, 1e-2), cc_tol=1e-4)
    syms2 = [s for s in syms if s is not V[2]]
    taylor_spec(ctx, "C01.kernel.consistency.2d", syms2, eps,
                lambda v: kernel_step(py, dict(v, V3=(RSym(sp.Integer(0)) if isinstance(v["phi"], RSym) else 0.0)), False),
                lambda v: ode_coeffs(dict(v, V3=sp.Integer(0)), False), 1, BOX,
                cos_nonneg=(phi,), cell_names=STATE_CELLS, py=py, rdomain_kw=stubs(2), fd_step=1e-3, tol=1e-6,
                cc_eps=(-1e-2, 1e-2), cc_tol=1e-4)

    # ---- frame / purity of the loop body (trace domain) and index bounds (z3) ------------------
    ctx.guard(_frame, ctx, py)
    ctx.guard(_bounds, ctx, py)

    # ---- callee contracts the kernel proof relied on ---------------------------------------------
    p_, a_ = sp.symbols("phi alt", real=True)
    eq_spec(ctx, "C01.gravity.eq_spec", [p_, a_],
            lambda v: py._numba_integrate.gravity(deg(v["phi"]), v["alt"]),
            lambda v: wgs84.normal_gravity(v["phi"], v["alt"]), {p_: (-1.5, 1.5), a_: (-500, 2e4)}, py=py)
    from props import C17, C15
    C17._rotvec(ctx, py)
    # the dt the kernel is given is the stamp difference itself (C15's schema contract of compute_increments_from_imu, which
    # the convergence argument needs: an interval that is off by a fixed relative amount is an error that does not vanish)
    ctx.guard(C15._schema, ctx, py)
    # the public route to the kernel is Integrator.integrate: its buffer-capacity / row-slice obligations (the kernel's
    # precondition `offset + n_readings < len(buffers)` for every call history; C02) are re-established under this property
    from props import C02 as _C02
    ctx.guard(_C02._capacity_and_slices, ctx, py)
    # ... and so is the class invariant of the Integrator (each public method from reachable states, trace domain): "integrating
    # the increments yields the solution" is a statement about Integrator.integrate after ANY history of predict / set_pva /
    # integrate calls, not about the kernel alone
    ctx.guard(_C02._methods, ctx, py, True)
    ctx.guard(_C02._methods, ctx, py, False)

    # ---- glue: Integrator passes the right things to the kernel and returns its rows ----------
    ctx.guard(_glue, ctx, py)

    # ---- bounded stand-in: Richardson on the real integrator ---------------------------------------
    ctx.guard(_richardson, ctx, py)

    from props import helpers as _helpers
    ctx.guard(_helpers.integrator_argument_forms, ctx, py, "C01")
    # frame of the modules under contract (no state kept between calls, arguments left alone): same analysis as C19
    from props import C19 as _C19
    ctx.guard(_C19.frame_obligations, ctx, py, "C01", {'_numba_integrate', 'util', 'transform', 'earth', 'strapdown'})


# ---------------------------------------------------------------------------------------------
def _trace_run(py, N, offset, n, with_altitude):
    """Execute the real kernel in the trace domain; buffers are POISON except row `offset`."""
    lla = fill(np.empty((N, 3), dtype=object), POISON)
    vel = fill(np.empty((N, 3), dtype=object), POISON)
    mat = fill(np.empty((N, 3, 3), dtype=object), POISON)
    for k in range(3):
        lla[offset, k] = T("lla%d" % k)
        vel[offset, k] = T("V%d" % k)
        for m in range(3):
            mat[offset, k, m] = T("C%d%d" % (k, m))
    dts = np.array([T("dt%d" % i) for i in range(n)], dtype=object)
    th = np.array([[T("th%d_%d" % (i, k)) for k in range(3)] for i in range(n)], dtype=object)
    dv = np.array([[T("dv%d_%d" % (i, k)) for k in range(3)] for i in range(n)], dtype=object)
    keep = dict(lla=lla.copy(), vel=vel.copy(), mat=mat.copy(), dts=dts.copy(), th=th.copy(), dv=dv.copy())
    from pvx.loader import tdomain
    with tdomain(py):          # kernel and every njit helper it calls run as the Python source numba compiles
        py._numba_integrate.integrate(dts, lla, vel, mat, th, dv, offset, with_altitude)
    return lla, vel, mat, dts, th, dv, keep


def _frame(ctx, py):
    for wa in (True, False):
        tag = "3d" if wa else "2d"
        t0 = time.time()
        try:
            N, off, n = 6, 2, 2
            lla, vel, mat, dts, th, dv, keep = _trace_run(py, N, off, n, wa)
        except (PoisonRead, IndexError) as exc:
            ctx.ob("C01.kernel.frame.%s" % tag, "f", False, "trace-domain", time.time() - t0,
                   "kernel read an uninitialised / foreign cell: %r" % (exc,),
                   cex=dict(N=6, offset=2, n=2, with_altitude=wa), native=dict(reproduced=None))
            continue
        written = [r for r in range(N) if not all(c is POISON for c in lla[r]) or not all(c is POISON for c in vel[r])
                   or not all(c is POISON for c in mat[r].reshape(-1))]
        ok_rows = written == [off, off + 1, off + 2]
        full = all(c is not POISON for r in (off + 1, off + 2) for c in list(lla[r]) + list(vel[r]) + list(mat[r].reshape(-1)))
        same_in = (all(a is b for a, b in zip(lla[off], keep["lla"][off])) and all(a is b for a, b in zip(vel[off], keep["vel"][off]))
                   and all(a is b for a, b in zip(mat[off].reshape(-1), keep["mat"][off].reshape(-1)))
                   and all(a is b for a, b in zip(dts, keep["dts"]))
                   and all(a is b for a, b in zip(th.reshape(-1), keep["th"].reshape(-1)))
                   and all(a is b for a, b in zip(dv.reshape(-1), keep["dv"].reshape(-1))))
        ctx.ob("C01.kernel.frame.%s.writes_only_rows_j+1" % tag, "f", ok_rows and full, "trace-domain", time.time() - t0,
               "N=%d offset=%d n=%d: rows written %s; buffers start as poison, scratch arrays as poison" % (N, off, n, written),
               cex=None if ok_rows and full else dict(rows_written=written))
        ctx.ob("C01.kernel.frame.%s.inputs_untouched" % tag, "f", same_in, "trace-domain", 0.0,
               "row offset, dt, theta, dv cells are the same objects after the call")
        # purity: row offset+2 is F(row offset+1, increment 1): rerun one iteration from row offset+1's DAG
        f = py_func(py._numba_integrate.integrate)
        # free symbols of row off+1 must mention only row off and increment 0
        seen_nodes = set()

        def leaves(node, acc):
            if id(node) in seen_nodes:
                return acc
            seen_nodes.add(id(node))
            if node[0] == "leaf":
                acc.add(node[1])
            elif node[0] != "const":
                for ch in node[1:]:
                    if isinstance(ch, Node):
                        leaves(ch, acc)
            return acc
        allowed0 = ({"lla%d" % k for k in range(3)} | {"V%d" % k for k in range(3)} | {"C%d%d" % (k, m) for k in range(3) for m in range(3)}
                    | {"dt0"} | {"th0_%d" % k for k in range(3)} | {"dv0_%d" % k for k in range(3)}
                    | {"A", "E2", "RATE", "GE", "GP", "F", "DEG_TO_RAD", "RAD_TO_DEG"})
        acc = set()
        for c in list(lla[off + 1]) + list(vel[off + 1]) + list(mat[off + 1].reshape(-1)):
            leaves(_node(c), acc)
        ctx.ob("C01.kernel.frame.%s.row_depends_only_on_previous_row_and_own_increment" % tag, "f", acc <= allowed0,
               "trace-domain", time.time() - t0, "leaves of row offset+1: %d" % len(acc),
               cex=None if acc <= allowed0 else dict(extra=sorted(acc - allowed0)))
        # same step map in both iterations: substitute row off -> row off+1, increment 0 -> 1 in DAG of row off+1
        sub = {}
        for k in range(3):
            sub["lla%d" % k] = _node(lla[off + 1, k])
            sub["V%d" % k] = _node(vel[off + 1, k])
            sub["th0_%d" % k] = th[1, k].e
            sub["dv0_%d" % k] = dv[1, k].e
            for m in range(3):
                sub["C%d%d" % (k, m)] = _node(mat[off + 1, k, m])
        sub["dt0"] = dts[1].e
        memo = {}

        def subst(node):
            r = memo.get(id(node))
            if r is not None:
                return r
            if node[0] == "leaf":
                r = sub.get(node[1], node)
            elif node[0] == "const":
                r = node
            else:
                r = TSym._op(node[0], *[subst(ch) if isinstance(ch, Node) else ch for ch in node[1:]])
            memo[id(node)] = r
            return r
        same = True
        for a, b in zip(list(lla[off + 1]) + list(vel[off + 1]) + list(mat[off + 1].reshape(-1)),
                        list(lla[off + 2]) + list(vel[off + 2]) + list(mat[off + 2].reshape(-1))):
            if subst(_node(a)) is not _node(b):
                same = False
        ctx.ob("C01.kernel.frame.%s.same_step_map_every_iteration" % tag, "T", same, "trace-domain(DAG identity)",
               time.time() - t0, "row j+2 == F(row j+1, increment 1) as operation DAGs, F read off iteration 0")


def _node(c):
    from pvx.sym import t_const, Sym
    return c.e if isinstance(c, Sym) else t_const(c)


def _bounds(ctx, py):
    """One generic iteration of the REAL kernel loop on symbolic integers: `range(len(theta))` yields one symbolic i with
    0 <= i < n, the buffers are stand-ins with z3 lengths, every subscript executed is a VC 0 <= index < length, for all
    n >= 0, offset >= 0, offset + n < N (the kernel's precondition, established by C02.capacity.kernel_precondition)."""
    import z3
    from pvx.zdomain import explore_z, ZCtx, ZSym, Opaque, OPAQUE, Concretization
    from pvx.npproxy import patched
    from pvx.loader import dispatcher_patches
    ni = py._numba_integrate
    t0 = time.time()
    tally = dict(vcs=0, reads=0, writes=0, iterations=0, paths=0)
    bad = []
    touched = {}

    def zi(x):
        return x.v if isinstance(x, ZSym) else z3.IntVal(int(x))

    for wa in (True, False):
        def scen():
            c = ZCtx()
            n, N, offset = c.new_int("n"), c.new_int("N"), c.new_int("offset")
            c.assume(n >= 0)
            c.assume(offset >= 0)
            c.assume(offset + n < N, "kernel precondition")

            class Arr(Opaque):
                def __init__(self, name, length, tail):
                    object.__setattr__(self, "name", name)
                    object.__setattr__(self, "length", length)
                    object.__setattr__(self, "tail", tail)

                def _check(self, k, kind):
                    ks = k if isinstance(k, tuple) else (k,)
                    first = ks[0]
                    if isinstance(first, slice):
                        raise Concretization("kernel slices a buffer along its first axis")
                    tally["vcs"] += 1
                    tally[kind] += 1
                    touched.setdefault(self.name, set()).add(kind)
                    ok = c.prove("C01.kernel.bounds.indices_in_range", z3.And(zi(first) >= 0, zi(first) < self.length),
                                 "%s[%s] (%s), length %s" % (self.name, first, kind, self.length))
                    if ok is not True:
                        bad.append(c.obligations[-1])
                    for d, kk in zip(self.tail, ks[1:]):
                        if not isinstance(kk, slice) and not (0 <= int(kk) < d):
                            bad.append(("C01.kernel.bounds.indices_in_range", "failed", "%s: trailing index %s out of %d" % (self.name, kk, d), None))
                    return len(ks)

                def __getitem__(self, k):
                    used = self._check(k, "reads")
                    rest = self.tail[used - 1:]
                    if not rest:
                        return OPAQUE
                    out = np.empty(rest, dtype=object)
                    out.fill(OPAQUE)
                    return out

                def __setitem__(self, k, v):
                    self._check(k, "writes")

            arrays = dict(dt_array=Arr("dt_array", n, ()), lla=Arr("lla", N, (3,)), velocity_n=Arr("velocity_n", N, (3,)),
                          mat_nb=Arr("mat_nb", N, (3, 3)), theta=Arr("theta", n, (3,)), dv=Arr("dv", n, (3,)))

            def zlen(x):
                return ZSym(x.length) if isinstance(x, Arr) else len(x)

            def zrange(*a):
                if len(a) == 1 and isinstance(a[0], ZSym):
                    i = c.new_int("i")
                    c.assume(z3.And(i >= 0, i < a[0].v), "one generic iteration of range(n)")
                    tally["iterations"] += 1
                    return [ZSym(i)]
                if any(isinstance(x, ZSym) for x in a):
                    raise Concretization("range() with symbolic start/step")
                return range(*a)

            class NpNS:
                nan = float("nan")
                pi = math.pi

                def __getattr__(self, name):
                    if name in ("empty", "zeros", "ones", "empty_like", "zeros_like"):
                        def alloc(shape, *a_, **k_):
                            out = np.empty(shape if not hasattr(shape, "shape") else shape.shape, dtype=object)
                            out.fill(OPAQUE)
                            return out
                        return alloc
                    return lambda *a_, **k_: OPAQUE

            def soft(f):
                def g(*a_, **k_):
                    try:
                        return f(*a_, **k_)
                    except Concretization:
                        return OPAQUE
                return g
            helpers = {k: soft(v.py_func) for k, v in ni.__dict__.items() if hasattr(v, "py_func") and k != "integrate"}
            with patched((ni, dict(helpers, np=NpNS(), len=zlen, range=zrange))):
                py_func(ni.integrate)(arrays["dt_array"], arrays["lla"], arrays["velocity_n"], arrays["mat_nb"],
                                      arrays["theta"], arrays["dv"], ZSym(offset), wa)
            return None
        paths = explore_z(scen, max_paths=64)
        tally["paths"] += len(paths)
    ctx.paths += tally["paths"]
    writes_ok = all("writes" not in touched.get(a_, ()) for a_ in ("dt_array", "theta", "dv"))
    ok = not bad and tally["vcs"] > 0 and tally["iterations"] > 0
    ctx.ob("C01.kernel.bounds.indices_in_range", "c", ok, "z3(real loop body on symbolic indices)", time.time() - t0,
           "%d subscript VCs (%d reads, %d writes) on %d paths of one generic iteration, with and without altitude; requires 0<=offset, offset+len(theta)<len(buffers), len(dt_array)=len(dv)=len(theta)"
           % (tally["vcs"], tally["reads"], tally["writes"], tally["paths"]) if ok else "; ".join("%s: %s %s" % (b_[1], b_[2], b_[3]) for b_ in bad)[:800],
           cex=None if ok else dict(subscripts=[(b_[2], str(b_[3])) for b_ in bad[:4]], generic_iterations=tally["iterations"]))
    ctx.ob("C01.kernel.bounds.increments_not_written", "f", writes_ok, "z3(real loop body on symbolic indices)", 0.0,
           "dt_array, theta, dv are only read; arrays touched: %s" % {k: sorted(v) for k, v in touched.items()})


# ---------------------------------------------------------------------------------------------
def _glue(ctx, py):
    """Integrator.__init__/_integrate with the kernel replaced by a recording contract stub."""
    t0 = time.time()
    S = py.strapdown
    names = ["lat", "lon", "alt", "VN", "VE", "VD", "roll", "pitch", "heading"]
    r_, p_, h_ = sp.symbols("roll pitch heading", real=True)
    for wa in (True, False):
        tag = "3d" if wa else "2d"
        rec = {}

        def kernel(dt_array, lla, velocity_n, mat_nb, theta, dv, offset, with_altitude):
            rec.update(dt=list(dt_array), theta=np.array(theta, dtype=object), dv=np.array(dv, dtype=object), offset=offset, wa=with_altitude,
                       lla0=list(lla[offset]), v0=list(velocity_n[offset]), m0=mat_nb[offset].copy(),
                       same_buffers=(lla, velocity_n, mat_nb))
            for i in range(len(theta)):
                j = offset + i + 1
                for k in range(3):
                    lla[j, k] = RSym(sp.Symbol("K_lla_%d_%d" % (i, k), real=True))
                    velocity_n[j, k] = RSym(sp.Symbol("K_v_%d_%d" % (i, k), real=True))
                    for m in range(3):
                        mat_nb[j, k, m] = RSym(sp.Symbol("K_m_%d_%d%d" % (i, k, m), real=True))
        with rdomain(py, extra=[(S, dict(integrate=kernel))] + __import__('props.helpers', fromlist=['capacity_patches']).capacity_patches(py, 4)):
            vals = [RSym(sp.Symbol(n_, real=True)) for n_ in names]
            vals[6], vals[7], vals[8] = deg(RSym(r_)), deg(RSym(p_)), deg(RSym(h_))
            pva = pd.Series(vals, index=names, name=RSym(sp.Symbol("t0", real=True)), dtype=object)
            it = S.Integrator(pva, wa)
            from pvx.sym import increasing_stamps
            tt = [RSym(x) for x in increasing_stamps(2, start=1)]
            cols = ["dt", "theta_x", "theta_y", "theta_z", "dv_x", "dv_y", "dv_z"]
            inc = pd.DataFrame([[RSym(sp.Symbol("%s_%d" % (c, i), real=True)) for c in cols] for i in range(2)],
                               index=pd.Index(tt, dtype=object), columns=cols, dtype=object)
            out = it.integrate(inc)
        ok_args = (all(rec["dt"][i].e == sp.Symbol("dt_%d" % i, real=True) for i in range(2))
                   and all(rec["theta"][i, k].e == sp.Symbol("theta_%s_%d" % ("xyz"[k], i), real=True) for i in range(2) for k in range(3))
                   and all(rec["dv"][i, k].e == sp.Symbol("dv_%s_%d" % ("xyz"[k], i), real=True) for i in range(2) for k in range(3))
                   and rec["offset"] == 0 and rec["wa"] is wa)
        ctx.ob("C01.glue.%s.kernel_arguments" % tag, "a", ok_args, "symbolic-execution", time.time() - t0,
               "dt, theta_xyz, dv_xyz passed in the kernel's order, offset = rows so far - 1, altitude flag forwarded")
        exp_v0 = [sp.Symbol("VN", real=True), sp.Symbol("VE", real=True), sp.Symbol("VD", real=True) if wa else sp.Integer(0)]
        ok_init = ([x.e for x in rec["lla0"]] == [sp.Symbol(n_, real=True) for n_ in names[:3]]
                   and [sp.sympify(unwrap(x)) for x in rec["v0"]] == exp_v0)
        ctx.ob("C01.glue.%s.initial_row" % tag, "a", ok_init, "symbolic-execution", 0.0, "row 0 of the buffers = initial lla, velocity%s" % ("" if wa else " with VD := 0"))
        Cw = frames.attitude(r_, p_, h_)
        for i, (g, w) in enumerate(zip(flat(rec["m0"]), list(Cw))):
            ctx.from_verdict("C01.glue.%s.initial_attitude[%d]" % (tag, i), "a", field.check_zero(g - w, seed=ctx.seed), None)
        # returned rows: previous last row + rows (K_lla, K_v, euler(K_m))
        ok_shape = list(out.columns) == names and len(out) == 3 and out.index[0] is pva.name and out.index[1] is tt[0] and out.index[2] is tt[1]
        ctx.ob("C01.glue.%s.result_schema" % tag, "c", ok_shape, "symbolic-execution", 0.0, "3 rows (last + 2 appended), trajectory columns, index t0,t1,t2")
        if ok_shape:
            good = True
            for i in range(2):
                row = out.iloc[i + 1]
                Km = sp.Matrix(3, 3, lambda a, b: sp.Symbol("K_m_%d_%d%d" % (i, a, b), real=True))
                e = frames.euler_of(Km)
                want = ([sp.Symbol("K_lla_%d_%d" % (i, k), real=True) for k in range(3)]
                        + [sp.Symbol("K_v_%d_%d" % (i, k), real=True) for k in range(3)] + [x * 180 / sp.pi for x in e])
                for g, w in zip(row.values, want):
                    if sp.simplify(unwrap(g) - w) != 0:
                        good = False
            ctx.ob("C01.glue.%s.rows_are_kernel_rows" % tag, "a", good, "symbolic-execution", time.time() - t0,
                   "appended rows = (lla, velocity, Euler angles of mat_nb) written by the kernel")


# ---------------------------------------------------------------------------------------------
def _richardson(ctx, py):
    """BOUNDED stand-in: real integrator vs the spec ODE solved by scipy at rtol 1e-11."""
    from scipy.integrate import solve_ivp
    t0 = time.time()
    rc = {wgs84.CONSTANT_SYMBOLS[k]: v for k, v in dict(A=py.earth.A, E2=py.earth.E2, RATE=py.earth.RATE, GE=py.earth.GE, GP=py.earth.GP, F=py.earth.F).items()}
    st = [phi, lam, h] + list(V) + list(Cm)
    pd_, ld, hd, Vd, Cd = nav_ode.rhs(phi, lam, h, V, sp.Matrix(3, 3, Cm), W, Fs)
    rhs = sp.lambdify(st + list(W) + list(Fs), [e.xreplace(rc) if hasattr(e, "xreplace") else e
                                                for e in [pd_, ld, hd] + list(Vd) + list(Cd)], "numpy")
    rng = np.random.RandomState(ctx.seed)
    n_motions = 2 if ctx.tier == "quick" else 12
    fails, evals = [], 0
    horizon = 20.0
    for m in range(n_motions):
        lat0 = rng.uniform(-85, 85); lon0 = rng.uniform(-180, 180); alt0 = rng.uniform(-500, 20000)
        v0 = rng.uniform(-1, 1, 3) * rng.choice([3.0, 80.0, 170.0]); v0[2] *= 0.05
        rph0 = [rng.uniform(-180, 180), rng.uniform(-80, 80), rng.uniform(-180, 180)]
        wa_, wf = rng.uniform(0.02, 0.6, (3, 2)), rng.uniform(0.3, 3.0, (3, 2))
        fa_, ff = rng.uniform(0.0, 2.0, (3, 2)), rng.uniform(0.3, 3.0, (3, 2))
        wp, fp = rng.uniform(0, 6.28, (3, 2)), rng.uniform(0, 6.28, (3, 2))
        C0 = py.transform.mat_from_rph(rph0)
        g0 = py.earth.gravity(lat0, alt0)
        fbias = C0.T @ np.array([0, 0, -g0])
        w_of = lambda t: np.sum(wa_ * np.sin(wf * t + wp), axis=1)
        f_of = lambda t: fbias + np.sum(fa_ * np.sin(ff * t + fp), axis=1)
        W_int = lambda t: np.sum(-wa_ / wf * np.cos(wf * t + wp), axis=1)
        F_int = lambda t: fbias * t + np.sum(-fa_ / ff * np.cos(ff * t + fp), axis=1)
        y0 = np.concatenate([[math.radians(lat0), math.radians(lon0), alt0], v0, C0.reshape(-1)])
        sol = solve_ivp(lambda t, y: np.array(rhs(*y, *w_of(t), *f_of(t)), dtype=float), (0, horizon), y0,
                        method="DOP853", rtol=1e-11, atol=1e-12)
        ref = sol.y[:, -1]
        pva = pd.Series(dict(lat=lat0, lon=lon0, alt=alt0, VN=v0[0], VE=v0[1], VD=v0[2],
                             roll=rph0[0], pitch=rph0[1], heading=rph0[2]), name=0.0)
        for stype in ("rate", "increment"):
            errs = []
            for dt in (0.04, 0.02, 0.01):
                t = np.arange(0, horizon + dt / 2, dt)
                if stype == "rate":
                    g = np.array([w_of(x) for x in t]); a = np.array([f_of(x) for x in t])
                else:
                    tb = np.concatenate([[-dt], t])
                    g = np.array([W_int(tb[i + 1]) - W_int(tb[i]) for i in range(len(t))])
                    a = np.array([F_int(tb[i + 1]) - F_int(tb[i]) for i in range(len(t))])
                imu = pd.DataFrame(np.hstack([g, a]), index=pd.Index(t, name="time"),
                                   columns=["gyro_x", "gyro_y", "gyro_z", "accel_x", "accel_y", "accel_z"])
                inc = py.strapdown.compute_increments_from_imu(imu, stype)
                traj = py.strapdown.Integrator(pva).integrate(inc)
                last = traj.iloc[-1]
                Cn = py.transform.mat_from_rph(last[["roll", "pitch", "heading"]].values)
                e_pos = np.array([(math.radians(last.lat) - ref[0]) * 6.4e6, (math.radians(last.lon) - ref[1]) * 6.4e6 * math.cos(ref[0]), last.alt - ref[2]])
                e_vel = last[["VN", "VE", "VD"]].values.astype(float) - ref[3:6]
                e_att = np.linalg.norm(Cn - ref[6:].reshape(3, 3))
                errs.append((np.linalg.norm(e_pos), np.linalg.norm(e_vel), e_att,
                             np.concatenate([[math.radians(last.lat) * 6.4e6, math.radians(last.lon) * 6.4e6 * math.cos(ref[0]), last.alt],
                                             last[["VN", "VE", "VD"]].values.astype(float), Cn.reshape(-1)])))
                evals += 1
            for k in (0, 1):
                ch = errs[k + 1][3] - errs[k][3]
                change = (np.linalg.norm(ch[:3]), np.linalg.norm(ch[3:6]), np.linalg.norm(ch[6:]))
                for q, nm, floor in ((0, "position", 1e-4), (1, "velocity", 1e-6), (2, "attitude", 1e-9)):
                    if errs[k + 1][q] > 4.0 * change[q] + floor:
                        fails.append(dict(motion=m, sensor_type=stype, dt=[0.04, 0.02, 0.01][k + 1], quantity=nm,
                                          distance_to_exact=float(errs[k + 1][q]), change_by_halving=float(change[q]),
                                          initial=dict(lat=lat0, lon=lon0, alt=alt0, v=list(map(float, v0)), rph=rph0)))
    ctx.standin("C01.richardson.rt", "%d seeded 3-axis motions x 2 sensor types x dt in {40,20,10} ms, horizon %g s; distance to the spec ODE (DOP853 rtol 1e-11) <= 4 x change by halving"
                % (n_motions, horizon), evals, fails, time_s=time.time() - t0)


def replay(obligation, cex):
    from pvx.harness import Ctx
    ctx = Ctx("C01", "quick", 0, "props.C01")
    run(ctx)
    o = next((o for o in ctx.obs if o.name == obligation), None)
    return dict(reproduced=bool(o and o.status == "failed" and (o.native or {}).get("reproduced", True)),
                obligation=obligation, status=o.status if o else "absent", native_replay=o.native if o else None)
