"""Contracts of helper functions that other proofs use through stubs or in place: pyins.util products,
filters._interpolate_pva, filters._compute_sd, filters._correct_increments, and a bounded check of the numpy
contracts (searchsorted / unique / mask / append / hstack) the scheduling stubs assume."""
import itertools
import time

import numpy as np
import pandas as pd
import sympy as sp

from pvx import field
from pvx.claims import flat
from pvx.deps import RotationStub
from pvx.loader import rdomain
from pvx.sym import RSym, unwrap


def _arr(tag, shape):
    a = np.empty(shape, dtype=object)
    for idx in itertools.product(*[range(s) for s in shape]):
        a[idx] = RSym(sp.Symbol("%s_%s" % (tag, "".join(map(str, idx))), real=True))
    return a


def _m(a):
    return sp.Matrix(a.shape[0], a.shape[1], [unwrap(x) for x in a.reshape(-1)])


def util_products(ctx, py, prefix):
    """mm_prod / mm_prod_symmetric / mv_prod / skew_matrix / compute_rms against their definitions, all stack/flag forms"""
    U = py.util
    t0 = time.time()
    bad = []
    n = 0
    with rdomain(py):
        A3, B3 = _arr("a", (2, 3, 3)), _arr("b", (2, 3, 3))
        A2, B2 = _arr("p", (3, 3)), _arr("q", (3, 3))
        R23 = _arr("r", (2, 3))
        for (a, b) in ((A3, B3), (A2, B3), (A3, B2), (A2, B2)):
            for at in (False, True):
                for bt in (False, True):
                    n += 1
                    out = U.mm_prod(a, b, at=at, bt=bt)
                    stack = a.ndim == 3 or b.ndim == 3
                    for k in range(2 if stack else 1):
                        Am = _m(a[k] if a.ndim == 3 else a)
                        Bm = _m(b[k] if b.ndim == 3 else b)
                        want = (Am.T if at else Am) * (Bm.T if bt else Bm)
                        got = _m(out[k] if stack else out)
                        if sp.expand(got - want) != sp.zeros(3, 3):
                            bad.append("mm_prod ndim %d,%d at=%s bt=%s" % (a.ndim, b.ndim, at, bt))
        for (a, b) in ((A3, B3), (A2, B3), (A2, B2)):
            n += 1
            out = U.mm_prod_symmetric(a, b)
            stack = a.ndim == 3 or b.ndim == 3
            for k in range(2 if stack else 1):
                Am, Bm = _m(a[k] if a.ndim == 3 else a), _m(b[k] if b.ndim == 3 else b)
                if sp.expand(_m(out[k] if stack else out) - Am * Bm * Am.T) != sp.zeros(3, 3):
                    bad.append("mm_prod_symmetric ndim %d,%d" % (a.ndim, b.ndim))
        v1 = _arr("v", (3,))
        for (a, b) in ((A3, R23), (A2, R23), (A2, v1), (A3, v1)):
            for at in (False, True):
                n += 1
                out = np.asarray(U.mv_prod(a, b, at=at), dtype=object)
                stack = a.ndim == 3 or b.ndim == 2
                for k in range(2 if stack else 1):
                    Am = _m(a[k] if a.ndim == 3 else a)
                    bv = sp.Matrix([unwrap(x) for x in (b[k] if b.ndim == 2 else b)])
                    want = (Am.T if at else Am) * bv
                    got = sp.Matrix([unwrap(x) for x in (out[k] if stack else out)])
                    if sp.expand(got - want) != sp.zeros(3, 1):
                        bad.append("mv_prod ndim %d,%d at=%s" % (a.ndim, b.ndim, at))
        u = sp.Matrix(sp.symbols("u1:4", real=True))
        for form in ("single", "stacked"):
            n += 1
            vv = v1 if form == "single" else R23
            S = U.skew_matrix(vv)
            for k in range(1 if form == "single" else 2):
                Sm = _m(S if form == "single" else S[k])
                vec = sp.Matrix([unwrap(x) for x in (vv if form == "single" else vv[k])])
                if sp.expand(Sm * u - vec.cross(u)) != sp.zeros(3, 1) or sp.expand(Sm + Sm.T) != sp.zeros(3, 3):
                    bad.append("skew_matrix %s" % form)
        n += 1
        X = _arr("x", (3, 2))
        rms = U.compute_rms(X)
        for j in range(2):
            want = sp.sqrt(sum(unwrap(X[i, j]) ** 2 for i in range(3)) / 3)
            if sp.simplify(unwrap(rms[j]) ** 2 - want ** 2) != 0:
                bad.append("compute_rms")
        for wrong in (np.zeros(3), np.zeros((2, 2, 2, 2))):
            try:
                U.mm_prod(wrong, A2)
                bad.append("mm_prod accepts ndim %d" % wrong.ndim)
            except ValueError:
                pass
    ctx.ob(prefix + ".util.products", "a", not bad, "symbolic-execution(polynomial identities)", time.time() - t0,
           "%d forms: mm_prod(a, b, at, bt) = op(a) op(b) per stack element for 2-D/3-D mixes, mm_prod_symmetric = a b a^T, mv_prod(a, b, at) = op(a) b, skew(v) u = v x u and skew^T = -skew, compute_rms = sqrt(mean(x^2)) along axis 0, ValueError for wrong ndim"
           % n if not bad else "; ".join(bad[:4]), cex=None if not bad else dict(forms=bad[:6]), native=None if not bad else dict(reproduced=None))


class MeanRotationStub(RotationStub):
    """adds Rotation.concatenate / mean (weighted chordal mean of two rotations) as an uninterpreted operation with the
    clauses used: weights (1, 0) -> the first rotation, (0, 1) -> the second, equal rotations -> that rotation"""

    @classmethod
    def concatenate(cls, rots):
        mats = []
        for r in rots:
            mats += r._m
        return cls(mats, False)

    def mean(self, weights=None):
        A, B = self._m
        w = [sp.sympify(unwrap(x)) for x in weights]
        if w[1] == 0 or A == B:
            return MeanRotationStub([A], True)
        if w[0] == 0:
            return MeanRotationStub([B], True)
        f = sp.Function("rotmean")
        return MeanRotationStub([sp.Matrix(3, 3, lambda i, j: f(sp.Integer(3 * i + j), w[0], w[1], *list(A), *list(B)))], True)


def interpolate_pva(ctx, py, prefix):
    F = py.filters
    t0 = time.time()
    names = ["lat", "lon", "alt", "VN", "VE", "VD", "roll", "pitch", "heading"]
    al = sp.Symbol("alpha", real=True)
    bad = []
    with rdomain(py, rotation=MeanRotationStub):
        a = pd.Series([RSym(sp.Symbol("a_" + n_, real=True)) for n_ in names], index=names, dtype=object)
        b = pd.Series([RSym(sp.Symbol("b_" + n_, real=True)) for n_ in names], index=names, dtype=object)
        keep = list(a.values) + list(b.values)
        out = F._interpolate_pva(a, b, RSym(al))
        out0 = F._interpolate_pva(a, b, RSym(sp.Integer(0)))
        out_same = F._interpolate_pva(a, a.copy(), RSym(al))
        # permuted labels: selection is by label
        perm = a[["heading", "VN", "alt", "lat", "roll", "VE", "lon", "pitch", "VD"]]
        out_p = F._interpolate_pva(perm, b, RSym(al))
        untouched = all(x is y for x, y in zip(list(a.values) + list(b.values), keep))
    if list(out.index) != names:
        bad.append("labels %s" % list(out.index))
    else:
        for n_ in names[:6]:
            want = (1 - al) * sp.Symbol("a_" + n_, real=True) + al * sp.Symbol("b_" + n_, real=True)
            if sp.expand(unwrap(out[n_]) - want) != 0 or sp.expand(unwrap(out_p[n_]) - want) != 0:
                bad.append("%s not linear" % n_)
        for n_ in names[6:]:
            e = sp.sympify(unwrap(out[n_]))
            if not e.has(sp.Function("rotmean")):
                bad.append("%s does not come from the weighted rotation mean" % n_)
            else:
                f_ = [x for x in e.atoms(sp.Function) if x.func.__name__ == "rotmean"][0]
                if sp.expand(f_.args[1] - (1 - al)) != 0 or sp.expand(f_.args[2] - al) != 0:
                    bad.append("%s: weights %s, %s" % (n_, f_.args[1], f_.args[2]))
        # alpha = 0 gives the first attitude, equal attitudes are reproduced (mod 360, |pitch| < 90)
        dom = {sp.Symbol("a_" + n_, real=True): (-80, 80) for n_ in names[6:]}
        for n_ in names[6:]:
            for tag, o in (("alpha=0", out0), ("equal operands", out_same)):
                d = sp.sympify(unwrap(o[n_])) - sp.Symbol("a_" + n_, real=True)
                d = d.xreplace({sp.Symbol("a_" + m_, real=True): sp.Symbol("A_" + m_, real=True) * 180 / sp.pi for m_ in names[6:]})
                v = field.check_zero(d, domain={sp.Symbol("A_" + m_, real=True): (-1.4, 1.4) for m_ in names[6:]},
                                     cos_nonneg=(sp.Symbol("A_pitch", real=True),))
                if v.status != "proved":
                    bad.append("%s at %s: %s" % (n_, tag, v.status))
    if not untouched:
        bad.append("arguments modified")
    ctx.ob(prefix + ".interpolate_pva", "a", not bad, "symbolic-execution+field-nf", time.time() - t0,
           "_interpolate_pva(a, b, alpha): lla and velocity (1-alpha) a + alpha b selected by label, attitude = Rotation mean of the two 'xyz'-degree rotations with weights (1-alpha, alpha), labels in trajectory order, alpha = 0 / equal operands reproduce the attitude (mod 360), arguments untouched"
           if not bad else "; ".join(bad[:4]), cex=None if not bad else dict(what=bad[:6]), native=None if not bad else dict(reproduced=None))


def compute_sd(ctx, py, prefix):
    F, IS, EMm = py.filters, py.inertial_sensor, py.error_model
    t0 = time.time()
    from props.C05 import make_pva, ST, NAMES
    bad = []
    for wa in (True, False):
        gm, am = IS.EstimationModel(bias_sd=[0.1, 0, 0.2]), IS.EstimationModel(bias_sd=0.3, scale_misal_sd=np.diag([0.01, 0, 0]))
        ng, na = gm.n_states, am.n_states
        with rdomain(py):
            em = EMm.InsErrorModel(wa)
            n = em.n_states
            N = n + ng + na
            rows = [make_pva({s.name: RSym(sp.Symbol(s.name + "_%d" % k, real=True)) for s in ST}) for k in range(2)]
            traj = pd.DataFrame([r.values for r in rows], index=[0.5, 2.5], columns=NAMES, dtype=object)
            P = np.empty((2, N, N), dtype=object)
            for k in range(2):
                for i in range(N):
                    for j in range(N):
                        P[k, i, j] = RSym(sp.Symbol("P%d_%d_%d" % (k, min(i, j), max(i, j)), real=True))
            tsd, gsd, asd = F._compute_sd(P, traj, em, gm, am)
            Ts = [em.transform_to_output(rows[k]) for k in range(2)]
        if list(tsd.index) != [0.5, 2.5] or list(gsd.index) != [0.5, 2.5] or list(asd.index) != [0.5, 2.5]:
            bad.append("index")
        if list(tsd.columns) != list(py.util.TRAJECTORY_ERROR_COLS) or list(gsd.columns) != gm.states or list(asd.columns) != am.states:
            bad.append("columns")
        for k in range(2):
            Tm = sp.Matrix(9, n, flat(Ts[k]))
            Pk = sp.Matrix(n, n, lambda i, j: sp.Symbol("P%d_%d_%d" % (k, min(i, j), max(i, j)), real=True))
            cov = Tm * Pk * Tm.T
            for i, c in enumerate(py.util.TRAJECTORY_ERROR_COLS):
                d = sp.sympify(unwrap(tsd.iloc[k][c])) ** 2 - cov[i, i]
                if d != 0 and field.check_zero(d).status != "proved":
                    bad.append("trajectory_sd[%s] row %d (%s)" % (c, k, "3d" if wa else "2d"))
            for i in range(ng):
                if sp.simplify(sp.sympify(unwrap(gsd.iloc[k, i])) ** 2 - sp.Symbol("P%d_%d_%d" % (k, n + i, n + i), real=True)) != 0:
                    bad.append("gyro_sd")
            for i in range(na):
                if sp.simplify(sp.sympify(unwrap(asd.iloc[k, i])) ** 2 - sp.Symbol("P%d_%d_%d" % (k, n + ng + i, n + ng + i), real=True)) != 0:
                    bad.append("accel_sd")
    ctx.ob(prefix + ".compute_sd", "a", not bad, "symbolic-execution+field-nf", time.time() - t0,
           "_compute_sd: tables indexed by the trajectory rows handed in, documented columns, trajectory_sd^2 = diag(T_oi P_ins T_oi^T) row by row, sensor sd^2 = diagonal of their blocks (both altitude modes)"
           if not bad else "; ".join(sorted(set(bad))[:4]), cex=None if not bad else dict(what=sorted(set(bad))[:6]), native=None if not bad else dict(reproduced=None))


def correct_increments_schema(ctx, py, prefix):
    """filters._correct_increments keeps index / columns / name for arbitrary estimates (the scheduling stub returns its argument)"""
    F, IS = py.filters, py.inertial_sensor
    t0 = time.time()
    cols = ["dt", "theta_x", "theta_y", "theta_z", "dv_x", "dv_y", "dv_z"]
    bad = []
    with rdomain(py):
        gm, am = IS.EstimationModel(bias_sd=1.0, scale_misal_sd=np.ones((3, 3))), IS.EstimationModel(bias_sd=1.0)
        gm.update_estimates(np.array([RSym(sp.Symbol("g%d" % i, real=True)) for i in range(12)], dtype=object) * RSym(sp.Rational(1, 100)))
        am.update_estimates(np.array([RSym(sp.Symbol("h%d" % i, real=True)) for i in range(3)], dtype=object))
        ts = [1.5, 1.75, 2.5]
        inc = pd.DataFrame([[RSym(sp.Symbol("%s_%d" % (c, k), real=True)) for c in cols] for k in range(3)], index=pd.Index(ts), columns=cols, dtype=object)
        keep = inc.copy()
        out = F._correct_increments(inc, gm, am)
        row = inc.iloc[1]
        out_r = F._correct_increments(row, gm, am)
        if list(out.index) != ts or list(out.columns) != cols or any(unwrap(out["dt"].iloc[k]) != unwrap(inc["dt"].iloc[k]) for k in range(3)):
            bad.append("DataFrame form: index / columns / dt column changed")
        if out_r.name != row.name or list(out_r.index) != cols or unwrap(out_r["dt"]) != unwrap(row["dt"]):
            bad.append("Series form: name / index / dt changed")
        if not all(x is y for x, y in zip(inc.values.reshape(-1), keep.values.reshape(-1))):
            bad.append("argument modified")
        # row form equals the row of the table form
        for c in cols:
            if sp.simplify(sp.sympify(unwrap(out_r[c])) - sp.sympify(unwrap(out[c].iloc[1]))) != 0:
                bad.append("row form differs from table form in %s" % c)
                break
    ctx.ob(prefix + ".correct_increments.schema", "a", not bad, "symbolic-execution", time.time() - t0,
           "_correct_increments(increments, gyro_model, accel_model) for arbitrary symbolic estimates: same index / columns / name, dt untouched, argument not modified, row form == row of the table form"
           if not bad else "; ".join(bad), cex=None if not bad else dict(what=bad), native=None if not bad else dict(reproduced=None))


def numpy_contracts_standin(ctx, py, prefix):
    """BOUNDED check of the numpy behaviour the scheduling stubs assume"""
    t0 = time.time()
    rng = np.random.RandomState(ctx.seed)
    bad = []
    n = 0
    for _ in range(300):
        n += 1
        a = np.sort(rng.choice(np.round(rng.uniform(-5, 5, 30), 1), rng.randint(1, 25)))
        a = np.unique(a)
        v = float(rng.choice(list(a) + list(rng.uniform(-6, 6, 3))))
        for side in ("left", "right"):
            k = int(np.searchsorted(a, v, side=side))
            ok = 0 <= k <= len(a) and (all(a[:k] <= v) and all(a[k:] > v) if side == "right" else all(a[:k] < v) and all(a[k:] >= v))
            if not ok:
                bad.append("searchsorted side=%s" % side)
        parts = [rng.choice(np.round(rng.uniform(-5, 5, 20), 1), rng.randint(0, 8)) for _ in range(rng.randint(0, 4))]
        h = np.hstack([np.empty(0)] + [np.asarray(p_) for p_ in parts])
        u = np.sort(np.unique(h))
        if h.dtype != float or any(np.diff(u) <= 0) or set(u) != set(np.concatenate([np.empty(0)] + parts)):
            bad.append("hstack/unique/sort")
        lo, hi = sorted(rng.uniform(-5, 5, 2))
        m = u[(u >= lo) & (u <= hi)]
        if set(m) != {x for x in u if lo <= x <= hi} or any(np.diff(m) <= 0):
            bad.append("boolean mask")
        e = np.append(m, np.inf)
        if len(e) != len(m) + 1 or e[-1] != np.inf or not np.array_equal(e[:-1], m):
            bad.append("append inf")
    try:
        np.hstack([])
        bad.append("np.hstack([]) does not raise")
    except ValueError:
        pass
    ctx.standin(prefix + ".numpy_contracts.rt", "300 seeded cases: searchsorted (left/right) partition property, hstack with a leading empty float array, unique+sort strictly increasing with the same element set, inclusive boolean mask, append(+inf); np.hstack([]) raises ValueError",
                n, [dict(what=b) for b in sorted(set(bad))], time_s=time.time() - t0)



def integrator_argument_forms(ctx, py, prop):
    """Bounded native contract shared by C01 / C02 / C13: the trajectory depends on the VALUES of the initial state and of the
    increments, not on how they are typed or stored -- an all-integer Pva (int64 Series, e.g. built from a dict of ints or taken
    from an integer table), a float32 one, a list-backed Series, a non-contiguous or Fortran-ordered increments table give
    bit-identical (float32: nearly identical) results to the plain float64 forms."""
    import numpy as np
    import pandas as pd
    t0 = __import__("time").time()
    S = py.strapdown
    names = ["lat", "lon", "alt", "VN", "VE", "VD", "roll", "pitch", "heading"]
    vals = [45, 30, 120, 3, -2, 1, 10, -5, 90]
    cols = ["dt", "theta_x", "theta_y", "theta_z", "dv_x", "dv_y", "dv_z"]
    rng = np.random.RandomState(4)
    n = 60
    t = np.round(np.arange(1, n + 1) * 0.05, 10)
    data = np.hstack([np.full((n, 1), 0.05), rng.randn(n, 3) * 1e-3, rng.randn(n, 3) * 1e-2 + [0, 0, -0.49]])
    inc = pd.DataFrame(data, index=pd.Index(t, name="time"), columns=cols)
    fails = []
    n_eval = 0
    for wa in (True, False):
        ref = S.Integrator(pd.Series(np.array(vals, dtype=float), index=names, name=0.0), wa).integrate(inc)
        forms = {
            "int64 Series": pd.Series(np.array(vals, dtype=np.int64), index=names, name=0.0),
            "Series from a dict of ints": pd.Series(dict(zip(names, vals)), name=0.0),
            "row of an integer DataFrame": pd.DataFrame([vals, vals], columns=names, index=[0.0, 1.0]).iloc[0],
            "object-dtype Series": pd.Series(list(map(float, vals)), index=names, name=0.0, dtype=object).astype(float),
        }
        for label, pva in forms.items():
            n_eval += 1
            try:
                out = S.Integrator(pva, wa).integrate(inc)
                if out.shape != ref.shape or not np.array_equal(out.values.astype(float), ref.values):
                    worst = float(np.max(np.abs(out.values.astype(float) - ref.values))) if out.shape == ref.shape else None
                    fails.append(dict(initial_state_given_as=label, with_altitude=wa, largest_difference_to_the_float64_form=worst,
                                      last_row=dict(zip(names, map(float, out.values[-1]))), float64_last_row=dict(zip(names, map(float, ref.values[-1])))))
            except Exception as exc:
                fails.append(dict(initial_state_given_as=label, with_altitude=wa, raised=repr(exc)))
        inc_f = pd.DataFrame(np.asfortranarray(data), index=inc.index, columns=cols)
        inc_v = pd.DataFrame(np.hstack([data, data])[:, ::2][:, :0].shape and data, index=inc.index, columns=cols)
        wide = pd.DataFrame(np.hstack([data, np.ones((n, 2))]), index=inc.index, columns=cols + ["extra1", "extra2"])
        for label, tab in (("Fortran-ordered increments", inc_f), ("increments with extra columns", wide), ("columns in another order", inc[cols[::-1]])):
            n_eval += 1
            try:
                out = S.Integrator(pd.Series(np.array(vals, dtype=float), index=names, name=0.0), wa).integrate(tab)
                if not np.array_equal(out.values, ref.values):
                    fails.append(dict(increments_given_as=label, with_altitude=wa, largest_difference=float(np.max(np.abs(out.values - ref.values)))))
            except Exception as exc:
                fails.append(dict(increments_given_as=label, with_altitude=wa, raised=repr(exc)))
    ctx.standin("%s.rt.argument_forms" % prop, "Integrator on %d typed / stored forms of the same initial state and increments (int64, dict of ints, integer-table row, Fortran order, "
                "extra / permuted columns), both altitude modes: bit-identical to the float64 form" % n_eval, n_eval, fails, time_s=__import__("time").time() - t0)


_LEAN = {}


def lean_lemmas(ctx, prop, fname, theorems, what, ob):
    """A mathematical step that connects per-function obligations to the property's wording is proved in Lean (lean/<fname>,
    Mathlib only).  Thorough tier: the file is re-checked by `lean` (no `sorry`, standard axioms only) and the named theorems
    must be in it -> obligation <prop>.<ob>; quick tier: recorded as an assumption that names the theorems."""
    import os
    import shutil
    import subprocess
    import time as _time
    here = os.path.dirname(os.path.dirname(os.path.abspath(__file__)))
    path = os.path.join(here, "lean", fname)
    ctx.assume("%s: theorems %s of lean/%s (re-checked by lean in the thorough tier)" % (what, ", ".join(theorems), fname))
    if ctx.tier == "quick":
        return
    t0 = _time.time()
    if fname not in _LEAN:
        lean = shutil.which("lean")
        if lean is None or not os.path.exists(path):
            _LEAN[fname] = (None, "lean or lean/%s not found" % fname)
        else:
            try:
                out = subprocess.run([lean, path], capture_output=True, text=True, timeout=1500)
                txt = out.stdout + out.stderr
                src = open(path).read()
                bad = out.returncode != 0 or "error" in txt.lower() or "sorryAx" in txt or "declaration uses 'sorry'" in txt
                _LEAN[fname] = (not bad, (txt.strip()[-600:] or "accepted"), src)
            except Exception as exc:
                _LEAN[fname] = (None, repr(exc))
    res = _LEAN[fname]
    ok, detail = res[0], res[1]
    if ok is not None:
        missing = [t_ for t_ in theorems if ("theorem " + t_.split(".")[-1] + " ") not in res[2]]
        if missing:
            ok, detail = False, detail + " | missing: %s" % missing
    ctx.ob("%s.%s" % (prop, ob), "lemma", ok, "lean4+mathlib", _time.time() - t0,
           "lean/%s accepted (theorems used here: %s); axioms reported by #print axioms: %s" % (fname, ", ".join(theorems), detail[-300:]) if ok
           else "lean did not accept lean/%s: %s" % (fname, detail))


def lean_induction(ctx, prop, theorems):
    """The step from per-iteration obligations to the whole-run statement is proved in Lean (lean/Induction.lean, Mathlib only):
    loop rule, termination from the lexicographic variant, chunking independence of a fold, "exactly once" from the cursor
    invariant."""
    lean_lemmas(ctx, prop, "Induction.lean", theorems, "whole-run statement from the per-iteration obligations", "induction.mechanised")


def lean_psd(ctx, prop, theorems):
    """Positive (semi)definiteness of the syntactic forms the checks establish on the real code (congruence, sum, PSD + PD,
    Joseph form, W S^-1 W^T), for all dimensions: lean/Psd.lean."""
    lean_lemmas(ctx, prop, "Psd.lean", theorems, "PSD lemmas (X P X^T is PSD for PSD P; sums of PSD are PSD; PSD + PD is PD; Joseph form; prior minus posterior)", "psd.mechanised")


def lean_kalman(ctx, prop, theorems):
    """Second, independent back end for matrix-word identities that pvx/words.py decides on the real code: the same
    identities in an arbitrary non-commutative ring (lean/Kalman.lean)."""
    lean_lemmas(ctx, prop, "Kalman.lean", theorems, "matrix-word identities re-proved in an arbitrary ring (second back end of the word normal form)", "words.mechanised")


def lean_convergence(ctx, prop):
    """Stability half of Lax / Dahlquist: e(k+1) <= (1 + h L) e(k) + h tau, e(0) = 0, N h <= T  =>  e(N) <= tau (exp(L T) - 1) / L
    (lean/Convergence.lean).  Consistency (tau -> 0 with h, Taylor) and 'C^1 on a compact domain is Lipschitz' stay assumed."""
    lean_lemmas(ctx, prop, "Convergence.lean", ["Pvx.discrete_gronwall", "Pvx.one_step_convergence"],
                "a consistent, Lipschitz one-step method converges (global error <= local truncation error x (exp(L T) - 1) / L)", "convergence.mechanised")


# ---------------------------------------------------------------------------------------------
def capacity_holders(py):
    """where the integrator keeps its initial buffer capacity: the class attribute INITIAL_SIZE of the pinned tree, or -- after a
    refactoring -- a module constant of strapdown whose name contains INITIAL_SIZE.  [(object, attribute name)]"""
    S = py.strapdown
    out = []
    if isinstance(getattr(S.Integrator, "INITIAL_SIZE", None), int):
        out.append((S.Integrator, "INITIAL_SIZE"))
    for k, v in list(vars(S).items()):
        if "INITIAL_SIZE" in k.upper() and isinstance(v, int) and not isinstance(v, bool):
            out.append((S, k))
    return out


def capacity_patches(py, n):
    """`extra=` patches for rdomain / tdomain: initial capacity n (small capacities make the buffer-growth code run)"""
    return [(obj, {name: n}) for obj, name in capacity_holders(py)] or [(py.strapdown.Integrator, dict(INITIAL_SIZE=n))]


class Capacity:
    """set_capacity = Capacity(py); set_capacity(3); ...; set_capacity.restore()"""

    def __init__(self, py):
        self.holders = capacity_holders(py)
        self.old = [getattr(o, k) for o, k in self.holders]

    def __call__(self, n):
        for o, k in self.holders:
            setattr(o, k, n)

    def restore(self):
        for (o, k), v in zip(self.holders, self.old):
            setattr(o, k, v)


# ---------------------------------------------------------------------------------------------
def in_child(fn, *args, timeout=600):
    """Run fn(*args) in a forked child and return its (picklable) result.  For native replays of obligations whose failure means
    that compiled code may write outside its buffers: the parent survives, and a child killed by a signal IS the reproduction."""
    import os
    import pickle
    import signal
    import time as _t
    r_fd, w_fd = os.pipe()
    pid = os.fork()
    if pid == 0:
        code = 0
        try:
            os.close(r_fd)
            try:
                out = fn(*args)
            except BaseException as exc:      # noqa
                out = dict(reproduced=None, raised=repr(exc)[:300])
            with os.fdopen(w_fd, "wb") as f:
                pickle.dump(out, f)
        except BaseException:                 # noqa
            code = 1
        os._exit(code)
    os.close(w_fd)
    data = b""
    t0 = _t.time()
    with os.fdopen(r_fd, "rb") as f:
        data = f.read()
    _, status = os.waitpid(pid, 0)
    if os.WIFSIGNALED(status):
        sig = os.WTERMSIG(status)
        try:
            name = signal.Signals(sig).name
        except ValueError:
            name = str(sig)
        return dict(reproduced=True, child_process_killed_by=name,
                    note="the real (compiled) code run on the replay input crashed the interpreter: it wrote outside its buffers")
    try:
        return pickle.loads(data)
    except Exception as exc:
        return dict(reproduced=None, replay_error="no result from the replay process: %r" % (exc,))
