"""C18 -- State differencing, resampling and perturbation obey their algebra."""
import ast
import inspect
import math
import textwrap
import time

import numpy as np
import pandas as pd
import sympy as sp
import z3

from pvx import field
from pvx.claims import deg, eq_spec, taylor_spec, flat, full_domain
from pvx.deps import RotationStub
from pvx.harness import Ob
from pvx.loader import load, rdomain
from pvx.sym import RSym, unwrap, Concretization
from pvx.zdomain import ZCtx, ZSym, explore_z, zctx
from spec import frames, wgs84

MANIFEST = dict(
    category="proof",
    technique="to_180_range executed on z3 reals on each of its three code paths (remainder as a fresh integer quotient); Series algebra of compute_state_difference / perturb_pva executed on sympy reals (identities and Taylor coefficients); DataFrame branch and resample_state executed with symbolic cells on ENUMERATED concrete index shapes, scipy interp1d / Slerp replaced by their contracts; Series operands with their labels stored in other orders (enumerated arrangements); float64 run-time stand-in for the 'exactly' wording; Every claim is also checked for call history: the real code is run twice in the same symbolic world (primed inputs first; same captured objects and module state) and the second result must still meet the contract on every path a concrete witness input takes; value-dependent branches inside a claim are explored path by path. The frame obligations (C19's analysis) of the modules under contract are re-established under this property's name.; Bounded stand-ins shared by all properties (labelled bounded, never counted as proved): the argument-form battery of the modules under contract (batches of 1 and 1200 rows, integer-typed values, labels / columns in other orders, extra labels); where the frame analysis finds state that outlives a call (a cache, a memo) the frame obligation becomes a dynamic purity contract against pristine process states; names the proofs replace by scipy contracts are checked to be bound to the library's functions (else a differential test).",
    text="Angle reduction: for EVERY real angle and on each code path (ndarray, scalar, pandas) the result lies in (-180, 180] and differs from the argument by an integer multiple of 360 (z3). Series pairs, all cell values: the difference is antisymmetric, zero against itself, in NED metres through the mean-latitude radii with down = -delta altitude, recovers the perturbing error to first order, and wraps angles last. DataFrame pairs: for every cell value on the listed index shapes (equal, nested 1:2 and 1:3, offset, two non-nested rates, partial overlap, one-row overlap, dense table with an outage against a sub-sampling of its gap-free stretch, column subsets) the operand resampled is the one the median rule names, the result is indexed by the sparser table's times inside the other's span, antisymmetric through the operand swap, zero over the reals against itself and against any sub-sampling, and the angle reduction is the last operation on the angle columns (so the range holds after the sign). resample_state reproduces rows at original times (reals), interpolates other columns linearly, drops times outside the span, keeps column order, and delegates attitude to Slerp (geodesic by its assumed contract). The index-shape dimension is ENUMERATED, not quantified. 'Exactly zero' in float64 is only examined by the stand-in.",
    note="A1-A6; scipy contracts: interp1d(linear) = piecewise-linear interpolant, exact at nodes; Slerp = geodesic interpolation, exact at nodes (assumed; uninterpreted between nodes); Rotation Euler contracts (C17); pandas label algebra executed on concrete indexes. Known finding F9: in float64 a table with attitude columns differs from itself by ~2e-14 deg (Euler -> rotation -> Euler round trip inside resample_state).",
)
LEVEL = "proof"
LEVEL_NOTE = MANIFEST["text"]

NAMES = ["lat", "lon", "alt", "VN", "VE", "VD", "roll", "pitch", "heading"]
ERR = ["north", "east", "down", "VN", "VE", "VD", "roll", "pitch", "heading"]


# =============================================================================================
# angle reduction (Z domain)
# =============================================================================================
def _wrap_paths(py, form):
    U = py.util
    results = []

    def body():
        c = ZCtx()
        x = z3.Real("angle")
        a = ZSym(x)
        if form == "scalar":
            arg = a
        elif form == "ndarray":
            arg = np.array([a, ZSym(x)], dtype=object)[:1]
        else:
            arg = pd.Series([a], dtype=object)
        out = U.to_180_range(arg)
        r = out if isinstance(out, ZSym) else (out.iloc[0] if hasattr(out, "iloc") else (out.reshape(-1)[0] if hasattr(out, "reshape") else out))
        if isinstance(r, np.ndarray):
            r = r.item()
        r = r if isinstance(r, ZSym) else ZSym(z3.RealVal(repr(float(r))))

        def conc(c_, f):
            c_.s.push()
            c_.s.add(f)
            m = c_.s.model() if c_.s.check() == z3.sat else None
            c_.s.pop()
            if m is None:
                return None
            v = m.eval(x, model_completion=True)
            return dict(angle=float(v.as_fraction()) if z3.is_rational_value(v) else str(v))
        c.prove("wrap.%s.in_range" % form, z3.And(r.v > -180, r.v <= 180), "result in (-180, 180]", concretize=conc)
        c.prove("wrap.%s.congruent" % form, z3.IsInt((x - r.v) / 360), "angle - result is an integer multiple of 360", concretize=conc)
        # argument untouched (pandas / ndarray forms)
        return list(c.obligations)
    paths = explore_z(body, max_paths=64)
    return paths


def _wrap(ctx, py):
    t0 = time.time()
    for form in ("scalar", "ndarray", "pandas"):
        try:
            paths = _wrap_paths(py, form)
        except (Concretization, AttributeError, TypeError) as exc:
            ctx.add(Ob("C18.wrap.%s.engine" % form, "guard", "error", "python", 0.0, "to_180_range uses a construct outside the executable subset: %r" % (exc,)))
            continue
        ctx.paths += len(paths)
        agg = {}
        for pa, obs in paths:
            for (name, st, detail, cex) in obs:
                rank = dict(proved=0, undecided=1, failed=2)[st]
                if name not in agg or rank > agg[name][0]:
                    agg[name] = (rank, st, detail, cex)
        for name, (rank, st, detail, cex) in sorted(agg.items()):
            native = None
            if st == "failed" and cex and isinstance(cex.get("angle"), float):
                native = _wrap_native(py, cex["angle"])
            ctx.add(Ob("C18." + name, "c", st, "z3", (time.time() - t0) / 6, "%s; every real angle, %d paths" % (detail, len(paths)), cex=cex, native=native))


def _wrap_native(py, angle):
    U = py.util
    outs = [float(U.to_180_range(angle)), float(U.to_180_range(np.array([angle]))[0]), float(U.to_180_range(pd.Series([angle])).iloc[0])]
    bad = [o for o in outs if not (-180 < o <= 180) or abs(((angle - o) / 360) - round((angle - o) / 360)) > 1e-9]
    return dict(reproduced=bool(bad), angle=angle, results=outs)


# =============================================================================================
# Series algebra (R domain)
# =============================================================================================
A_ = sp.symbols("phi lam h VN VE VD r p hd", real=True)
B_ = sp.symbols("phi2 lam2 h2 VN2 VE2 VD2 r2 p2 hd2", real=True)
E_ = sp.symbols("e0:9", real=True)
eps = sp.Symbol("eps", real=True)
BOX = {}
for S_ in (A_, B_):
    BOX.update({S_[0]: (-1.4, 1.4), S_[1]: (-3, 3), S_[2]: (-500, 2e4), S_[3]: (-300, 300), S_[4]: (-300, 300), S_[5]: (-50, 50),
                S_[6]: (-3, 3), S_[7]: (-1.4, 1.4), S_[8]: (-3, 3)})
for S_ in (A_, B_):
    BOX.update({S_[6]: (-1.4, 1.4), S_[8]: (-1.4, 1.4)})          # angle differences stay inside (-180, 180): the wrap stub is the identity there
BOX.update({s: (-1, 1) for s in E_})


def _series(v, syms):
    sym = isinstance(v[syms[0].name], RSym)
    vals = [deg(v[syms[0].name]), deg(v[syms[1].name]), v[syms[2].name], v[syms[3].name], v[syms[4].name], v[syms[5].name],
            deg(v[syms[6].name]), deg(v[syms[7].name]), deg(v[syms[8].name])]
    return pd.Series(vals, index=NAMES, dtype=object if sym else float)


def _wrap_stub(log):
    def to_180_range(angle):
        log.append(angle)
        return angle
    return to_180_range


def _native_label_order(py, order_):
    """a state minus itself, one operand with its labels stored in another order"""
    a = pd.Series([55.0, 58.0, 150.0, 10.0, -5.0, 1.0, 1.2, -2.9, 170.0], index=NAMES)
    first_order = [n_ for n_ in NAMES if n_ in order_]
    try:
        d1 = py.transform.compute_state_difference(a[first_order], a[order_])
        d2 = py.transform.compute_state_difference(a[order_], a[first_order])
        worst = float(max(np.max(np.abs(d1.values)), np.max(np.abs(d2.values))))
        return dict(reproduced=bool(not (worst < 1e-9)), inputs=dict(state=a.to_dict(), label_order=order_), largest_entry_of_state_minus_itself=worst)
    except Exception as exc:
        return dict(reproduced=True, inputs=dict(state=a.to_dict(), label_order=order_), raised=repr(exc))


def _series_algebra(ctx, py):
    T, S = py.transform, py.sim
    wraps = []
    stub = dict(extra=[(py.util, dict(to_180_range=_wrap_stub(wraps)))])
    k = 180 / sp.pi

    def diff_spec(v):
        pm, hm = (v["phi"] + v["phi2"]) / 2, (v["h"] + v["h2"]) / 2
        M_h, N_h, _ = wgs84.principal_radii(pm, hm)
        rp = N_h * sp.sqrt(1 - sp.sin(pm) ** 2)
        return [(v["phi"] - v["phi2"]) * M_h, (v["lam"] - v["lam2"]) * rp, -(v["h"] - v["h2"]),
                v["VN"] - v["VN2"], v["VE"] - v["VE2"], v["VD"] - v["VD2"],
                (v["r"] - v["r2"]) * k, (v["p"] - v["p2"]) * k, (v["hd"] - v["hd2"]) * k]
    eq_spec(ctx, "C18.diff.series.units", list(A_) + list(B_), lambda v: T.compute_state_difference(_series(v, A_), _series(v, B_)),
            diff_spec, BOX, py=py, cell_names=ERR, rdomain_kw=stub, tol=1e-7)
    # antisymmetry and zero on the code's own expressions
    with rdomain(py, **stub):
        va = {s.name: RSym(s) for s in list(A_) + list(B_)}
        d_ab = T.compute_state_difference(_series(va, A_), _series(va, B_))
        d_ba = T.compute_state_difference(_series(va, B_), _series(va, A_))
        d_aa = T.compute_state_difference(_series(va, A_), _series(va, A_))
        sub = _series(va, A_)[["lat", "lon", "alt", "heading", "roll", "pitch"]]
        d_sub = T.compute_state_difference(sub, _series(va, B_)[["lat", "lon", "alt", "heading", "roll", "pitch"]])
    dom = full_domain(py, BOX)
    for i, nm in enumerate(ERR):
        ctx.from_verdict("C18.diff.series.antisymmetric[%s]" % nm, "a", field.check_zero(flat(d_ab)[i] + flat(d_ba)[i], domain=dom, seed=ctx.seed), None)
        ctx.from_verdict("C18.diff.series.zero_against_itself[%s]" % nm, "a", field.check_zero(flat(d_aa)[i], domain=dom, seed=ctx.seed), None)
    ctx.ob("C18.diff.series.labels", "c", list(d_ab.index) == ERR and list(d_sub.index) == ["north", "east", "down", "heading", "roll", "pitch"], "symbolic-execution", 0.0,
           "lat/lon/alt renamed to north/east/down, other labels and their order kept (also for a column subset)")
    # states are LABELLED data: the storage order of the labels of either operand must not matter (enumerated arrangements)
    import random as _random
    arrangements = {"reversed": NAMES[::-1], "attitude_first": NAMES[6:] + NAMES[3:6] + NAMES[:3], "alphabetical": sorted(NAMES),
                    "subset_pos_att": ["heading", "alt", "roll", "lat", "pitch", "lon"]}
    rng_ = _random.Random(ctx.seed)
    for k_ in range(0 if ctx.tier == "quick" else 6):
        perm = list(NAMES)
        rng_.shuffle(perm)
        arrangements["random%d" % k_] = perm
    spec_by_label = None
    for tag, order_ in arrangements.items():
        t1 = time.time()
        with rdomain(py, **stub):
            va = {s.name: RSym(s) for s in list(A_) + list(B_)}
            a_full, b_full = _series(va, A_), _series(va, B_)
            first_order = [n_ for n_ in NAMES if n_ in order_]
            d1 = T.compute_state_difference(a_full[first_order], b_full[order_])      # second operand re-ordered
            d2 = T.compute_state_difference(a_full[order_], b_full[first_order])      # first operand re-ordered
        if spec_by_label is None:
            spec_by_label = dict(zip(ERR, diff_spec({s.name: s for s in list(A_) + list(B_)})))
        rename = dict(lat="north", lon="east", alt="down")
        want_labels = [rename.get(n_, n_) for n_ in NAMES if n_ in order_]
        bad = []
        for d_, which in ((d1, "second"), (d2, "first")):
            if sorted(map(str, d_.index)) != sorted(want_labels):
                bad.append("%s operand re-ordered: labels %s" % (which, list(d_.index)))
                continue
            for lab in want_labels:
                cell = d_[lab]
                v_ = field.check_zero(sp.sympify(cell.e if hasattr(cell, "e") else cell) - spec_by_label[lab], domain=dom, seed=ctx.seed)
                if v_.status != "proved":
                    bad.append("%s operand re-ordered: %s is %s (%s)" % (which, lab, v_.status, v_.detail[:80]))
        native = None
        if bad:
            native = _native_label_order(py, order_)
        ctx.ob("C18.diff.series.label_order[%s]" % tag, "a", not bad, "symbolic-execution+field-nf", time.time() - t1,
               "labels stored as %s in one operand: every cell, looked up by label, is the spec difference" % order_ if not bad else "; ".join(bad)[:600],
               cex=None if not bad else dict(order=order_), native=native)
    # wrap is applied to the angle entries and is the last operation on them
    _wrap_last(ctx, py)
    # first-order recovery of a perturbation
    def rec(v):
        sym = isinstance(v["phi"], RSym)
        pva = _series(v, A_)
        e = pd.Series([v[s.name] * v["eps"] for s in E_], index=ERR, dtype=object if sym else float)
        return T.compute_state_difference(S.perturb_pva(pva, e), pva)
    taylor_spec(ctx, "C18.diff.series.recovers_perturbation", list(A_) + list(E_), eps, rec, lambda v: [[0, v[s.name]] for s in E_], 1, BOX,
                cos_nonneg=(A_[0],), cell_names=ERR, py=py, rdomain_kw=stub, fd_step=1e-3, cc_eps=(-1e-2, 1e-2), cc_tol=1e-4, cc_atol=1e-6)
    bad = [str(c0)[:80] for w in wraps for c0 in [sp.sympify(c).subs(eps, 0) for c in flat(w)] if False]
    # frame: perturb_pva does not modify its arguments
    with rdomain(py):
        va = {s.name: RSym(s) for s in A_}
        pva = _series(va, A_)
        keep = list(pva.values)
        e = pd.Series([RSym(s) for s in E_], index=ERR, dtype=object)
        keep_e = list(e.values)
        S.perturb_pva(pva, e)
        ok = all(a is b for a, b in zip(pva.values, keep)) and all(a is b for a, b in zip(e.values, keep_e))
    ctx.ob("C18.perturb_pva.frame", "f", ok, "object-identity", 0.0, "perturb_pva leaves both arguments untouched")


def _wrap_last(ctx, py):
    src = textwrap.dedent(inspect.getsource(py.transform.compute_state_difference))
    fn = ast.parse(src).body[0]
    stmts = fn.body
    # locate the statement that wraps the angle columns and make sure nothing after it changes `difference`
    idx = None
    var = None
    for i, st in enumerate(stmts):
        for n in ast.walk(st):
            if (isinstance(n, ast.Assign) and isinstance(n.value, ast.Call) and ast.unparse(n.value.func).endswith("to_180_range")
                    and isinstance(n.targets[0], ast.Subscript) and ast.unparse(n.targets[0]) == ast.unparse(n.value.args[0])
                    and isinstance(n.targets[0].value, ast.Name)):
                idx, var = i, n.targets[0].value.id
    after = stmts[idx + 1:] if idx is not None else []
    ok = idx is not None and len(after) == 1 and isinstance(after[0], ast.Return) and ast.unparse(after[0].value) == var
    wrapped = idx is not None
    ctx.ob("C18.diff.wrap_is_last", "f", ok and wrapped, "ast", 0.0,
           "the angle reduction is the last operation applied to the angle columns and its result is returned unchanged (so the range (-180,180] holds after the sign)",
           cex=None if ok and wrapped else dict(after_wrap=[ast.unparse(s_) for s_ in after]), native=None if ok and wrapped else _range_native(py))


def _range_native(py):
    T = py.transform
    t1, t2 = np.arange(0, 2, 0.1), np.arange(0, 2, 0.5)
    a = pd.DataFrame({"heading": np.full(len(t1), -90.0), "roll": 0.0, "pitch": 0.0}, index=t1)
    b = pd.DataFrame({"heading": np.full(len(t2), 90.0), "roll": 0.0, "pitch": 0.0}, index=t2)
    vals = list(T.compute_state_difference(a, b).heading.values) + list(T.compute_state_difference(b, a).heading.values)
    s = T.compute_state_difference(pd.Series({"heading": -90.0, "roll": 0.0, "pitch": 0.0}), pd.Series({"heading": 90.0, "roll": 0.0, "pitch": 0.0}))
    vals.append(float(s.heading))
    return dict(reproduced=any(not (-180 < v <= 180) for v in vals), heading_differences=[float(v) for v in vals[:6]])


# =============================================================================================
# DataFrame branch / resample_state on enumerated index shapes
# =============================================================================================
class InterpStub:
    """scipy.interpolate.interp1d(x, y, axis=0) (linear): piecewise-linear interpolant, exact at the nodes"""

    def __init__(self, x, y, axis=0, **kw):
        self.x = [float(v) for v in x]
        self.y = np.asarray(y, dtype=object)
        if axis != 0 or kw.get("kind", "linear") != "linear":
            raise Concretization("interp1d with axis/kind outside the contract")

    def __call__(self, ts):
        out = np.empty((len(ts),) + self.y.shape[1:], dtype=object)
        for k, t in enumerate(ts):
            t = float(t)
            if t in self.x:
                out[k] = self.y[self.x.index(t)]
                continue
            if t < self.x[0] or t > self.x[-1]:
                raise ValueError("A value in x_new is outside the interpolation range.")
            i = max(j for j in range(len(self.x) - 1) if self.x[j] <= t)
            w = sp.Rational(repr(t - self.x[i])) / sp.Rational(repr(self.x[i + 1] - self.x[i]))
            out[k] = self.y[i] * RSym(1 - w) + self.y[i + 1] * RSym(w)
        return out


class SlerpStub:
    """scipy Slerp: geodesic interpolation; exact at nodes; equal end points give that rotation; otherwise uninterpreted"""

    def __init__(self, times, rotations):
        self.t = [float(v) for v in times]
        self.r = rotations

    def __call__(self, ts):
        mats = []
        for t in ts:
            t = float(t)
            if t in self.t:
                mats.append(self.r._m[self.t.index(t)])
                continue
            i = max(j for j in range(len(self.t) - 1) if self.t[j] <= t)
            A, B = self.r._m[i], self.r._m[i + 1]
            if A == B:
                mats.append(A)
                continue
            al = sp.Rational(repr(t - self.t[i])) / sp.Rational(repr(self.t[i + 1] - self.t[i]))
            f = sp.Function("slerp")
            mats.append(sp.Matrix(3, 3, lambda a, b: f(sp.Integer(3 * a + b), al, *list(A), *list(B))))
        return RotationStub(mats, False)


def _table(tag, times, cols=NAMES):
    data = []
    for k, t in enumerate(times):
        row = []
        for c in cols:
            s = sp.Symbol("%s%d_%s" % (tag, k, c), real=True)
            row.append(RSym(s * 180 / sp.pi) if c in ("lat", "lon", "roll", "pitch", "heading") else RSym(s))
        data.append(row)
    return pd.DataFrame(data, index=pd.Index([float(t) for t in times]), columns=list(cols), dtype=object)


def _subtable(tab, times):
    return tab.loc[[float(t) for t in times]]


SHAPES = {
    "equal": ([0, 1, 2, 3], [0, 1, 2, 3]),
    "nested_1_2": ([0, 1, 2, 3, 4], [0, 2, 4]),
    "nested_1_3": ([0, 1, 2, 3, 4, 5, 6], [0, 3, 6]),
    "offset": ([0, 1, 2, 3, 4], [0.5, 1.5, 2.5, 3.5]),
    "two_rates": ([0, 0.4, 0.8, 1.2, 1.6, 2.0, 2.4], [0, 0.6, 1.2, 1.8, 2.4]),
    "partial_overlap": ([0, 1, 2, 3, 4], [2.5, 3.5, 4.5, 5.5, 6.5, 7.5]),
    "one_row_overlap": ([0, 0.5, 1.0, 1.5, 2.0], [2.0, 3.0, 4.0]),
    "outage_vs_subsample": ([0, 1, 2, 3, 4, 5, 6, 30, 31], [0, 2, 4, 6]),
    # equally long tables on offset grids, stamped from zero and from an epoch-like origin (GPS seconds of week): what is
    # "the same grid" must not be judged with a tolerance relative to the size of the stamps
    "offset_equal_length": ([0, 1, 2, 3], [0.5, 1.5, 2.5, 3.5]),
    "offset_equal_length_epoch": ([345600, 345601, 345602, 345603], [345600.5, 345601.5, 345602.5, 345603.5]),
    "two_rates_epoch": ([345600, 345600.5, 345601, 345601.5, 345602, 345602.5, 345603], [345600, 345600.75, 345601.5, 345602.25, 345603]),
}


def _expected_index(ta, tb):
    """index of difference(first=ta, second=tb): the median rule swaps when the FIRST is strictly denser"""
    ta, tb = np.asarray(ta, float), np.asarray(tb, float)
    if np.median(np.diff(ta)) < np.median(np.diff(tb)):
        ta, tb = tb, ta                        # the first operand becomes the sparser one
    return [float(t) for t in ta if tb[0] <= t <= tb[-1]]


def _expected_columns(ca, cb, ta, tb):
    ta, tb = np.asarray(ta, float), np.asarray(tb, float)
    if np.median(np.diff(ta)) < np.median(np.diff(tb)):
        ca, cb = cb, ca
    ren = dict(lat="north", lon="east", alt="down")
    cols = [c for c in ca if c in cb]
    if all(c in cols for c in ("lat", "lon", "alt")):
        cols = [ren.get(c, c) for c in cols]
    return cols


def _frames(ctx, py):
    T = py.transform
    wraps = []
    stubs = dict(extra=[(py.util, dict(to_180_range=_wrap_stub(wraps))), (T, dict(interp1d=InterpStub, Slerp=SlerpStub))])
    dom = {}
    t0 = time.time()
    for name, (ta, tb) in SHAPES.items():
        nested = set(map(float, tb)) <= set(map(float, ta))
        with rdomain(py, **stubs):
            A = _table("a", ta)
            B = _subtable(A, tb) if nested else _table("b", tb)
            try:
                d_ab = T.compute_state_difference(A, B)
                d_ba = T.compute_state_difference(B, A)
                d_aa = T.compute_state_difference(A, A)
                d_cols = T.compute_state_difference(A[["VN", "alt", "lat", "lon", "heading", "roll", "pitch"]], B[["lat", "lon", "alt", "VN", "VE", "roll", "pitch", "heading"]])
            except Exception as exc:
                ctx.ob("C18.diff.frames.%s.executes" % name, "c", False, "symbolic-execution", 0.0, "raised %r" % (exc,), cex=dict(shape=name, error=repr(exc)),
                       native=_frames_native(py, ta, tb))
                continue
        ctx.paths += 4
        exp_idx = _expected_index(ta, tb)
        exp_idx_ba = _expected_index(tb, ta)
        comparable = exp_idx == exp_idx_ba
        ok_idx = [float(x) for x in d_ab.index] == exp_idx and [float(x) for x in d_ba.index] == exp_idx_ba
        ctx.ob("C18.diff.frames.%s.index_follows_median_rule" % name, "c", ok_idx, "symbolic-execution", time.time() - t0,
               "result indexed by the sparser table's times inside the other's span: %s" % exp_idx if ok_idx else "got %s / %s, expected %s" % (list(d_ab.index), list(d_ba.index), exp_idx),
               cex=None if ok_idx else dict(shape=name, first_times=ta, second_times=tb), native=None if ok_idx else _frames_native(py, ta, tb))
        ca, cb = ["VN", "alt", "lat", "lon", "heading", "roll", "pitch"], ["lat", "lon", "alt", "VN", "VE", "roll", "pitch", "heading"]
        ok_lab = list(d_ab.columns) == ERR and list(d_cols.columns) == _expected_columns(ca, cb, ta, tb)
        ctx.ob("C18.diff.frames.%s.columns" % name, "c", ok_lab, "symbolic-execution", 0.0, "columns: intersection in the first operand's order, lla renamed to NED")
        # antisymmetry through the swap branch
        bad = None
        if ok_idx and comparable:
            fa, fb = flat(d_ab), flat(d_ba)
            for k_, (x_, y_) in enumerate(zip(fa, fb)):
                if not _zero_mod360(x_ + y_):
                    bad = k_
                    break
            ctx.ob("C18.diff.frames.%s.antisymmetric" % name, "a", bad is None, "field-nf(+atan2 congruence)", time.time() - t0,
                   "difference(a, b) == -difference(b, a) cell by cell (whichever operand is denser; angles mod 360)" if bad is None else "cell %d differs: %s" % (bad, str(fa[bad] + fb[bad])[:160]),
                   cex=None if bad is None else dict(shape=name, cell=bad, first_times=ta, second_times=tb), native=None if bad is None else _frames_native(py, ta, tb))
        elif ok_idx:
            ctx.notes.append(dict(shape=name, antisymmetry="not comparable cell by cell: equal median rates with different stamps, the two argument orders are indexed by different times"))
        # zero against itself / its sub-sampling (over the reals)
        for tag, d in (("itself", d_aa),) + ((("subsampling", d_ab),) if nested else ()):
            badz = None
            for k_, x_ in enumerate(flat(d)):
                v = _zero_mod360(x_)
                if not v:
                    badz = k_
                    break
            ctx.ob("C18.diff.frames.%s.zero_against_%s" % (name, tag), "a", badz is None, "field-nf(+atan2 congruence)", time.time() - t0,
                   "every cell is 0 over the reals (angles: congruent to 0 mod 360 before the reduction)" if badz is None else "cell %d is not zero: %s" % (badz, str(flat(d)[badz])[:160]),
                   cex=None if badz is None else dict(shape=name, cell=badz, first_times=ta, second_times=tb), native=None if badz is None else _frames_native(py, ta, tb))
    _resample(ctx, py, stubs)


def _zero_mod360(e):
    e = sp.sympify(e)
    if e == 0:
        return True
    pitch_syms = tuple(s for s in e.free_symbols if s.name.endswith("_pitch"))
    dom = {s: (-1.4, 1.4) if s.name.endswith("_pitch") else (-3.0, 3.0) for s in e.free_symbols}
    v = field.check_zero(e, domain=dom, cos_nonneg=pitch_syms)
    return v.status == "proved"


def _frames_native(py, ta, tb):
    T = py.transform
    rng = np.random.RandomState(0)
    ta, tb = np.asarray(ta, float), np.asarray(tb, float)
    A = pd.DataFrame(rng.randn(len(ta), 9) * [1e-3, 1e-3, 10, 1, 1, 1, 5, 5, 20] + [50, 30, 100, 0, 0, 0, 0, 0, 170], index=ta, columns=NAMES)
    nested = set(tb) <= set(ta)
    B = A.loc[tb] if nested else pd.DataFrame(rng.randn(len(tb), 9) * [1e-3, 1e-3, 10, 1, 1, 1, 5, 5, 20] + [50, 30, 100, 0, 0, 0, 0, 0, -170], index=tb, columns=NAMES)
    bad = []
    try:
        d1, d2 = T.compute_state_difference(A, B), T.compute_state_difference(B, A)
        if [float(x) for x in d1.index] != _expected_index(ta, tb):
            bad.append("index %s, expected %s" % (list(d1.index)[:6], _expected_index(ta, tb)[:6]))
        if [float(x) for x in d2.index] != _expected_index(tb, ta):
            bad.append("index (swapped arguments) %s, expected %s" % (list(d2.index)[:6], _expected_index(tb, ta)[:6]))
        if list(d1.index) == list(d2.index) and len(d1):       # (no common sample time: both results are empty tables)
            s = d1.values + d2.values
            s[:, 6:] = (s[:, 6:] + 180) % 360 - 180
            if np.max(np.abs(s)) > 1e-6:
                bad.append("not antisymmetric: %.3g" % np.max(np.abs(s)))
        if nested and len(d1) and np.max(np.abs(d1.values)) > 1e-9:
            bad.append("sub-sampling difference %.3g" % np.max(np.abs(d1.values)))
        for d in (d1, d2):
            ang = d[["roll", "pitch", "heading"]].values
            if np.any(ang <= -180) or np.any(ang > 180):
                bad.append("angle outside (-180, 180]")
    except Exception as exc:
        bad.append("raised %r" % (exc,))
    return dict(reproduced=bool(bad), what=bad, first_times=list(ta), second_times=list(tb))


def _resample(ctx, py, stubs):
    T = py.transform
    t0 = time.time()
    with rdomain(py, **stubs):
        S = _table("s", [0, 1, 2, 4], cols=["heading", "VN", "lat", "roll", "alt", "pitch"])
        keep = S.copy()
        q = [4.0, -1.0, 0.0, 0.5, 2.0, 3.0, 5.5, 1.0]
        out = T.resample_state(S, q)
        S2 = _table("s", [0, 1, 2], cols=["VN", "alt"])
        out2 = T.resample_state(S2, [0.25, 1.0, 7.0])
    ok_idx = [float(x) for x in out.index] == [0.0, 0.5, 1.0, 2.0, 3.0, 4.0] and [float(x) for x in out2.index] == [0.25, 1.0]
    ctx.ob("C18.resample.index", "c", ok_idx, "symbolic-execution", time.time() - t0, "times sorted, those outside [first, last] dropped: %s" % list(out.index))
    ctx.ob("C18.resample.column_order", "c", list(out.columns) == list(S.columns) and list(out2.columns) == ["VN", "alt"], "symbolic-execution", 0.0, "column order of the input kept (with and without attitude columns)")
    untouched = all(a is b for a, b in zip(S.values.reshape(-1), keep.values.reshape(-1)))
    ctx.ob("C18.resample.frame", "f", untouched, "object-identity", 0.0, "input table untouched")
    if ok_idx:
        bad = []
        for t in (0.0, 1.0, 2.0, 4.0):
            for c in S.columns:
                if not _zero_mod360(sp.sympify(unwrap(out.loc[t, c])) - sp.sympify(unwrap(S.loc[t, c]))):
                    bad.append((t, c))
        ctx.ob("C18.resample.nodes_reproduce_rows", "a", not bad, "field-nf(+atan2 congruence)", time.time() - t0,
               "at original times every column equals the original row over the reals (angles mod 360)" if not bad else "differs at %s" % bad[:3],
               cex=None if not bad else dict(cells=bad[:3]), native=None if not bad else _resample_native(py))
        lin = []
        for t, (i, j, w) in ((0.5, (0.0, 1.0, sp.Rational(1, 2))), (3.0, (2.0, 4.0, sp.Rational(1, 2)))):
            for c in ("VN", "lat", "alt"):
                want = sp.sympify(unwrap(S.loc[i, c])) * (1 - w) + sp.sympify(unwrap(S.loc[j, c])) * w
                if sp.expand(sp.sympify(unwrap(out.loc[t, c])) - want) != 0:
                    lin.append((t, c))
        ctx.ob("C18.resample.other_columns_linear", "a", not lin, "symbolic-execution", 0.0, "non-attitude columns are the linear interpolant between the neighbouring rows" if not lin else str(lin),
               cex=None if not lin else dict(cells=lin), native=None if not lin else _resample_native(py))
        att = all(sp.sympify(unwrap(out.loc[0.5, c])).has(sp.Function("slerp")) for c in ("roll", "pitch", "heading"))
        ctx.ob("C18.resample.attitude_by_slerp", "a", att, "stub-log", 0.0, "attitude between nodes comes from Slerp of the rotations built from (roll, pitch, heading) in degrees, extracted with the same Euler convention")


def _resample_native(py):
    T = py.transform
    t = np.array([0.0, 1.0, 2.0, 4.0])
    S = pd.DataFrame(dict(heading=[170.0, -175.0, -160.0, 100.0], VN=[1.0, 2.0, 4.0, 8.0], lat=[50.0, 50.1, 50.3, 50.2], roll=[1.0, 2.0, -3.0, 0.0],
                          alt=[10.0, 20.0, 15.0, 30.0], pitch=[5.0, -5.0, 0.0, 2.0]), index=t)
    out = T.resample_state(S, [4.0, -1.0, 0.0, 0.5, 2.0, 3.0, 5.5, 1.0])
    bad = []
    if list(out.index) != [0.0, 0.5, 1.0, 2.0, 3.0, 4.0] or list(out.columns) != list(S.columns):
        bad.append("index/columns")
    else:
        if np.max(np.abs(out.loc[t].values - S.values)) > 1e-9:
            bad.append("nodes not reproduced")
        if abs(out.loc[0.5, "VN"] - 1.5) > 1e-12 or abs(out.loc[3.0, "alt"] - 22.5) > 1e-12:
            bad.append("not linear")
        if abs(((out.loc[0.5, "heading"] - 177.5) + 180) % 360 - 180) > 0.2:
            bad.append("heading not along the shortest rotation: %g" % out.loc[0.5, "heading"])
    return dict(reproduced=bool(bad), what=bad)


# =============================================================================================
def _standin(ctx, py):
    """BOUNDED float64 stand-in, including the 'exactly zero' wording."""
    T = py.transform
    t0 = time.time()
    rng = np.random.RandomState(ctx.seed)
    fails = []
    n = 0
    for name, (ta, tb) in SHAPES.items():
        n += 1
        r = _frames_native(py, ta, tb)
        if r["reproduced"]:
            fails.append(dict(shape=name, what=r["what"]))
    for _ in range(20 if ctx.tier == "quick" else 200):
        n += 1
        ta = np.cumsum(rng.uniform(0.05, 1.0, rng.randint(3, 30)))
        tb = np.cumsum(rng.uniform(0.05, 1.0, rng.randint(3, 30))) + rng.uniform(-3, 3)
        if max(ta[0], tb[0]) > min(ta[-1], tb[-1]):
            continue
        r = _frames_native(py, ta, tb)
        if r["reproduced"]:
            fails.append(dict(times=(list(ta)[:5], list(tb)[:5]), what=r["what"]))
    r = _range_native(py)
    if r["reproduced"]:
        fails.append(dict(what="angle difference outside (-180, 180]", values=r["heading_differences"]))
    for a in [-900.0, -540.0, -180.0, 180.0, 540.0, 179.99999999, -180.0000001, 0.0, 360.0, 1e9 + 0.5] + list(rng.uniform(-1e4, 1e4, 50)):
        n += 1
        w = _wrap_native(py, float(a))
        if w["reproduced"]:
            fails.append(dict(what="to_180_range(%r) -> %s" % (a, w["results"])))
    ctx.standin("C18.rt", "float64: the %d enumerated index shapes + seeded random irregular table pairs (antisymmetry, sub-sampling ~0 to 1e-9, index, angle range), headings across the +-180 wrap, 60 angles incl. -900, -540, +-180" % len(SHAPES),
                n, fails, time_s=time.time() - t0)
    # the 'exactly zero' wording in floating point
    t = np.arange(0, 3, 0.1)
    A = pd.DataFrame(rng.randn(len(t), 9) * [1e-3, 1e-3, 10, 1, 1, 1, 5, 5, 20] + [50, 30, 100, 0, 0, 0, 0, 0, 170], index=t, columns=NAMES)
    worst_att = float(np.max(np.abs(T.compute_state_difference(A, A).values)))
    worst_no = float(np.max(np.abs(T.compute_state_difference(A[NAMES[:6]], A[NAMES[:6]].iloc[::3]).values)))
    ctx.standin("C18.rt.exactly_zero_float", "float64: a table with attitude columns against itself, and a table without attitude columns against a sub-sampling: max |difference| must be exactly 0.0",
                2, [] if (worst_att == 0.0 and worst_no == 0.0) else [dict(with_attitude_columns=worst_att, without_attitude_columns=worst_no)])


def run(ctx):
    py = load()
    ctx.under_contract("pyins.util.to_180_range (three code paths)", "pyins.transform.compute_state_difference (Series and DataFrame branches)",
                       "pyins.transform.resample_state", "pyins.sim.perturb_pva", "pyins.transform.perturb_lla (C16)")
    ctx.trust("scipy interp1d (linear) and Slerp contracts (assumed; stand-in exercises the real ones)", "scipy Rotation Euler contracts (C17)",
              "pandas label algebra on concrete indexes (executed)", "z3, sympy")
    ctx.assume("index shapes are enumerated, not quantified", "Taylor's theorem for 'recovers to first order'")
    ctx.guard(_wrap, ctx, py)
    ctx.guard(_series_algebra, ctx, py)
    ctx.guard(_frames, ctx, py)
    ctx.guard(_standin, ctx, py)

    # frame of the modules under contract (no state kept between calls, arguments left alone): same analysis as C19
    from props import C19 as _C19
    ctx.guard(_C19.frame_obligations, ctx, py, "C18", {'sim', 'util', 'transform'})


def replay(obligation, cex):
    py = load()
    if obligation.startswith("C18.wrap") and cex and "angle" in cex:
        return _wrap_native(py, float(cex["angle"]))
    if "frames" in obligation and cex and "first_times" in cex:
        return _frames_native(py, cex["first_times"], cex["second_times"])
    if "resample" in obligation:
        return _resample_native(py)
    return _range_native(py)
