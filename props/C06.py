"""C06 -- Measurement models: residual sign/units right and H is the Jacobian of z."""
import ast
import inspect
import math
import textwrap
import time

import numpy as np
import pandas as pd
import sympy as sp

from pvx import field
from pvx.claims import deg, eq_spec, taylor_spec, flat, flat_float, full_domain
from pvx.harness import Ob
from pvx.loader import load, rdomain
from pvx.npproxy import patched
from pvx.sym import RSym, unwrap
from spec import frames, wgs84
from props.C05 import make_pva, ST, BOX as BOX5, NAMES, COSNN, phi, lam, h, VN, VE, VD, r, p, hd, X9

MANIFEST = dict(
    category="proof",
    technique="symbolic execution of the real measurement classes, Jacobian helpers and measurement generators on pandas objects of sympy reals; residual structure as identities, H as the first Taylor coefficient of the residual along the library's own correction map; the 'absent' clause by executing compute_matrices on a table stand-in whose membership test is an uninterpreted decision (absent => None, present => triple, rows read only at a time found present) plus native witnesses; shared-error-model history obligations over ordered pairs of sensor configurations; Every claim is also checked for call history: the real code is run twice in the same symbolic world (primed inputs first; same captured objects and module state) and the second result must still meet the contract on every path a concrete witness input takes; value-dependent branches inside a claim are explored path by path. The frame obligations (C19's analysis) of the modules under contract are re-established under this property's name.; Bounded stand-ins shared by all properties (labelled bounded, never counted as proved): the argument-form battery of the modules under contract (batches of 1 and 1200 rows, integer-typed values, labels / columns in other orders, extra labels); where the frame analysis finds state that outlives a call (a cache, a memo) the frame obligation becomes a dynamic purity contract against pristine process states; names the proofs replace by scipy contracts are checked to be bound to the library's functions (else a differential test).",
    text="For Position, NedVelocity and BodyVelocity, all pva (|pitch|<=85 deg), symbolic lever arms and None, with and without body rates in the state, and both altitude modes: the residual is proved to be predicted-minus-measured in the documented units including the C*l and C*(w x l) terms; H*x is proved equal to the first-order change of the residual when the INS state is displaced by the error vector x under the library's own correction convention (so H is the Jacobian, lever-arm and rate terms included); R = sd^2 I with the dimension of z and H; the only path returning None is the membership test at entry; noise-free generated measurements give zero residual at the true state and an injected error e gives -e to first order (exactly -e for the velocity types).",
    note="A1-A6; scipy Rotation contracts; pandas `time in index` / .loc label lookup assumed and executed on a concrete one-row index; RNG draws are symbols (generator stubs return them); Taylor's theorem.",
)
LEVEL = "proof"
LEVEL_NOTE = MANIFEST["text"]

eps = sp.Symbol("eps", real=True)
L = sp.symbols("l1:4", real=True)
Wr = sp.symbols("wr1:4", real=True)
Mz = sp.symbols("m1:4", real=True)
sd = sp.Symbol("sd", positive=True)
BOX = dict(BOX5)
BOX.update({s: (-3.0, 3.0) for s in L + Wr})
BOX.update({Mz[0]: (-1.4, 1.4), Mz[1]: (-3, 3), Mz[2]: (-500, 2e4), sd: (0.1, 10)})
TIME = 1.0


def _is_sym(v):
    return isinstance(v["phi"], RSym)


def _obj(v):
    return object if _is_sym(v) else float


def _lever(v, lever):
    return None if not lever else np.array([v[s.name] for s in L], dtype=_obj(v))


def _with_rates(pva, v, rates):
    if not rates:
        return pva
    return pd.concat([pva, pd.Series([v[s.name] for s in Wr], index=["rate_x", "rate_y", "rate_z"], dtype=_obj(v))])


def _meas(py, kind, v, lever, data_vals):
    M = py.measurements
    cols = dict(Position=["lat", "lon", "alt"], NedVelocity=["VN", "VE", "VD"], BodyVelocity=["VX", "VY", "VZ"])[kind]
    data = pd.DataFrame([list(data_vals)], index=[TIME], columns=cols, dtype=_obj(v))
    sdv = v["sd"]
    if kind == "Position":
        return M.Position(data, sdv, _lever(v, lever))
    if kind == "NedVelocity":
        return M.NedVelocity(data, sdv, _lever(v, lever))
    return M.BodyVelocity(data, sdv)


def _data_vals(kind, v):
    if v.get("_meas_at_prediction") and kind == "Position":
        # linearisation point of the Jacobian clause: measured position = INS position (the residual of
        # compute_lla_difference is affine in the state only up to O(|z|/R))
        return [deg(v["phi"]), deg(v["lam"]), v["h"]]
    if kind == "Position":
        return [deg(v["m1"]), deg(v["m2"]), v["m3"]]
    return [v["m1"], v["m2"], v["m3"]]


def run(ctx):
    py = load()
    EM = py.error_model
    ctx.under_contract("pyins.measurements.Position.__init__/compute_matrices", "pyins.measurements.NedVelocity.__init__/compute_matrices",
                       "pyins.measurements.BodyVelocity.__init__/compute_matrices",
                       "pyins.error_model.InsErrorModel.position_error_jacobian", "pyins.error_model.InsErrorModel.ned_velocity_error_jacobian",
                       "pyins.error_model.InsErrorModel.body_velocity_error_jacobian",
                       "pyins.sim.generate_position_measurements", "pyins.sim.generate_ned_velocity_measurements",
                       "pyins.sim.generate_body_velocity_measurements")
    ctx.trust("scipy Rotation contracts (cross-checked natively)", "pandas membership / .loc on a concrete index (executed)",
              "correct_pva as the definition of the error convention (its own contract: C05)", "spec/frames.py")
    ctx.assume("Taylor's theorem for 'H is the derivative of the residual'", "|pitch| <= 85 deg")

    ctx.guard(_absent, ctx, py)
    ctx.guard(_history, ctx, py)

    for kind in ("Position", "NedVelocity", "BodyVelocity"):
        for wa in (True, False):
            for lever in ((True, False) if kind != "BodyVelocity" else (False,)):
                for rates in ((True, False) if kind == "NedVelocity" else (False,)):
                    ctx.guard(_one, ctx, py, kind, wa, lever, rates)
    ctx.guard(_generators, ctx, py)

    # frame of the modules under contract (no state kept between calls, arguments left alone): same analysis as C19
    from props import C19 as _C19
    ctx.guard(_C19.frame_obligations, ctx, py, "C06", {'error_model', 'measurements', 'transform', 'util'})


# -----------------------------------------------------------------------------------------------
def _absent(ctx, py):
    """`None` iff the time is absent.  The real compute_matrices runs on a table stand-in whose membership test
    (`time in data.index`) is an uninterpreted decision and whose row lookup (`data.loc[time, ...]`) is only defined for a
    time the path has found present: on every path, absent => None, present => a (z, H, R) triple, and no row is read
    at a time whose presence was not established.  Plus native witnesses of both branches (large stamps included)."""
    from pvx.sym import explore, decide
    M = py.measurements
    COLS_OF = dict(Position=["lat", "lon", "alt"], NedVelocity=["VN", "VE", "VD"], BodyVelocity=["VX", "VY", "VZ"])
    tq = sp.Symbol("t_query", real=True)
    present_f = sp.Function("stamp_present")
    label_fails, label_evals, t_label = [], 0, time.time()
    for cls in (M.Position, M.NedVelocity, M.BodyVelocity):
        t0 = time.time()
        cols = COLS_OF[cls.__name__]

        def scenario():
            log = dict(asked=[], reads=[], unknown=[])

            def key_of(t):
                return sp.sympify(t.e if hasattr(t, "e") else t)

            class Index:
                def __contains__(self_, t):
                    k = key_of(t)
                    d = decide(sp.Eq(present_f(k), 1))
                    log["asked"].append((k, d))
                    return d

                def __getattr__(self_, name):
                    log["unknown"].append("data.index.%s" % name)
                    raise AttributeError(name)

            class Loc:
                def __getitem__(self_, k):
                    t, want = (k[0], k[1]) if isinstance(k, tuple) else (k, cols)
                    kk = key_of(t)
                    log["reads"].append((kk, any(a == kk and d for a, d in log["asked"])))
                    want = [want] if isinstance(want, str) else list(want)
                    return pd.Series([RSym(sp.Symbol("m_%s" % c, real=True)) for c in want], index=want, dtype=object)

            class Table:
                index = Index()
                loc = Loc()
                columns = pd.Index(cols)

                def __getitem__(self_, k):          # column selection in the constructor: the same table
                    if isinstance(k, list) and all(c in cols for c in k):
                        return self_
                    log["unknown"].append("data[%r]" % (k,))
                    raise AttributeError("data[%r]" % (k,))

                def __getattr__(self_, name):
                    log["unknown"].append("data.%s" % name)
                    raise AttributeError(name)
            with rdomain(py):
                v = {s_.name: RSym(s_) for s_ in ST}
                pva = make_pva(v)
                em = py.error_model.InsErrorModel(True)
                m = cls(Table(), RSym(sp.Symbol("sd", positive=True))) if cls is M.BodyVelocity else cls(Table(), RSym(sp.Symbol("sd", positive=True)), None)
                try:
                    res = m.compute_matrices(RSym(tq), pva, em)
                except AttributeError as exc:
                    return dict(log=log, error=repr(exc))
            return dict(log=log, none=res is None, triple=isinstance(res, tuple) and len(res) == 3)
        bad = []
        engine = None
        try:
            runs = explore(scenario, max_paths=16, on_budget="stop")
        except Exception as exc:          # the table is used through an interface the stand-in does not offer
            runs = []
            engine = repr(exc)[:300]
        seen_none = seen_triple = False
        for pa, r in runs:
            if "error" in r:
                engine = "table used through an interface the stand-in does not offer: %s %s" % (r["error"], r["log"]["unknown"])
                continue
            asked = [d for k, d in r["log"]["asked"] if k == tq]
            if not asked:
                bad.append("a path never asks whether the queried time is in the table")
                continue
            if any(not known for _, known in r["log"]["reads"]):
                bad.append("a row is read at a time the path has not found present")
            if not all(asked) and not r["none"]:
                bad.append("time absent but the result is not None")
            if all(asked) and not r["triple"]:
                bad.append("time present but the result is not a (z, H, R) triple")
            seen_none = seen_none or r["none"]
            seen_triple = seen_triple or r["triple"]
        if engine is None and not (seen_none and seen_triple):
            bad.append("both outcomes must be reachable (None seen: %s, triple seen: %s)" % (seen_none, seen_triple))
        # native witnesses of both branches
        data = pd.DataFrame(np.ones((2, 3)), index=[1.0, 2.0], columns=cols)
        m = cls(data, 1.0)
        pva = pd.Series([50.0, 30.0, 10.0, 1.0, 2.0, 0.1, 1.0, 2.0, 3.0], index=NAMES)
        em = py.error_model.InsErrorModel()
        w_abs = [m.compute_matrices(t, pva, em) is None for t in (0.5, 1.5, 3.0, float("nan"), 1.0 + 1e-9, 2.0 - 1e-12)]
        w_pre = [m.compute_matrices(t, pva, em) is not None for t in (1.0, 2.0)]
        # large time stamps (GPS time of week): a tolerance relative to the stamp must not accept absent times
        big = cls(pd.DataFrame(np.ones((3, 3)), index=[345600.0, 345601.0, 345602.0], columns=data.columns), 1.0)
        w_abs += [big.compute_matrices(t, pva, em) is None for t in (345600.5, 345601.0001, 345599.0, 345602.9)]
        w_pre += [big.compute_matrices(t, pva, em) is not None for t in (345600.0, 345602.0)]
        # tables are labelled data: rows need not be in time order (two logs concatenated, newest first); duplicates aside, a
        # present stamp is present wherever its row is stored
        for order in ([3.0, 1.0, 2.0, 5.0, 4.0], [5.0, 4.0, 3.0, 2.0, 1.0], [2.0, 3.0, 1.0, 4.0, 5.0]):
            uns = cls(pd.DataFrame(np.arange(15.0).reshape(5, 3) + 1.0, index=order, columns=data.columns), 1.0)
            w_pre += [uns.compute_matrices(t, pva, em) is not None for t in (1.0, 2.0, 3.0, 4.0, 5.0)]
            w_abs += [uns.compute_matrices(t, pva, em) is None for t in (0.5, 2.5, 6.0)]
            # ... and the residual at a present stamp is computed from THE ROW LABELLED with that stamp: the same rows stored in
            # time order give bit-identical (z, H, R)
            try:
                rows = np.array([[55.0 + 1e-4 * k, 37.0 - 2e-4 * k, 100.0 + 3.0 * k] if cls is M.Position else [1.0 + k, -2.0 - 0.5 * k, 0.25 * k]
                                 for k in range(5)])
                tab = pd.DataFrame(rows, index=order, columns=data.columns)
                pva_l = pd.Series([55.0, 37.0, 100.0, 3.0, -4.0, 0.5, 1.0, -2.0, 30.0], index=NAMES)
                m_uns, m_srt = cls(tab.copy(), 1.0), cls(tab.sort_index(), 1.0)
                for t in (1.0, 2.0, 3.0, 4.0, 5.0):
                    label_evals += 1
                    r_u, r_s = m_uns.compute_matrices(t, pva_l, em), m_srt.compute_matrices(t, pva_l, em)
                    if r_u is None or r_s is None or not all(np.array_equal(a_, b_) for a_, b_ in zip(r_u, r_s)):
                        label_fails.append(dict(sensor=cls.__name__, rows_stored_in_order=order, time=t,
                                                z_rows_as_stored=None if r_u is None else [float(x) for x in r_u[0]],
                                                z_rows_in_time_order=None if r_s is None else [float(x) for x in r_s[0]]))
            except Exception as exc:
                label_evals += 1
                label_fails.append(dict(sensor=cls.__name__, rows_stored_in_order=order, error=repr(exc)[:200]))
        ok = not bad and all(w_abs) and all(w_pre)
        if ok and engine is not None:
            ok = None                      # undecided: the symbolic part could not run and the witnesses found nothing
            bad.append("not executable on the table stand-in: " + engine)
        ctx.ob("C06.%s.absent" % cls.__name__, "c", ok, "symbolic-execution(membership as an uninterpreted decision)+native-witness", time.time() - t0,
               "%d paths: absent => None, present => (z, H, R), rows read only at a time found present" % len(runs) if ok
               else ("; ".join(bad)[:500] or "native witnesses: absent times -> None %s, present times -> matrices %s" % (w_abs, w_pre)),
               cex=None if ok else dict(paths=bad, absent=w_abs, present=w_pre),
               native=None if ok else dict(reproduced=not (all(w_abs) and all(w_pre)), absent_times_return_None=w_abs, present_times_return_matrices=w_pre))
    ctx.standin("C06.rt.row_by_label", "3 sensor classes x 3 storage orders of a 5-row table (shuffled, newest first, two logs appended) x 5 stamps: (z, H, R) at a "
                "stamp bit-identical to the same rows stored in time order (the residual is taken from the row LABELLED with the stamp)",
                label_evals, label_fails, time_s=time.time() - t_label)




def _history(ctx, py):
    """The error model handed to compute_matrices is ONE object for every sensor of a filter run: (z, H, R) of a call must
    not depend on which sensor / lever-arm configuration was evaluated on the same model before (ordered pairs of
    configurations, every path, all cell values)."""
    from pvx.claims import history_independent
    cfgs = [("Position", True), ("Position", False), ("NedVelocity", True), ("NedVelocity", False), ("BodyVelocity", False)]
    for wa in (True, False):
        em = py.error_model.InsErrorModel(wa)
        syms = ST + list(Mz) + [sd] + list(L) + list(Wr)

        def make(kind, lever):
            def code(v):
                pva = _with_rates(make_pva(v), v, True)
                m = _meas(py, kind, v, lever, _data_vals(kind, v))
                z, H, R = m.compute_matrices(TIME, pva, em)
                return [z, H, R]
            return code
        pairs = [(a, b) for a in cfgs for b in cfgs if a != b]
        if ctx.tier == "quick":
            pairs = [(a, b) for a, b in pairs if a[0] == b[0] or (a[1] and not b[1])]
        for a, b in pairs:
            history_independent(ctx, "C06.%s.%s%s.after.%s%s" % ("3d" if wa else "2d", b[0], ".lever" if b[1] else "", a[0], ".lever" if a[1] else ""),
                                syms, make(*b), BOX, cos_nonneg=COSNN, py=py, before=make(*a), tol=1e-10)


def _run_cm(py, kind, v, wa, lever, rates, pva=None):
    em = py.error_model.InsErrorModel(wa)
    pva = make_pva(v) if pva is None else pva
    pva = _with_rates(pva, v, rates)
    m = _meas(py, kind, v, lever, _data_vals(kind, v))
    return m.compute_matrices(TIME, pva, em), em


def _one(ctx, py, kind, wa, lever, rates):
    tag = "%s.%s.%s%s" % (kind, "3d" if wa else "2d", "lever" if lever else "nolever", ".rates" if rates else "")
    n = 9 if wa else 7
    k_rows = 3 if (wa or kind == "BodyVelocity") else 2
    syms = ST + list(Mz) + [sd] + (list(L) if lever else []) + (list(Wr) if rates else [])

    # ---- residual structure: predicted - measured ------------------------------------------------
    def z_code(v):
        (z, H, R), em = _run_cm(py, kind, v, wa, lever, rates)
        return z

    def z_spec(v):
        C = frames.attitude(v["r"], v["p"], v["hd"])
        Vv = sp.Matrix([v["VN"], v["VE"], v["VD"]])
        lv = sp.Matrix([v[s.name] for s in L]) if lever else sp.zeros(3, 1)
        if kind == "Position":
            pm, hm = (v["phi"] + v["m1"]) / 2, (v["h"] + v["m3"]) / 2
            M_h, N_h, _ = wgs84.principal_radii(pm, hm)
            rp = N_h * sp.sqrt(1 - sp.sin(pm) ** 2)
            z = sp.Matrix([(v["phi"] - v["m1"]) * M_h, (v["lam"] - v["m2"]) * rp, -(v["h"] - v["m3"])]) + C * lv
        elif kind == "NedVelocity":
            z = Vv - sp.Matrix([v["m1"], v["m2"], v["m3"]])
            if lever and rates:
                z = z + C * sp.Matrix([v[s.name] for s in Wr]).cross(lv)
        else:
            z = C.T * Vv - sp.Matrix([v["m1"], v["m2"], v["m3"]])
        return list(z)[:k_rows]
    eq_spec(ctx, "C06.%s.residual" % tag, syms, z_code, z_spec, BOX, py=py, cos_nonneg=COSNN, tol=1e-7)

    # ---- shapes and R ---------------------------------------------------------------------------------
    from pvx import paths as _paths
    from pvx.claims import const_point as _const_point

    def _shapes_run():
        with rdomain(py):
            (z, H, R), em = _run_cm(py, kind, {s.name: RSym(s) for s in syms}, wa, lever, rates)
        return z, H, R
    sruns = _paths.explore_claim(_shapes_run)          # value-dependent branches of the code: every path an input can take
    for ks, (sconds, (z, H, R)) in enumerate(sruns):
        if sconds and not _paths.witnesses(sconds, syms, full_domain(py, BOX), _const_point(py), ctx.seed, field.DEFAULT_BOX):
            continue
        sfx = ".path%d" % ks if len(sruns) > 1 else ""
        Hm = np.asarray(H, dtype=object)
        Rm = np.asarray(R, dtype=object)
        ok_shape = len(z) == k_rows and Hm.shape == (k_rows, n) and Rm.shape == (k_rows, k_rows)
        ctx.ob("C06.%s.shapes%s" % (tag, sfx), "c", ok_shape, "symbolic-execution", 0.0,
               "len(z)=%d, H %s, R %s; expected %d, (%d, %d)" % (len(z), Hm.shape, Rm.shape, k_rows, k_rows, n))
        okR = ok_shape and all(sp.simplify(sp.sympify(unwrap(Rm[i, j])) - (sd ** 2 if i == j else 0)) == 0
                               for i in range(k_rows) for j in range(k_rows))
        ctx.ob("C06.%s.R_is_sd2_identity%s" % (tag, sfx), "a", bool(okR), "symbolic-execution", 0.0, "R = sd^2 * I_%d" % k_rows)

    # ---- H is the Jacobian of z w.r.t. the error state ----------------------------------------------------
    xs = list(X9[:n])

    def z_of_displaced(v):
        em = py.error_model.InsErrorModel(wa)
        sym = _is_sym(v)
        x = np.array([v[s.name] for s in xs], dtype=object if sym else float) * (-v["eps"])
        ins = em.correct_pva(make_pva(v), x)          # the state whose correction by +eps*x is `pva` (to first order)
        (z, H, R), _ = _run_cm(py, kind, dict(v, _meas_at_prediction=True), wa, lever, rates, pva=ins)
        return z

    def Hx(v):
        with rdomain(py):
            vv = {k_: RSym(val) for k_, val in v.items()}
            vv["_meas_at_prediction"] = True
            (z, H, R), _ = _run_cm(py, kind, vv, wa, lever, rates)
        Hs = sp.Matrix(k_rows, n, flat(H))
        pred = Hs * sp.Matrix([v[s.name] for s in xs])
        return [[0, pred[i]] for i in range(k_rows)]
    taylor_spec(ctx, "C06.%s.H_is_jacobian" % tag, syms + xs, eps, z_of_displaced, Hx, 1, BOX, py=py, cos_nonneg=COSNN,
                orders=[1], crosscheck=False, fd_step=1e-4)


# -----------------------------------------------------------------------------------------------
class _Rng:
    """check_random_state stub: draws are symbols (unit-variance i.i.d., only their identity matters)."""

    def __init__(self, names):
        self.names = names

    def randn(self, *shape):
        a = np.empty(int(np.prod(shape)), dtype=object)
        for i in range(a.size):
            a[i] = RSym(self.names[i])
        return a.reshape(shape)


def _generators(ctx, py):
    SIM = py.sim
    xi = sp.symbols("xi1:4", real=True)
    sig = sp.Symbol("sigma", real=True)
    t0 = time.time()
    box = dict(BOX)
    box.update({s: (-2, 2) for s in xi})
    for kind, gen in (("Position", SIM.generate_position_measurements), ("NedVelocity", SIM.generate_ned_velocity_measurements),
                      ("BodyVelocity", SIM.generate_body_velocity_measurements)):
        for wa in (True, False):
            tag = "%s.%s" % (kind, "3d" if wa else "2d")
            k_rows = 3 if (wa or kind == "BodyVelocity") else 2
            with rdomain(py, extra=[(SIM, dict(check_random_state=lambda rng: _Rng(xi)))]):
                v = {s.name: RSym(s) for s in ST}
                pva = make_pva(v)
                traj = pva.to_frame().T
                traj.index = [TIME]
                data = gen(traj, RSym(sig), 0)
                cls = getattr(py.measurements, kind)
                m = cls(data, RSym(sd))
                ret = m.compute_matrices(TIME, pva, py.error_model.InsErrorModel(wa))
            z = flat(ret[0])
            ok_cols = list(data.columns) == dict(Position=["lat", "lon", "alt"], NedVelocity=["VN", "VE", "VD"], BodyVelocity=["VX", "VY", "VZ"])[kind]
            ctx.ob("C06.generator.%s.schema" % tag, "c", ok_cols and list(data.index) == [TIME], "symbolic-execution", 0.0, "columns and index of generated data")
            for i in range(k_rows):
                c0 = z[i].subs(sig, 0)
                c1 = sp.diff(z[i], sig).subs(sig, 0)
                ctx.from_verdict("C06.generator.%s.zero_residual_at_truth[%d]" % (tag, i), "a",
                                 field.check_zero(c0, domain=full_domain(py, box), seed=ctx.seed, cos_nonneg=COSNN), None)
                ctx.from_verdict("C06.generator.%s.injected_error_gives_minus_e[%d]" % (tag, i), "b",
                                 field.check_zero(c1 + xi[i], domain=full_domain(py, box), seed=ctx.seed, cos_nonneg=COSNN), None)
                if kind != "Position":
                    ctx.from_verdict("C06.generator.%s.exactly_minus_e[%d]" % (tag, i), "a",
                                     field.check_zero(z[i] + sig * xi[i], domain=full_domain(py, box), seed=ctx.seed, cos_nonneg=COSNN), None)


def replay(obligation, cex):
    from pvx.harness import Ctx
    ctx = Ctx("C06", "quick", 0, "props.C06")
    run(ctx)
    o = next((o for o in ctx.obs if o.name == obligation), None)
    return dict(reproduced=bool(o and o.status == "failed" and (o.native or {}).get("reproduced", True)),
                obligation=obligation, status=o.status if o else "absent", native_replay=o.native if o else None)
