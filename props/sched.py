"""Shared machinery of C09 / C10 / C12: Z-domain world, contract stubs of everything the filter
loops call, loop-head hooks (invariant / variant / per-iteration log obligations), concretisation of
counter-models and the native run-time harness (replay driver and bounded stand-in)."""
import itertools
import math
import os
import time

import numpy as np
import pandas as pd
import z3

from pvx.zdomain import (ZCtx, ZSym, _z, zmin, zmax, zdecide, Opaque, OPAQUE, Stop, ObligationFailed, zctx)
from pvx.sym import Concretization

INT, REAL = z3.IntSort(), z3.RealSort()
NAMES = ["lat", "lon", "alt", "VN", "VE", "VD", "roll", "pitch", "heading"]
INC = ["dt", "theta_x", "theta_y", "theta_z", "dv_x", "dv_y", "dv_z"]


# =============================================================================================
# symbolic world
# =============================================================================================
class World:
    def __init__(self, c, n_sensors):
        self.c = c
        self.n_sensors = n_sensors
        self.N = z3.Int("N")
        self.T = z3.Function("T", INT, REAL)          # increment / trajectory-row times, strictly increasing
        self.DT = z3.Function("DT", INT, REAL)        # the table's dt column
        self.t0 = z3.Real("t0")
        self.step = z3.Real("time_step")
        self.K = z3.Int("K")
        self.M = z3.Function("M", INT, REAL)          # clipped, sorted, unique measurement times
        self.In = z3.Function("In", INT, REAL, z3.BoolSort())   # stamp tau belongs to sensor s
        c.assume(self.N >= 1, "increments table non-empty")
        c.assume(self.step > 0, "positive time_step")
        c.assume(self.K >= 0, "")
        self.log = []          # (event, payload)
        self.clip = None

    def Tt(self, i):
        """T(i) with sortedness instantiated"""
        self.c.mono_touch("T", self.T, i)
        return self.T(i)

    def Mt(self, k):
        self.c.mono_touch("M", self.M, k)
        return self.M(k)


# =============================================================================================
# stubs
# =============================================================================================
class PvaStub(Opaque):
    def __init__(self, name):
        object.__setattr__(self, "_name", name)

    @property
    def name(self):
        return self._name


class SensorIndex:
    """index of one sensor's table, possibly restricted by a boolean mask on the stamps"""

    def __init__(self, sid, lo=None, hi=None):
        self.sid, self.lo, self.hi = sid, lo, hi

    def _copy(self, **kw):
        # np.unique / np.sort of ONE table's stamps: says nothing about the union of several tables (a stamp shared by two
        # tables is still there twice after the tables are joined)
        return SensorIndex(self.sid, self.lo, self.hi)

    def __ge__(self, o): return Mask([("ge", _z(o))])
    def __gt__(self, o): return Mask([("gt", _z(o))])
    def __le__(self, o): return Mask([("le", _z(o))])
    def __lt__(self, o): return Mask([("lt", _z(o))])


class DataStub(Opaque):
    def __init__(self, sid, lo=None, hi=None):
        object.__setattr__(self, "_sid", sid)
        object.__setattr__(self, "_lo", lo)
        object.__setattr__(self, "_hi", hi)

    @property
    def index(self):
        return SensorIndex(self._sid, self._lo, self._hi)

    def __getitem__(self, k):
        if not isinstance(k, Mask):
            return OPAQUE
        lo, hi = self._lo, self._hi
        for kind, v in k.parts:
            if kind in ("ge", "gt"):
                lo = (kind, v)
            else:
                hi = (kind, v)
        return DataStub(self._sid, lo, hi)


class MeasStub:
    """Measurement model by its contract (C06): compute_matrices returns None iff the time is absent."""
    sid = 0

    def __init__(self, world):
        self.__dict__.update(world=world, data=DataStub(self.sid), calls=[], writes=[])

    def __setattr__(self, k, v):
        """frame: the caller's measurement objects are inputs; a store on one by the code under test is recorded"""
        if k != "calls":
            self.writes.append(k)
        self.__dict__[k] = v

    def compute_matrices(self, time_, pva, error_model):
        w = self.world
        t = _z(time_)
        present = zdecide(z3.And(z3.Not(t.inf), w.In(self.sid, t.v)))
        w.log.append(("compute_matrices", (self.sid, t, present)))
        self.calls.append((t, present))
        return (OPAQUE, OPAQUE, OPAQUE) if present else None


class SensorA(MeasStub):
    sid = 0


class SensorB(MeasStub):
    sid = 1


class KTok(Opaque):
    """a value returned by kalman.correct (posterior mean / covariance / innovation of call k): opaque payload with identity"""

    def __init__(self, kind, k):
        object.__setattr__(self, "kind", kind)
        object.__setattr__(self, "k", k)


class KalmanStub(Opaque):
    """the kalman module during a scheduling proof: correct() by its data-flow contract"""

    def __init__(self):
        object.__setattr__(self, "calls", [])

    def correct(self, x, P, z, H, R):
        k = len(self.calls)
        out = (KTok("x", k), KTok("P", k), KTok("innovation", k))
        self.calls.append(dict(x=x, P=P, out=out))
        return out


def kalman_threading(c, kal):
    """several measurements at one stamp are processed SEQUENTIALLY: the prior of each correction is the posterior of the
    previous one (mean and covariance objects returned by the previous call)"""
    for k in range(1, len(kal.calls)):
        prev = kal.calls[k - 1]["out"]
        cur = kal.calls[k]
        c.prove("loop.kalman.sequential", z3.BoolVal(cur["x"] is prev[0] and cur["P"] is prev[1]),
                "correction %d of one stamp starts from the posterior mean and covariance of correction %d (mean: %s, covariance: %s)"
                % (k, k - 1, "threaded" if cur["x"] is prev[0] else "NOT the previous posterior", "threaded" if cur["P"] is prev[1] else "NOT the previous posterior"))
    if len(kal.calls) >= 2:
        c.prove("guard.kalman.sequential_exercised", z3.BoolVal(True), "a path with two corrections at one stamp exists")


class EmptyArr:
    pass


class BagCut:
    """np.searchsorted(sorted_times, v, side): number of elements < v (left) or <= v (right)"""

    def __init__(self, v, side):
        self.v, self.side = v, side


class Mask:
    def __init__(self, parts):
        self.parts = parts

    def __and__(self, o):
        return Mask(self.parts + o.parts)


class Bag:
    """the array of measurement times on its way through the prologue"""

    def __init__(self, world, sensors, unique=False, sorted_=False, lo=None, hi=None, sentinel=False):
        self.w, self.sensors, self.unique, self.sorted, self.lo, self.hi, self.sentinel = world, sensors, unique, sorted_, lo, hi, sentinel

    def _copy(self, **kw):
        d = dict(sensors=self.sensors, unique=self.unique, sorted_=self.sorted, lo=self.lo, hi=self.hi, sentinel=self.sentinel)
        d.update(kw)
        return Bag(self.w, **d)

    def __ge__(self, o): return Mask([("ge", _z(o))])
    def __gt__(self, o): return Mask([("gt", _z(o))])
    def __le__(self, o): return Mask([("le", _z(o))])
    def __lt__(self, o): return Mask([("lt", _z(o))])

    def __getitem__(self, k):
        w = self.w
        if isinstance(k, slice) and (isinstance(k.start, BagCut) or isinstance(k.stop, BagCut)):
            lo, hi = self.lo, self.hi
            if isinstance(k.start, BagCut):
                # elements from position `count(< v)` (left) keep tau >= v; from `count(<= v)` (right) keep tau > v
                lo = ("ge" if k.start.side == "left" else "gt", k.start.v)
            if isinstance(k.stop, BagCut):
                hi = ("lt" if k.stop.side == "left" else "le", k.stop.v)
            return self._copy(lo=lo, hi=hi)
        if isinstance(k, Mask):
            lo, hi = self.lo, self.hi
            for kind, v in k.parts:
                if kind in ("ge", "gt"):
                    lo = (kind, v)
                else:
                    hi = (kind, v)
            return self._copy(lo=lo, hi=hi)
        k = _z(k)
        c = w.c
        c.prove("prologue.M.sorted_unique", z3.BoolVal(bool(self.sorted and self.unique)),
                "measurement_times is indexed as a strictly increasing array (np.unique/np.sort applied: unique=%s sorted=%s)" % (self.unique, self.sorted))
        c.prove("M.index_in_range", z3.And(k.v >= 0, k.v <= w.K if self.sentinel else k.v < w.K),
                "measurement_times[%s] (sentinel appended: %s)" % (k.v, self.sentinel), concretize=w.concretize)
        val = w.Mt(k.v)
        # contract of the clip: every finite element lies within the mask bounds
        if self.lo is not None:
            c.assume(z3.Implies(k.v < w.K, val >= self.lo[1].v if self.lo[0] == "ge" else val > self.lo[1].v), "clip lower")
        if self.hi is not None:
            c.assume(z3.Implies(k.v < w.K, val <= self.hi[1].v if self.hi[0] == "le" else val < self.hi[1].v), "clip upper")
        if not self.sensors:
            c.assume(w.K == 0, "no sensors: no measurement times")
        # every element of the union belongs to at least one sensor
        if self.sensors:
            c.assume(z3.Implies(k.v < w.K, z3.Or(*[w.In(s, val) for s in self.sensors])), "element of the union")
        return ZSym(val, z3.simplify(k.v >= w.K) if self.sentinel else z3.BoolVal(False))


class ZNp:
    """`np` of the filter module during a scheduling proof: the few calls that carry scheduling
    information are contract stubs; everything else is an opaque payload."""
    inf = float("inf")
    nan = float("nan")

    def __init__(self, world):
        self.w = world

    def __getattr__(self, name):
        return OPAQUE

    def empty(self, n, *a, **k):
        return EmptyArr() if n == 0 else OPAQUE

    def array(self, x, *a, **k):
        return EmptyArr() if isinstance(x, (list, tuple)) and len(x) == 0 else OPAQUE

    def zeros(self, n, *a, **k):
        return EmptyArr() if n == 0 else OPAQUE

    def asarray(self, x, *a, **k):
        if isinstance(x, (SensorIndex, Bag, EmptyArr, TimeIndex)):
            return x
        return OPAQUE

    def hstack(self, seq):
        seq = list(seq)
        c = self.w.c
        ok = c.prove("prologue.hstack_nonempty", z3.BoolVal(len(seq) >= 1),
                     "np.hstack needs at least one array (numpy raises ValueError otherwise); got %d" % len(seq),
                     concretize=lambda c_, f: dict(measurements="None or []"))
        if not ok:
            raise ObligationFailed("np.hstack([]) raises")
        if any(not isinstance(x, (SensorIndex, EmptyArr)) for x in seq):
            raise Concretization("hstack of unknown objects %r" % (seq,))
        idx = [x for x in seq if isinstance(x, SensorIndex)]

        def same(a, b):
            return (a is None and b is None) or (a is not None and b is not None and a[0] == b[0] and z3.eq(a[1].v, b[1].v))
        if idx and not all(same(x.lo, idx[0].lo) and same(x.hi, idx[0].hi) for x in idx):
            raise Concretization("sensor tables clipped to different spans before the union")
        return Bag(self.w, [x.sid for x in idx], lo=idx[0].lo if idx else None, hi=idx[0].hi if idx else None)

    def concatenate(self, seq, *a, **k):
        return self.hstack(seq)

    def unique(self, x):
        return x._copy(unique=True, sorted_=True)

    def sort(self, x, *a, **k):
        return x._copy(sorted_=True)

    def append(self, x, v):
        if isinstance(x, Bag):
            ok = isinstance(v, float) and v == float("inf")
            self.w.c.prove("prologue.sentinel_is_inf", z3.BoolVal(ok), "np.append(measurement_times, %r)" % (v,))
            return x._copy(sentinel=True)
        return OPAQUE

    def searchsorted(self, a, v, side="left", sorter=None):
        w = self.w
        if isinstance(a, Bag):
            # position(s) in the sorted measurement array: cut points that a later slice turns into clip bounds
            w.c.prove("prologue.M.sorted_before_searchsorted", z3.BoolVal(bool(a.sorted)), "np.searchsorted needs a sorted array")
            vs = list(v) if isinstance(v, (list, tuple)) else [v]
            cuts = [BagCut(_z(x), side) for x in vs]
            return cuts if isinstance(v, (list, tuple)) else cuts[0]
        if not isinstance(a, TimeIndex):
            raise Concretization("searchsorted on %r" % (a,))
        v = _z(v)
        c = w.c
        c.prove("searchsorted.finite_value", z3.Not(v.inf), "searchsorted value is finite")
        k = c.new_int("ss")
        c.assume(z3.And(k >= 0, k <= w.N), "searchsorted range")
        if side == "right":
            c.assume(z3.Implies(k > 0, w.Tt(k - 1) <= v.v), "searchsorted right: a[k-1] <= v")
            c.assume(z3.Implies(k < w.N, w.Tt(k) > v.v), "searchsorted right: a[k] > v")
        else:
            c.assume(z3.Implies(k > 0, w.Tt(k - 1) < v.v), "searchsorted left: a[k-1] < v")
            c.assume(z3.Implies(k < w.N, w.Tt(k) >= v.v), "searchsorted left: a[k] >= v")
        w.log.append(("searchsorted", (side, v)))
        return ZSym(k)

    def nextafter(self, a, b):
        return NextAfter(_z(a), _z(b))


class NextAfter:
    def __init__(self, a, b):
        self.a, self.b = a, b


class IndexNe:
    def __init__(self, equal):
        self.equal = equal

    def any(self):
        return not self.equal


class TimeIndex:
    """index of the increments table (feedback) / of the trajectories (feedforward): T(0..N)"""

    def __init__(self, world, tag="T"):
        self.w = world
        self.tag = tag

    def __getitem__(self, k):
        w = self.w
        if isinstance(k, int) and k < 0:
            return ZSym(w.Tt(w.N + k))
        k = _z(k)
        w.c.prove("%s.index_in_range" % self.tag, z3.And(k.v >= 0, k.v < w.N), "index[%s]" % k.v, concretize=w.concretize)
        return ZSym(w.Tt(k.v))

    def __ne__(self, o):
        return IndexNe(isinstance(o, TimeIndex) and o.w is self.w)

    def __eq__(self, o):
        return isinstance(o, TimeIndex) and o.w is self.w

    __hash__ = None


class IncRow(Opaque):
    def __init__(self, world, i):
        object.__setattr__(self, "_w", world)
        object.__setattr__(self, "_i", i)

    @property
    def name(self):
        return ZSym(self._w.Tt(self._i))

    def __getitem__(self, k):
        if isinstance(k, str) and k == "dt":
            w = self._w
            w.c.assume(w.DT(self._i) > 0, "Increments schema: dt > 0")
            return ZSym(w.DT(self._i))
        return OPAQUE

    def _scaled(self, o):
        if isinstance(o, ZSym):
            return ScaledRow(self._w, self._i, o)
        return OPAQUE
    __mul__ = __rmul__ = _scaled


class ScaledRow(Opaque):
    """scalar * (row of the increments table): pandas keeps the row's label; every cell, dt included, is scaled"""

    def __init__(self, world, i, factor):
        object.__setattr__(self, "_w", world)
        object.__setattr__(self, "_i", i)
        object.__setattr__(self, "_f", factor)

    @property
    def name(self):
        return ZSym(self._w.Tt(self._i))

    def __getitem__(self, k):
        if isinstance(k, str) and k == "dt":
            w = self._w
            w.c.assume(w.DT(self._i) > 0, "Increments schema: dt > 0")
            return self._f * ZSym(w.DT(self._i))
        return OPAQUE


class IncBatch(Opaque):
    def __init__(self, world, a, b, kind="iloc"):
        object.__setattr__(self, "_w", world)
        object.__setattr__(self, "a", a)
        object.__setattr__(self, "b", b)
        object.__setattr__(self, "kind", kind)


class ILoc:
    def __init__(self, world):
        self.w = world

    def __getitem__(self, k):
        w = self.w
        if isinstance(k, slice):
            a = _z(0 if k.start is None else k.start)
            b = ZSym(w.N) if k.stop is None else _z(k.stop)
            return IncBatch(w, a, b)
        if isinstance(k, int) and k < 0:
            return IncRow(w, w.N + k)
        k = _z(k)
        w.c.prove("increments.iloc_in_range", z3.And(k.v >= 0, k.v < w.N), "increments.iloc[%s]" % k.v, concretize=w.concretize)
        return IncRow(w, k.v)


class Loc:
    """label slicing of the increments table in the feedforward filter"""

    def __init__(self, world):
        self.w = world

    def __getitem__(self, k):
        if isinstance(k, slice):
            return IncBatch(self.w, k.start, k.stop, kind="loc")
        return OPAQUE


class IncTable(Opaque):
    def __init__(self, world):
        object.__setattr__(self, "_w", world)

    @property
    def index(self):
        return TimeIndex(self._w, "increments")

    @property
    def iloc(self):
        return ILoc(self._w)

    @property
    def loc(self):
        return Loc(self._w)


class TrajLoc:
    def __init__(self, world, owner):
        self.w, self.owner = world, owner

    def __getitem__(self, k):
        self.w.log.append(("trajectory.loc", k))
        return OPAQUE


class TrajStub(Opaque):
    def __init__(self, world):
        object.__setattr__(self, "_w", world)

    @property
    def loc(self):
        return TrajLoc(self._w, self)


class IntegratorStub:
    """strapdown.Integrator by its contract (C02): integrate(batch) appends exactly batch.index,
    get_time() is the last index, predict / get_pva / set_pva do not move time."""

    def __init__(self, world, pva, with_altitude):
        self.w = world
        self.ii = z3.IntVal(0)
        self.trajectory = TrajStub(world)
        t0 = _z(pva.name)
        world.c.assume(t0.v == world.t0, "start time = initial_pva.name")
        self.calls = []

    def time_term(self):
        w = self.w
        return z3.If(self.ii <= 0, w.t0, w.Tt(self.ii - 1))

    def get_time(self):
        return ZSym(self.time_term())

    def get_pva(self):
        return OPAQUE

    def set_pva(self, pva):
        self.calls.append(("set_pva",))

    def predict(self, increment):
        """contract (C02.*.predict.label): the predicted state is labelled like the increment row it was given"""
        self.calls.append(("predict",))
        if isinstance(increment, (IncRow, ScaledRow)):
            return PvaStub(increment.name)
        return OPAQUE

    def integrate(self, batch):
        w = self.w
        c = w.c
        if not isinstance(batch, IncBatch) or batch.kind != "iloc":
            raise Concretization("integrate() of something that is not an iloc slice of the increments table")
        a, b = batch.a, batch.b
        c.prove("loop.batch.contiguous", a.v == self.ii, "integrate(increments.iloc[a:b]) with a == number of increments applied so far (a=%s)" % a.v,
                concretize=w.concretize)
        c.prove("loop.batch.within_table", z3.And(a.v <= b.v, b.v <= w.N), "a <= b <= N", concretize=w.concretize)
        self.calls.append(("integrate", a.v, b.v))
        self.ii = b.v
        return OPAQUE


class ModelStub(Opaque):
    def __init__(self, world, tag):
        object.__setattr__(self, "_w", world)
        object.__setattr__(self, "_tag", tag)
        object.__setattr__(self, "events", [])

    def reset_estimates(self):
        self.events.append("reset")

    def update_estimates(self, x):
        self.events.append("update")

    def get_estimates(self):
        self.events.append("get")
        return OPAQUE

    def correct_increments(self, dt, inc):
        self.events.append("correct_increments")
        return OPAQUE

    def output_matrix(self, readings=None):
        self.events.append("output_matrix")
        return OPAQUE


class BunchCapture:
    def __init__(self):
        self.kw = None

    def Bunch(self, **kw):
        self.kw = kw
        return kw


def zlen(x):
    if isinstance(x, TrajIndexed):
        return ZSym(x.w.N)
    if isinstance(x, (Opaque,)):
        return OPAQUE
    return len(x)


class TrajIndexed(Opaque):
    """trajectory table of the feedforward filter: len N, index T, iloc rows opaque"""

    def __init__(self, world):
        object.__setattr__(self, "w", world)

    @property
    def index(self):
        return TimeIndex(self.w, "trajectory")

    @property
    def iloc(self):
        return TrajILoc(self.w)

    @property
    def loc(self):
        return TrajLoc(self.w, self)


class TrajILoc:
    def __init__(self, world):
        self.w = world

    def __getitem__(self, k):
        k = _z(k)
        self.w.c.prove("trajectory.iloc_in_range", z3.And(k.v >= 0, k.v < self.w.N), "trajectory.iloc[%s]" % k.v, concretize=self.w.concretize)
        return OPAQUE


# =============================================================================================
# concretisation of counter-models (minimised, ties perturbed apart) for native replay
# =============================================================================================
def concretize_world(w, extra, bound_max=6):
    c = w.c
    attempts = [(B, nat) for nat in (True, False) for B in range(1, bound_max + 1)]
    for B, natural in attempts:
        c.s.push()
        c.s.add(extra)
        c.s.add(w.N <= B, w.K <= B)
        if natural:
            # prefer schedules with everyday magnitudes (seconds, 10 Hz-ish): easier to read and numerically benign
            c.s.add(w.t0 == 0, w.step >= z3.RealVal("0.02"), w.step <= 5)
            c.s.add(w.T(0) - w.t0 >= z3.RealVal("0.05"), w.T(0) - w.t0 <= 1)
            for i in range(B):
                c.s.add(w.T(i + 1) - w.T(i) >= z3.RealVal("0.05"), w.T(i + 1) - w.T(i) <= 1)
                c.s.add(z3.Implies(i + 1 < w.K, w.M(i + 1) - w.M(i) >= z3.RealVal("0.01")))
            for k in range(B + 1):
                c.s.add(z3.Implies(k < w.K, z3.And(w.M(k) >= -2, w.M(k) <= 10)))
        for i in range(B):
            c.s.add(w.T(i) < w.T(i + 1))
            c.s.add(w.M(i) < w.M(i + 1))
        for k in range(B + 1):
            c.s.add(z3.Implies(k < w.K, z3.Or(*[w.In(s, w.M(k)) for s in range(max(1, w.n_sensors))])))
        r = c.s.check()
        if r == z3.sat:
            m = c.s.model()

            def val(e):
                v = m.eval(e, model_completion=True)
                if z3.is_int_value(v):
                    return v.as_long()
                try:
                    return float(v.as_fraction())
                except Exception:
                    return float(v.as_decimal(12).rstrip("?"))
            N, K = val(w.N), val(w.K)
            out = dict(N=N, K=K, t0=val(w.t0), time_step=val(w.step), T=[val(w.T(i)) for i in range(N)],
                       M=[val(w.M(k)) for k in range(K)],
                       sensors=[[bool(z3.is_true(m.eval(w.In(s, w.M(k)), model_completion=True))) for k in range(K)] for s in range(w.n_sensors)])
            c.s.pop()
            return out
        c.s.pop()
    return dict(note="no model within N,K <= %d" % bound_max)


World.concretize = lambda self, c_, f: concretize_world(self, f)


# =============================================================================================
# native harness: real filters on a concrete schedule (replay driver and bounded stand-in)
# =============================================================================================
def _pva0(t0):
    return pd.Series([55.0, 37.0, 150.0, 0.0, 0.0, 0.0, 0.5, -0.3, 40.0], index=NAMES, name=float(t0))


def _increments(py, t0, T):
    T = np.asarray(T, dtype=float)
    dt = np.diff(np.concatenate([[t0], T]))
    C = py.transform.mat_from_rph([0.5, -0.3, 40.0])
    g = py.earth.gravity(55.0, 150.0)
    f_b = C.T @ np.array([0, 0, -g])
    w_b = C.T @ py.earth.rate_n(55.0)
    data = np.hstack([dt[:, None], dt[:, None] * w_b, dt[:, None] * f_b])
    return pd.DataFrame(data, index=pd.Index(T), columns=INC)


def _sensors(py, sensor_times, kinds=("Position", "NedVelocity", "BodyVelocity")):
    M = py.measurements
    out = []
    for k, times in enumerate(sensor_times):
        times = np.asarray(times, dtype=float)
        n = len(times)
        kind = kinds[k % len(kinds)]
        # how the caller happens to STORE a table is not part of the contract: whole-second stamps come as an integer index,
        # every other table has its rows newest-first (labelled data; the filters sort the union of stamps themselves)
        if n and np.all(times == np.round(times)):
            times = times.astype(np.int64)
        # (which storage a table gets depends on its position AND on the number of sensors, so that a single table, the first of
        # several and tables sharing one index all occur in time order, newest-first and as two logs appended in the wrong order)
        mode = (k + 2 * len(sensor_times)) % 3
        if mode == 1 and n > 1:
            times = times[::-1]
        elif mode == 2 and n > 1:
            times = np.concatenate([times[n // 2:], times[:n // 2]])
        if kind == "Position":
            d = pd.DataFrame(dict(lat=55.0 + 1e-6 * np.arange(n), lon=37.0 + 0.0 * times, alt=150.0 + 0.0 * times), index=times)
            out.append(M.Position(d, 3.0))
        elif kind == "NedVelocity":
            d = pd.DataFrame(dict(VN=0.01 + 0.0 * times, VE=0.0 * times, VD=0.0 * times), index=times)
            out.append(M.NedVelocity(d, 0.3))
        else:
            d = pd.DataFrame(dict(VX=0.0 * times, VY=0.01 + 0.0 * times, VZ=0.0 * times), index=times)
            out.append(M.BodyVelocity(d, 0.3))
    return out


class _Budget(Exception):
    pass


def _with_budget(fn, max_events=400000):
    """Run fn() under a line-event budget (termination guard: the expected defect is non-termination)."""
    import sys
    count = [0]

    def tracer(frame, event, arg):
        if event == "line" and frame.f_code.co_name in ("run_feedback_filter", "run_feedforward_filter"):
            count[0] += 1
            if count[0] > max_events:
                raise _Budget()
        return tracer
    old = sys.gettrace()
    sys.settrace(tracer)
    try:
        return fn()
    finally:
        sys.settrace(old)


def feedback_native(py, t0, T, sensor_times, time_step, measurements_mode="list", with_altitude=True):
    """Run the real feedback filter and evaluate the observable statement of C09.  Returns dict(ok, what, ...)."""
    inc = _increments(py, t0, T)
    pva = _pva0(t0)
    if measurements_mode == "none":
        meas = None
        sensor_times = []
    elif measurements_mode == "empty":
        meas = []
        sensor_times = []
    else:
        meas = _sensors(py, sensor_times)
    try:
        res = _with_budget(lambda: py.filters.run_feedback_filter(pva, 5.0, 0.5, 1.0, 2.0, inc, measurements=meas,
                                                                  time_step=time_step, with_altitude=with_altitude),
                           max_events=250 * (len(T) + sum(len(s) for s in sensor_times) + 8))
    except _Budget:
        return dict(ok=False, what="does not terminate (line budget exhausted)")
    except Exception as exc:
        return dict(ok=False, what="raised %r" % (exc,))
    bad = []
    if list(res.trajectory.index) != [float(t0)] + [float(x) for x in T]:
        bad.append("trajectory index is not t0 followed by every increment time once (len %d vs %d)" % (len(res.trajectory), len(T) + 1))
    end = float(T[-1])
    names = {}
    for s, times in zip(meas or [], sensor_times):
        nm = s.__class__.__name__
        names.setdefault(nm, set()).update(float(x) for x in times)
    for nm, times in names.items():
        want = sorted(x for x in times if float(t0) <= x < end)
        got = [float(x) for x in res.innovations[nm].index]
        if got != want:
            bad.append("innovations[%s] stamped %s, expected %s" % (nm, got[:8], want[:8]))
        if not np.all(np.isfinite(res.innovations[nm].values.astype(float))):
            bad.append("non-finite innovations")
    traj_times = set(res.trajectory.index)
    for nm in ("trajectory_sd", "gyro_sd", "accel_sd", "gyro", "accel"):
        tab = res[nm]
        idx = list(tab.index)
        if any(b <= a for a, b in zip(idx, idx[1:])):
            bad.append("%s index not strictly increasing" % nm)
        if not set(idx) <= traj_times:
            bad.append("%s index not a subset of trajectory times" % nm)
        if tab.size and not np.all(np.isfinite(tab.values.astype(float))):
            bad.append("%s not finite" % nm)
    if not np.all(np.isfinite(res.trajectory.values.astype(float))):
        bad.append("trajectory not finite")
    return dict(ok=not bad, what="; ".join(bad))


def feedforward_native(py, T, sensor_times, time_step, measurements_mode="list", with_increments=False, with_altitude=True):
    T = np.asarray(T, dtype=float)
    n = len(T)
    traj = pd.DataFrame(np.tile(_pva0(0).values, (n, 1)), index=pd.Index(T), columns=NAMES)
    traj["lat"] += 1e-7 * np.arange(n)
    nominal = traj.copy()
    if measurements_mode == "none":
        meas, sensor_times = None, []
    elif measurements_mode == "empty":
        meas, sensor_times = [], []
    else:
        meas = _sensors(py, sensor_times)
    inc = _increments(py, T[0] - (T[1] - T[0]), T) if with_increments else None
    try:
        res = _with_budget(lambda: py.filters.run_feedforward_filter(nominal, traj, 5.0, 0.5, 1.0, 2.0, measurements=meas, increments=inc,
                                                                     time_step=time_step, with_altitude=with_altitude),
                           max_events=250 * (n + sum(len(s) for s in sensor_times) + 8))
    except _Budget:
        return dict(ok=False, what="does not terminate (line budget exhausted)")
    except Exception as exc:
        return dict(ok=False, what="raised %r" % (exc,))
    bad = []
    idx = [float(x) for x in res.trajectory.index]
    if not idx or idx[0] != float(T[0]):
        bad.append("result does not start at the first input time")
    if any(b <= a for a, b in zip(idx, idx[1:])):
        bad.append("result index not strictly increasing: %s" % idx[:8])
    if not set(idx) <= set(float(x) for x in T):
        bad.append("result index not a subset of the input times")
    for a, b in zip(idx, idx[1:]):
        i = int(np.searchsorted(T, a))
        gap = T[i + 1] - T[i] if i + 1 < n else 0.0
        if b - a > max(time_step, gap) * (1 + 1e-12) + 1e-12:
            bad.append("step %g -> %g exceeds max(time_step, local gap)" % (a, b))
            break
    end = float(T[-1])
    names = {}
    for s, times in zip(meas or [], sensor_times):
        names.setdefault(s.__class__.__name__, set()).update(float(x) for x in times)
    for nm, times in names.items():
        want = len([x for x in times if float(T[0]) <= x < end])
        got = len(res.innovations[nm])
        if got != want:
            bad.append("%d innovation rows for %s, expected %d (each in-span sample used exactly once)" % (got, nm, want))
    for nm in ("trajectory", "trajectory_sd", "gyro", "gyro_sd", "accel", "accel_sd"):
        tab = res[nm]
        if list(tab.index) != list(res.trajectory.index):
            bad.append("%s index differs from trajectory index" % nm)
        if tab.size and not np.all(np.isfinite(tab.values.astype(float))):
            bad.append("%s not finite" % nm)
    return dict(ok=not bad, what="; ".join(bad))


def neighbourhood(cex):
    """Schedules near a counter-model: the model itself, then with one or two extra stamps inserted into
    IMU intervals that already hold a stamp, then with the last interval populated (the counter-model is a
    state of the inductive step; the failing run may need one more stamp to reach it)."""
    T, M, t0 = list(cex.get("T", [])), list(cex.get("M", [])), cex.get("t0", 0.0)
    if not T:
        return
    yield M
    edges = [t0] + T
    for extra in (1, 2):
        for i in range(len(edges) - 1):
            lo, hi = edges[i], edges[i + 1]
            inside = [m for m in M if lo < m < hi]
            base = inside[-1] if inside else lo
            add = [base + (hi - base) * (j + 1) / (extra + 2) for j in range(extra)]
            yield sorted(set(M + add))
            if inside:
                add2 = [lo + (inside[0] - lo) * (j + 1) / (extra + 2) for j in range(extra)]
                yield sorted(set(M + add2))


# =============================================================================================
# role discovery: the loop-head hooks identify the variables they talk about by their ROLE
# (type of the value / how the loop uses them in the AST), not by their spelling, so that renaming a
# local of the filter is not an alarm
# =============================================================================================
def discover_roles(func, L):
    import ast as _ast
    import inspect as _inspect
    import textwrap as _tw
    fn = _ast.parse(_tw.dedent(_inspect.getsource(func))).body[0]
    loop = next(s_ for s_ in fn.body if isinstance(s_, _ast.While))
    roles = {}
    bags = [k for k, v in L.items() if isinstance(v, Bag)]
    roles["bag"] = bags[0] if len(bags) == 1 else None
    ints = [k for k, v in L.items() if isinstance(v, IntegratorStub)]
    roles["integrator"] = ints[0] if len(ints) == 1 else None
    stored = {n.id for n in _ast.walk(loop) if isinstance(n, _ast.Name) and isinstance(n.ctx, _ast.Store)}
    # measurement cursor: the name that indexes the measurement-times array inside the loop
    mi = {n.slice.id for n in _ast.walk(loop) if isinstance(n, _ast.Subscript) and isinstance(n.value, _ast.Name) and n.value.id == roles["bag"]
          and isinstance(n.slice, _ast.Name)}
    roles["mi"] = next(iter(mi)) if len(mi) == 1 else None
    # increments cursor: the name used as `<table>.iloc[NAME]` / `<table>.iloc[NAME:...]` on the increments argument
    params = [a.arg for a in fn.args.args]
    tables = [k for k, v in L.items() if isinstance(v, IncTable) and k in params]
    xi = set()
    for n in _ast.walk(loop):
        if isinstance(n, _ast.Subscript) and isinstance(n.value, _ast.Attribute) and n.value.attr == "iloc" and isinstance(n.value.value, _ast.Name) and n.value.value.id in tables:
            sl = n.slice
            if isinstance(sl, _ast.Name):
                xi.add(sl.id)
            elif isinstance(sl, _ast.Slice) and isinstance(sl.lower, _ast.Name):
                xi.add(sl.lower.id)
    xi &= stored
    roles["xi"] = next(iter(xi)) if len(xi) == 1 else None
    # row cursor of the feedforward filter: stored in the loop and read by the loop test
    test_names = {n.id for n in _ast.walk(loop.test) if isinstance(n, _ast.Name)}
    idx = (test_names & stored)
    roles["index"] = next(iter(idx)) if len(idx) == 1 else None
    # result lists (empty python lists at loop entry that the loop appends to) and innovation logs (dicts of lists)
    appended = {n.func.value.id for n in _ast.walk(loop) if isinstance(n, _ast.Call) and isinstance(n.func, _ast.Attribute) and n.func.attr == "append"
                and isinstance(n.func.value, _ast.Name)}
    roles["lists"] = sorted(k for k, v in L.items() if isinstance(v, list) and k in appended)
    roles["dicts"] = sorted(k for k, v in L.items() if isinstance(v, dict) and v and all(isinstance(x, list) for x in v.values()))
    # names that receive the Kalman correction / are the propagated payload (x, P)
    cor = [n for n in _ast.walk(loop) if isinstance(n, _ast.Assign) and isinstance(n.value, _ast.Call) and _ast.unparse(n.value.func).endswith("correct")
           and isinstance(n.targets[0], _ast.Tuple)]
    roles["correct_targets"] = [e.id for e in cor[0].targets[0].elts if isinstance(e, _ast.Name)] if cor else []
    roles["models"] = [k for k in params if isinstance(L.get(k), ModelStub)]
    roles["stored"] = stored
    return roles


def times_list(L, roles):
    """(name of the list holding result TIMES, names of the payload lists): told apart by what was appended"""
    tl, others = None, []
    for k in roles["lists"]:
        if any(isinstance(x, ZSym) for x in L[k]):
            tl = k
        else:
            others.append(k)
    return tl, others


def innovation_logs(L, roles):
    """(dict holding the row times, dict holding the rows)"""
    td = od = None
    for k in roles["dicts"]:
        if any(isinstance(x, ZSym) for lst in L[k].values() for x in lst):
            td = k
        else:
            od = k if od is None else od
    return td, od


# =============================================================================================
# the REAL (uncut) feedback filter in the trace domain: real Integrator, real error model, real sensor models and
# _correct_increments on symbolic cells; only the covariance algebra (kalman.correct, process matrices, sd) is stubbed
# by uninterpreted values.  Schedules are concrete, every payload value is symbolic.
# =============================================================================================
def feedback_filter_trace(py, times, stamps_by_sensor, time_step, with_altitude, gyro_cfg=None, accel_cfg=None, t0=0.0):
    from pvx.loader import tdomain
    from pvx.sym import T as _T, TSym
    from props.C02 import t_pva, t_increments
    F, IS = py.filters, py.inertial_sensor
    counter = [0]

    def tvec(tag, n):
        counter[0] += 1
        a = np.empty(n, dtype=object)
        for i in range(n):
            a[i] = _T("%s%d_%d" % (tag, counter[0], i))
        return a

    def tmat(tag, n, m):
        counter[0] += 1
        a = np.empty((n, m), dtype=object)
        for i in range(n):
            for j in range(m):
                a[i, j] = _T("%s%d_%d_%d" % (tag, counter[0], i, j))
        return a

    class Sensor:
        def __init__(self, stamps, k):
            self.data = pd.DataFrame(np.zeros((len(stamps), 3)), index=np.asarray(stamps, dtype=float), columns=["c0", "c1", "c2"])
            self.k = k

        def compute_matrices(self, time_, pva, error_model):
            if time_ not in self.data.index:
                return None
            rows = 2 if not error_model.with_altitude else 3
            return tvec("z", rows), tmat("H", rows, error_model.n_states), tmat("R", rows, rows)
    sensors = [type("Sensor%d" % k, (Sensor,), {})(st, k) for k, st in enumerate(stamps_by_sensor)]

    class KS:
        @staticmethod
        def correct(x, P, z, H, R):
            n = len(x)
            return tvec("x", n), tmat("P", n, n), tvec("inn", len(z))
    with tdomain(py, extra=[(F, dict(kalman=KS,
                                      _initialize_covariance=lambda pva, a, b, c, d, em, gm, am: tmat("P0", em.n_states + gm.n_states + am.n_states, em.n_states + gm.n_states + am.n_states),
                                      _compute_error_propagation_matrices=lambda pva, g, a, dt, em, gm, am: (tmat("Phi", em.n_states + gm.n_states + am.n_states, em.n_states + gm.n_states + am.n_states),
                                                                                                          tmat("Qd", em.n_states + gm.n_states + am.n_states, em.n_states + gm.n_states + am.n_states)),
                                      _compute_sd=lambda *a, **k: (None, None, None),
                                      _interpolate_pva=lambda a, b, al: a))]):
        gm = IS.EstimationModel(**(gyro_cfg or {}))
        am = IS.EstimationModel(**(accel_cfg or {}))
        pva = t_pva("p", t0=t0)
        inc = t_increments(list(times))
        # the dt column must be usable as a divisor of times: concrete differences
        dts = np.diff(np.concatenate([[t0], np.asarray(times, dtype=float)]))
        inc = inc.copy()
        for k in range(len(times)):
            inc.iloc[k, 0] = _T(float(dts[k]))
        res = F.run_feedback_filter(pva, 1.0, 1.0, 1.0, 1.0, inc, gm, am, measurements=sensors, time_step=time_step, with_altitude=with_altitude)
        ref = py.strapdown.Integrator(pva, with_altitude).integrate(inc)
    return res, pva, inc, ref
