"""C09 -- Feedback filter handles every IMU/measurement interleaving exactly once."""
import time

import numpy as np
import z3

from pvx import loopcut
from pvx.harness import Ob
from pvx.npproxy import alias_update as _alias_update
from pvx.loader import load
from pvx.sym import Concretization
from pvx.zdomain import ZCtx, ZSym, _z, zmin, zmax, OPAQUE, Stop, ObligationFailed, explore_z, zctx
from props import sched
from props.sched import World

MANIFEST = dict(
    category="proof",
    technique="the real run_feedback_filter with its while loop cut at the AST level (invariant, lexicographic variant, exit postcondition), executed on z3 terms for cursors and time stamps with every callee replaced by its contract stub (Integrator per C02, measurement models per C06, searchsorted / unique / hstack per numpy's documented behaviour), numeric payloads opaque; verification conditions discharged by z3 over all table lengths and all real time stamps; counter-models minimised and replayed on the real filter; helper functions of the module share the stub namespace (extraction / inlining of helpers does not change the proof); Measurement objects are frame-tracked; corrections at one stamp are threaded sequentially (data-flow contract of kalman.correct); Bounded stand-ins shared by all properties (labelled bounded, never counted as proved): the argument-form battery of the modules under contract (batches of 1 and 1200 rows, integer-typed values, labels / columns in other orders, extra labels); where the frame analysis finds state that outlives a call (a cache, a memo) the frame obligation becomes a dynamic purity contract against pristine process states; names the proofs replace by scipy contracts are checked to be bound to the library's functions (else a differential test).",
    text="For ALL increment tables (any length N>=1, any strictly increasing stamps, so irregular sampling and gaps), all measurement time sets of up to two sensor objects with arbitrary real stamps (coincident with IMU samples, between them, several in one interval, shared, outside the span), every positive time_step and measurements in {None, [], one sensor, two sensors}: the prologue's stub preconditions hold (np.hstack gets at least one array), the clipped, sorted, unique measurement array with its +inf sentinel is what the loop indexes; the loop invariant (cursor == increments applied, 0<=mi<=K, no stamp overdue: time <= M[mi], result times strictly increasing integrator times) holds initially and is preserved by every path through the real loop body; every batch handed to the integrator is the contiguous slice starting at the increments applied so far (so the trajectory index is the initial time followed by every increment time once, by the integrator contract); each processed stamp is evaluated by every sensor exactly once at its own time, innovation rows are appended exactly for the sensors that hold it and stamped with it; the lexicographic measure (N-ii, K-mi) decreases (termination); all divisors are non-zero; at exit ii = N and every stamp before the end has been processed. 'Finite outputs' beyond division by zero is not modelled (floats as reals) and is only exercised by the run-time stand-in.",
    note="A1, A6; contracts assumed for callees: Integrator (C02), compute_matrices None iff time absent (C06), _correct_increments preserves the row/batch identity, np.unique/sort/boolean mask/append/searchsorted per numpy documentation; Increments schema dt>0, stamps strictly increasing, initial time < first stamp; the step from per-iteration obligations to the whole-run statement is induction over iterations (paper argument); overflow / Cholesky breakdown not modelled.",
)
LEVEL = "proof"
LEVEL_NOTE = MANIFEST["text"]


class Hooks:
    Stop = Stop
    Break = loopcut.Break

    def __init__(self, w, sensors, names, func=None):
        self.func = func
        self.w = w
        self.sensors = sensors
        self.names = names
        self.reached = []
        self.pre = None

    # ---- invariant pieces ---------------------------------------------------------------------
    def _time(self, ii):
        w = self.w
        return z3.If(ii <= 0, w.t0, w.Tt(ii - 1))

    def _inv_parts(self, ii, mi, xi, tr_empty, tr_last):
        w = self.w
        return [("ii_range", z3.And(ii >= 0, ii <= w.N)),
                ("cursor_equals_progress", xi == ii),
                ("mi_range", z3.And(mi >= 0, mi <= w.K)),
                ("nothing_overdue", z3.Or(mi >= w.K, self._time(ii) <= w.Mt(mi))),
                ("times_result_increasing", z3.Or(tr_empty, tr_last < self._time(ii)))]

    def _state(self, L):
        r = self.roles
        return (L[r["integrator"]].ii, _z(L[r["mi"]]).v, _z(L[r["xi"]]).v)

    def head(self, which, L):
        w, c = self.w, self.w.c
        self.reached.append(which)
        if which == "init":
            self.roles = sched.discover_roles(self.func, L)
            r = self.roles
            okr = all(r[k] for k in ("bag", "integrator", "mi", "xi")) and len(r["lists"]) >= 1 and len(r["models"]) == 2
            c.prove("guard.roles_identified", z3.BoolVal(bool(okr)),
                    "loop variables identified by role: measurement array %s, its cursor %s, increments cursor %s, integrator %s, result lists %s, logs %s"
                    % (r["bag"], r["mi"], r["xi"], r["integrator"], r["lists"], r["dicts"]))
            if not okr:
                raise Concretization("cannot identify the loop variables by role: %s" % {k: r[k] for k in ("bag", "integrator", "mi", "xi", "lists")})
            self.bag = L[r["bag"]]
            ok_bag = isinstance(self.bag, sched.Bag) and self.bag.sentinel and self.bag.sorted and self.bag.unique
            c.prove("prologue.M.shape", z3.BoolVal(bool(ok_bag)), "measurement_times is sorted, unique, clipped and ends with the +inf sentinel")
            if isinstance(self.bag, sched.Bag):
                lo_ok = self.bag.lo is not None and self.bag.lo[0] == "ge"
                hi_ok = self.bag.hi is not None and self.bag.hi[0] == "le"
                c.prove("prologue.M.clipped_to_span", z3.Or(z3.BoolVal(not self.bag.sensors),   # no sensor, no stamp: nothing to clip
                                                            z3.And(z3.BoolVal(lo_ok and hi_ok),
                                                                   self.bag.lo[1].v == w.t0 if lo_ok else z3.BoolVal(False),
                                                                   self.bag.hi[1].v == w.Tt(w.N - 1) if hi_ok else z3.BoolVal(False))),
                        "clip keeps start_time <= tau <= end_time with start_time = initial_pva.name, end_time = increments.index[-1]")
                if not self.bag.sensors:
                    c.assume(w.K == 0, "no sensors")
                if self.bag.lo is not None:
                    c.assume(z3.Implies(w.K > 0, w.Mt(z3.IntVal(0)) >= w.t0), "clip lower (first element)")
            ii, mi, xi = self._state(L)
            for nm, f in self._inv_parts(ii, mi, xi, z3.BoolVal(True), z3.RealVal(0)):
                c.prove("loop.init." + nm, f, "invariant holds on loop entry", concretize=w.concretize)
            models = tuple(L[k] for k in self.roles["models"])
            for m in models:
                ok = isinstance(m, sched.ModelStub) and m.events[:1] == ["reset"]
                c.prove("prologue.models_reset_before_use", z3.BoolVal(bool(ok)), "reset_estimates is the first call on each sensor model (%s)" % (getattr(m, "events", None),))
        elif which == "preserved":
            ii0, mi0, xi0, time0, tr_empty, tr_last = self.pre
            ii1, mi1, xi1 = self._state(L)
            tl, oth = sched.times_list(L, self.roles)
            A = L[tl] if tl else []
            others = [len(L[k]) for k in self.roles["lists"] if k != tl]
            c.prove("loop.results.same_length", z3.BoolVal(all(o == len(A) for o in others) and len(A) <= 1),
                    "times/gyro/accel/P results appended together, at most once per iteration (%d, %s)" % (len(A), others))
            if len(A) >= 1:
                a = _z(A[0])
                c.prove("loop.results.time_is_integrator_time", a.v == time0, "the recorded time is the integrator time at the start of the iteration", concretize=w.concretize)
                tr_empty1, tr_last1 = z3.BoolVal(False), a.v
            else:
                tr_empty1, tr_last1 = tr_empty, tr_last
            for nm, f in self._inv_parts(ii1, mi1, xi1, tr_empty1, tr_last1):
                c.prove("loop.preserved." + nm, f, "invariant re-established after the body", concretize=w.concretize)
            c.prove("loop.variant", z3.Or(ii1 > ii0, z3.And(ii1 == ii0, mi1 > mi0)),
                    "lexicographic measure (N - increments applied, K - stamps processed) decreases", concretize=w.concretize)
            # measurement processing of this iteration
            calls = [(s, t, p) for s in self.sensors for (t, p) in s.calls]
            per = [len(s.calls) for s in self.sensors]
            processed = any(per)
            c.prove("loop.measurement.each_sensor_once", z3.BoolVal(all(n_ == 1 for n_ in per) or not processed),
                    "when a stamp is processed every sensor is asked exactly once (%s)" % per)
            for s, t, p in calls:
                c.prove("loop.measurement.own_time", z3.And(z3.Not(t.inf), t.v == w.Mt(mi0)),
                        "compute_matrices is evaluated at the stamp M[mi] itself", concretize=w.concretize)
            c.prove("loop.measurement.index_advance", mi1 == mi0 + (1 if processed else 0),
                    "measurement cursor advances by exactly one iff a stamp was processed", concretize=w.concretize)
            if getattr(self, "kalman", None) is not None:
                sched.kalman_threading(c, self.kalman)
            for s in self.sensors:
                nm = s.__class__.__name__
                td, od = sched.innovation_logs(L, self.roles)
                rows_t = L[td][nm] if td else []
                rows = L[od][nm] if od else ([] if not rows_t else None)
                if rows is None:
                    rows = []
                want = [t for (t, p) in s.calls if p]
                # two sensor objects of one class share a log: count over the class
                same_cls = [x for x in self.sensors if x.__class__.__name__ == nm]
                want_cls = [t for x in same_cls for (t, p) in x.calls if p]
                c.prove("loop.innovation.one_row_per_present_sample", z3.BoolVal(len(rows_t) == len(want_cls) and len(rows) == len(want_cls)),
                        "innovation rows appended: %d, samples present: %d" % (len(rows_t), len(want_cls)))
                for r_ in rows_t:
                    r_ = _z(r_)
                    c.prove("loop.innovation.stamped_with_own_time", z3.And(z3.Not(r_.inf), r_.v == w.Mt(mi0)),
                            "the innovation row carries the sample's own time", concretize=w.concretize)
        elif which == "exit":
            ii, mi, xi = self._state(L)
            c.prove("exit.all_increments_applied", ii == w.N, "not (time < end) and Inv  =>  every increment applied", concretize=w.concretize)
            k = c.new_int("k")
            c.prove("exit.every_stamp_before_end_processed",
                    z3.Implies(z3.And(k >= 0, k < w.K, w.Mt(k) < w.Tt(w.N - 1)), k < mi),
                    "every M[k] < end has k < mi", concretize=w.concretize)

    def havoc(self, L):
        w, c = self.w, self.w.c
        ii, mi, xi = c.new_int("ii"), c.new_int("mi"), c.new_int("xi")
        tr_empty, tr_last = z3.Bool("tr_empty!%d" % next(c.fresh)), c.new_real("tr_last")
        for nm, f in self._inv_parts(ii, mi, xi, tr_empty, tr_last):
            c.assume(f, "Inv." + nm)
        r, _ = c.check()
        c.prove("guard.invariant_satisfiable", z3.BoolVal(r == z3.sat), "the assumed invariant is satisfiable (vacuity guard)")
        r = self.roles
        L[r["integrator"]].ii = ii
        L[r["integrator"]].calls = []
        for k in r["lists"]:
            del L[k][:]
        for dn in r["dicts"]:
            for key in L[dn]:
                del L[dn][key][:]
        for s in self.sensors:
            s.calls = []
        if getattr(self, "kalman", None) is not None:
            del self.kalman.calls[:]
        self.pre = (ii, mi, xi, self._time(ii), tr_empty, tr_last)
        out = {r["mi"]: ZSym(mi), r["xi"]: ZSym(xi)}
        for k in r["stored"]:
            if L.get(k) is OPAQUE and k not in out:
                out[k] = OPAQUE          # loop-carried numeric payload stays opaque
        return out


def build(py):
    F = py.filters
    code, info = loopcut.cut(F.run_feedback_filter, 0)
    return code, info


def scenario(py, code, mode, results):
    """One symbolic run of the cut filter for a measurements mode; returns the path's obligations."""
    F = py.filters
    c = ZCtx()
    n_s = dict(none=0, empty=0, one=1, two=2, same_class=2)[mode]
    w = World(c, n_s)
    c.assume(w.t0 < w.Tt(z3.IntVal(0)), "initial time before the first increment stamp")
    if mode == "two":
        sensors = [sched.SensorA(w), sched.SensorB(w)]
    elif mode == "same_class":
        sensors = [sched.SensorA(w), sched.SensorA(w)]
        sensors[1].sid = 1
        sensors[1].data = sched.DataStub(1)
    elif mode == "one":
        sensors = [sched.SensorA(w)]
    else:
        sensors = []
    meas_arg = None if mode == "none" else list(sensors)
    hooks = Hooks(w, sensors, [s.__class__.__name__ for s in sensors], func=F.run_feedback_filter)
    cap = sched.BunchCapture()
    gm, am = sched.ModelStub(w, "gyro"), sched.ModelStub(w, "accel")

    class InertialNS:
        @staticmethod
        def EstimationModel(*a, **k):
            return sched.ModelStub(w, "default")

    class StrapNS:
        @staticmethod
        def Integrator(pva, with_altitude=True):
            return sched.IntegratorStub(w, pva, with_altitude)

    def correct_increments(inc, g, a):
        g.events.append("correct_increments")
        a.events.append("correct_increments")
        return inc
    ns = dict(F.__dict__)
    hooks.kalman = sched.KalmanStub()
    _alias_update(ns, F.__dict__, dict(__pvx=hooks, np=sched.ZNp(w), pd=OPAQUE, kalman=hooks.kalman, transform=OPAQUE, earth=OPAQUE, Rotation=OPAQUE,
              util=cap, strapdown=StrapNS, inertial_sensor=InertialNS, InsErrorModel=lambda wa=True: OPAQUE,
              _correct_increments=correct_increments, _initialize_covariance=lambda *a, **k: OPAQUE,
              _compute_error_propagation_matrices=lambda *a, **k: (OPAQUE, OPAQUE), _compute_sd=lambda *a, **k: (OPAQUE, OPAQUE, OPAQUE),
              _interpolate_pva=lambda *a, **k: OPAQUE, min=zmin, max=zmax, len=sched.zlen))
    fn, _ = loopcut.instantiate(F.run_feedback_filter, code, ns)
    status = "ok"
    try:
        fn(sched.PvaStub(ZSym(w.t0)), OPAQUE, OPAQUE, OPAQUE, OPAQUE, sched.IncTable(w),
           gyro_model=None if mode == "none" else gm, accel_model=None if mode == "none" else am,
           measurements=meas_arg, time_step=ZSym(w.step), with_altitude=True)
        status = "exit"
    except Stop:
        status = "iteration"
    except ObligationFailed:
        status = "obligation-failed"
    if sensors:
        c.prove("frame.measurement_objects_not_written", z3.BoolVal(not any(s_.writes for s_ in sensors)),
                "no attribute of the caller's Measurement objects is stored to (written: %s)" % sorted({k for s_ in sensors for k in s_.writes}))
    if status == "exit":
        kw = cap.kw or {}
        c.prove("epilogue.result_fields", z3.BoolVal(sorted(kw) == sorted(["trajectory", "trajectory_sd", "gyro", "gyro_sd", "accel", "accel_sd", "innovations"])),
                "returned Bunch fields: %s" % sorted(kw))
        locs = [p for (e, p) in w.log if e == "trajectory.loc"]
        c.prove("epilogue.sd_indexed_by_result_times", z3.BoolVal(len(locs) == 1), "sd tables are computed for integrator.trajectory.loc[times_result]")
    return dict(mode=mode, status=status, reached=hooks.reached, obligations=list(c.obligations), solver_time=c.solver_time)


def _scheduling(ctx, py):
    """the cut loop on z3 terms: every mode of the measurements argument, every path"""
    code, info = build(py)
    ctx.notes.append(dict(loop_cut=info))
    t0 = time.time()
    agg = {}
    n_paths = 0
    statuses = []
    for mode in ("none", "empty", "one", "two"):
        results = []
        try:
            paths = explore_z(lambda: scenario(py, code, mode, results), max_paths=400)
        except Concretization as exc:
            ctx.add(Ob("C09.engine.%s" % mode, "guard", "error", "python", 0.0, "construct outside the executable subset: %r" % (exc,)))
            continue
        for pa, res in paths:
            n_paths += 1
            statuses.append(res["status"])
            for (name, st, detail, cex) in res["obligations"]:
                key = name
                cur = agg.get(key)
                rank = dict(proved=0, undecided=1, failed=2)[st]
                if cur is None or rank > cur[0]:
                    agg[key] = (rank, st, detail, cex, mode, 1 if cur is None else cur[5] + 1)
                else:
                    agg[key] = cur[:5] + (cur[5] + 1,)
    ctx.paths += n_paths
    solver_s = time.time() - t0
    ctx.ob("C09.guard.paths", "guard", (n_paths > 0 and "iteration" in statuses and "exit" in statuses) if n_paths > 0 else None, "path-enumeration", 0.0,
           "%d paths; reached: %s" % (n_paths, sorted(set(statuses))))
    for name in sorted(agg):
        rank, st, detail, cex, mode, count = agg[name]
        native = None
        if st == "failed":
            native = _replay(py, name, cex, mode)
        ctx.add(Ob("C09." + name, "c", st, "z3", solver_s / max(1, len(agg)), "%s [%d path instances; measurements=%s]" % (detail, count, mode),
                   cex=cex, native=native))


def run(ctx):
    py = load()
    ctx.under_contract("pyins.filters.run_feedback_filter (prologue, while loop ordinal 0 cut, epilogue)",
                       "contract stubs: strapdown.Integrator.* (C02), Measurement.compute_matrices (C06), filters._correct_increments, kalman.correct, filters._compute_sd, ... (numeric payloads opaque)")
    ctx.trust("z3 (QF_UFLIRA with instantiated sortedness)", "numpy documented behaviour of hstack/unique/sort/boolean mask/append/searchsorted (contract stubs)",
              "Integrator contract (C02), compute_matrices contract (C06)")
    ctx.assume("Increments schema: strictly increasing stamps, dt > 0, initial time < first stamp", "induction over loop iterations (paper argument over the per-iteration obligations)",
               "'finite' beyond division by zero not modelled (A1)")
    ctx.guard(_scheduling, ctx, py)
    from props import helpers
    ctx.guard(helpers.compute_sd, ctx, py, "C09")
    ctx.guard(helpers.correct_increments_schema, ctx, py, "C09")
    ctx.guard(helpers.interpolate_pva, ctx, py, "C09")
    ctx.guard(helpers.numpy_contracts_standin, ctx, py, "C09")
    ctx.guard(_standin, ctx, py)
    ctx.guard(_long_run, ctx, py)

    # "exactly once" rests on the measurement models' contract "None iff the time is absent from the table" (C06), re-established here
    from props import C06 as _C06
    ctx.guard(_C06._absent, ctx, py)
    from props import helpers as _helpers_l
    ctx.guard(_helpers_l.lean_induction, ctx, "C09", ['Pvx.loop_rule', 'Pvx.terminates', 'Pvx.processed_once', 'Pvx.processed_all'])
    # frame of the modules under contract (no state kept between calls, arguments left alone): same analysis as C19
    from props import C19 as _C19
    ctx.guard(_C19.frame_obligations, ctx, py, "C09", {'util', 'filters'})


def _replay(py, name, cex, mode):
    if cex is None:
        return None
    if "measurements" in cex:
        r = sched.feedback_native(py, 0.0, [0.1, 0.2, 0.3], [], 0.1, measurements_mode="none")
        r2 = sched.feedback_native(py, 0.0, [0.1, 0.2, 0.3], [], 0.1, measurements_mode="empty")
        return dict(reproduced=not (r["ok"] and r2["ok"]), measurements_None=r, measurements_empty_list=r2)
    if not isinstance(cex.get("T"), list) or not cex["T"]:
        return dict(reproduced=None, note="no concrete schedule in the counter-model")
    tried = 0
    for Mtimes in sched.neighbourhood(cex):
        tried += 1
        if tried > 60:
            break
        sens = cex.get("sensors") or [[True] * len(cex["M"])]
        st = [[m for m in Mtimes] for _ in range(max(1, len(sens)))][:2]
        if len(st) == 2:
            st[1] = st[1][::2]
        r = sched.feedback_native(py, cex["t0"], cex["T"], st, cex["time_step"])
        if not r["ok"]:
            return dict(reproduced=True, schedule=dict(t0=cex["t0"], increment_times=cex["T"], measurement_times=Mtimes, time_step=cex["time_step"]),
                        observed=r["what"], search="schedule %d in the neighbourhood of the counter-model" % tried)
    return dict(reproduced=False, tried=tried, note="the counter-model is a state of the inductive step; no failing whole run found near it")


def gen_schedules(rng, n):
    out = []
    for k in range(n):
        N = int(rng.randint(1, 26)) if k % 3 else int(rng.randint(1, 4))
        kind = rng.choice(["uniform", "irregular", "gapped"])
        if kind == "uniform":
            d = np.full(N, 0.1)
        elif kind == "irregular":
            d = rng.uniform(0.02, 0.25, N)
        else:
            d = np.full(N, 0.1)
            d[rng.randint(0, N)] = rng.uniform(1.0, 4.0)
        t0 = float(rng.choice([0.0, 2.0, -1.5]))
        T = t0 + np.cumsum(d)
        # every other schedule keeps its stamps as the arbitrary doubles real logs carry (cumulated steps, k * 0.1 products);
        # the others are short decimals
        rnd = (lambda x: np.round(x, 6)) if k % 2 == 0 else (lambda x: x)
        if k % 4 == 3:
            T = t0 + np.arange(1, N + 1) * 0.1 if kind == "uniform" else T
        T = rnd(T)
        sensors = []
        for s in range(int(rng.randint(0, 4))):
            style = rng.choice(["on_samples", "fractional", "clustered", "outside", "mixed"])
            if style == "on_samples":
                ts = list(rng.choice(T, size=min(N, 4), replace=False))
            elif style == "fractional":
                ts = list(rng.uniform(t0, T[-1], 5))
            elif style == "clustered":
                i = rng.randint(0, N)
                lo = t0 if i == 0 else T[i - 1]
                ts = list(lo + (T[i] - lo) * np.array([0.2, 0.45, 0.7, 0.9][:rng.randint(2, 5)]))
            elif style == "outside":
                ts = [t0 - 1.0, T[-1] + 0.5, T[-1], t0]
            else:
                ts = list(rng.uniform(t0 - 0.5, T[-1] + 0.5, 6)) + [float(T[rng.randint(0, N)])]
            sensors.append(sorted(set(float(rnd(x)) for x in ts)))
        if len(sensors) >= 2 and rng.rand() < 0.5:
            sensors[1] = sorted(set(sensors[1] + sensors[0][:2]))        # stamps shared between sensors
        if k % 5 == 4:
            # a whole-second sensor listed FIRST (stored with an integer index) next to fractional-second ones
            t_lo, t_hi = int(np.ceil(t0)), int(np.floor(T[-1]))
            whole = [float(x) for x in range(t_lo, t_hi + 1)]
            frac = sorted(set(float(rnd(x)) for x in rng.uniform(t0, T[-1], 5)))
            sensors = [whole if whole else frac, frac] + sensors[:1]
        step = float(rng.choice([0.03, 0.1, 0.25, 1.0, 2 * (T[-1] - t0)]))
        mode = "list" if sensors else str(rng.choice(["none", "empty"]))
        out.append(dict(t0=t0, T=[float(x) for x in T], sensors=sensors, time_step=step, mode=mode, wa=bool(rng.rand() < 0.7)))
    return out


def _standin(ctx, py):
    t0 = time.time()
    rng = np.random.RandomState(ctx.seed)
    n = 30 if ctx.tier == "quick" else 300
    fails = []
    for s in gen_schedules(rng, n):
        r = sched.feedback_native(py, s["t0"], s["T"], s["sensors"], s["time_step"], s["mode"], s["wa"])
        if not r["ok"]:
            fails.append(dict(schedule=s, observed=r["what"]))
    ctx.standin("C09.rt", "%d seeded schedules (uniform/irregular/gapped IMU of 3..25 increments, 0..3 sensors: on-sample, fractional, clustered 2..4 per interval, shared, out-of-span stamps; time_step 0.03 .. 2x span; measurements None/[]; both altitude modes): observable statement of C09 on the real filter under a line budget" % n,
                n, fails, time_s=time.time() - t0)


def _long_run(ctx, py):
    """Thorough tier only (about a minute): ONE long run -- 4300 increments at 100 Hz, a record at every increment (time_step
    below the sampling interval), position fixes every 2.5 s -- so that whatever a filter keeps per record (history lists, work
    buffers, block-wise summaries) is used well past any small capacity.  Observable statement of C09 on the tables."""
    if ctx.tier == "quick":
        return
    t0 = time.time()
    n = 4300
    T = np.round(0.01 * np.arange(1, n + 1), 10)
    inc = sched._increments(py, 0.0, T)
    pva = sched._pva0(0.0)
    stamps = [float(x) for x in T[249::250][:-1]]
    meas = sched._sensors(py, [stamps])
    fails = []
    try:
        res = py.filters.run_feedback_filter(pva, 5.0, 0.5, 1.0, 2.0, inc, measurements=meas, time_step=0.005)
        if list(res.trajectory.index) != [0.0] + [float(x) for x in T]:
            fails.append(dict(what="trajectory index is not t0 followed by every increment time once"))
        ref = list(res.trajectory_sd.index)
        traj_times = set(res.trajectory.index)
        for nm in ("trajectory_sd", "gyro_sd", "accel_sd", "gyro", "accel"):
            idx = [float(x) for x in res[nm].index]
            if any(b <= a for a, b in zip(idx, idx[1:])):
                fails.append(dict(table=nm, what="index not strictly increasing (%d rows, %d distinct stamps)" % (len(idx), len(set(idx)))))
            if not set(idx) <= traj_times:
                fails.append(dict(table=nm, what="index not a subset of the trajectory times"))
            if idx != [float(x) for x in ref]:
                fails.append(dict(table=nm, what="indexed differently from trajectory_sd"))
            if res[nm].size and not np.all(np.isfinite(res[nm].values.astype(float))):
                fails.append(dict(table=nm, what="not finite"))
        got = [float(x) for x in res.innovations["Position"].index]
        if got != stamps:
            fails.append(dict(what="innovations stamped %s ..., expected %s ..." % (got[:4], stamps[:4])))
    except Exception as exc:
        fails.append(dict(what="raised %r" % (exc,)))
    ctx.standin("C09.rt.long_run", "one run of %d increments at 100 Hz with a record at every increment and %d position fixes: trajectory index, strictly increasing and mutually equal "
                "indices of the five estimate / sd tables, finite values, one innovation row per fix" % (n, len(stamps)), 1, fails, time_s=time.time() - t0)


def replay(obligation, cex):
    py = load()
    return _replay(py, obligation.replace("C09.", "", 1), cex, "two") or dict(reproduced=False)
