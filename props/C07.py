"""C07 -- Kalman correction is the exact Bayesian posterior with whitened innovation."""
import time
from fractions import Fraction

import numpy as np
import z3

from pvx.harness import Ob
from pvx.loader import load
from pvx.npproxy import patched
from pvx.sym import explore, decide, Concretization
from pvx.words import WCtx, W, Dim, identity, ShapeError, is_sum_of_congruences, is_congruence_of, wctx

MANIFEST = dict(
    category="proof",
    technique="the real kalman.correct executed on matrix letters of symbolic dimensions (free algebra with involution); scipy cholesky / cho_solve / solve_triangular replaced by their assumed contracts whose preconditions become obligations; posterior mean, Joseph = posterior = information form decided by rewriting to normal form; symmetric PSD from the syntactic congruence form; frame from object identity; float64 run-time stand-in against a 60-digit reference; Bounded stand-ins shared by all properties (labelled bounded, never counted as proved): the argument-form battery of the modules under contract (batches of 1 and 1200 rows, integer-typed values, labels / columns in other orders, extra labels); where the frame analysis finds state that outlives a call (a cache, a memo) the frame obligation becomes a dynamic purity contract against pristine process states; names the proofs replace by scipy contracts are checked to be bound to the library's functions (else a differential test).",
    text="For ALL dimensions n, m >= 1 (letters with symbolic shapes, conformability checked by z3): every product in correct is conformable; S = H P H^T + R is symmetric positive definite for PSD P and PD R (sum of a congruence and a PD letter), so the Cholesky precondition holds; the returned mean is x + P H^T S^-1 (z - H x); the returned covariance (the Joseph expression as executed) equals P - P H^T S^-1 H P and, for invertible P, the information form (P^-1 + H^T R^-1 H)^-1; it is syntactically a sum of congruences X P X^T + Y R Y^T, hence symmetric PSD, and P minus it is a congruence of S^-1, hence never larger than the prior; the innovation is L^-1 (z - H x) with L the LOWER Cholesky factor of S (the lower flags of the three scipy calls are recorded and must agree); no parameter is overwritten (overwrite flags only on fresh intermediates). Order independence of independent blocks follows from additivity of the information form (lemma). Behaviour under ill-conditioning is floating point and only covered by the bounded stand-in.",
    note="A1 (floats as reals) for the identities; scipy contracts: cholesky(S, lower) requires symmetric PD S and returns L with L L^T = S, cho_solve((L, lower), B) = S^-1 B, solve_triangular(L, b, lower) = L^-1 b; the PSD lemmas (congruence, sum, PSD + PD, Joseph form, prior minus posterior) are proved for all dimensions in lean/Psd.lean (Mathlib; re-checked by lean in the thorough tier); continuity of the update at singular P is an assumed theorem; the float stand-in states its bounds.",
)
LEVEL = "proof"
LEVEL_NOTE = MANIFEST["text"]


class KNp:
    """np of pyins.kalman during a W-domain run"""

    def __init__(self, log):
        self.log = log
        self.linalg = self

    def __getattr__(self, name):
        # any other numpy function of a symbolic matrix is an uninterpreted value: arithmetic absorbs, comparisons fork
        def f(*a, **k):
            return USc("np.%s(...)" % name)
        return f

    def eye(self, n, *a, **k):
        if not isinstance(n, Dim):
            n = Dim(int(n))
        return identity(n)

    def einsum(self, spec, *ops, **k):
        """two-operand matrix products written as einsum ('ik,jk->ij' = A B^T, 'ij,jk->ik' = A B, ...)"""
        spec = spec.replace(" ", "")
        try:
            ins, out = spec.split("->")
            xs, ys = ins.split(",")
        except ValueError:
            raise Concretization("np.einsum(%r) in the W domain" % spec)
        if len(ops) != 2 or not all(isinstance(o, W) for o in ops) or len(xs) != 2 or len(ys) != 2 or len(out) != 2 \
                or len(set(xs)) != 2 or len(set(ys)) != 2:
            raise Concretization("np.einsum(%r) in the W domain" % spec)
        common = [c_ for c_ in xs if c_ in ys and c_ not in out]
        if len(common) != 1:
            raise Concretization("np.einsum(%r) in the W domain" % spec)
        c_ = common[0]
        A, B = ops
        A = A if xs[1] == c_ else A.T
        ra = xs[0] if xs[1] == c_ else xs[1]
        B = B if ys[0] == c_ else B.T
        cb = ys[1] if ys[0] == c_ else ys[0]
        prod = A @ B
        if (ra, cb) == (out[0], out[1]):
            return prod
        if (cb, ra) == (out[0], out[1]):
            return prod.T
        raise Concretization("np.einsum(%r) in the W domain" % spec)

    def dot(self, a, b, *args, **k):
        return a @ b

    def matmul(self, a, b, *args, **k):
        return a @ b

    def transpose(self, a, *args, **k):
        return a.T

    def cumsum(self, seq, *a, **k):
        """running sums of a short list of (symbolic) dimensions, e.g. block boundaries"""
        seq = list(seq)
        if not all(isinstance(x, (Dim, int)) for x in seq):
            return USc("np.cumsum(...)")
        out, tot = [], 0
        for x in seq:
            tot = x + tot
            out.append(tot)

        class _L(list):
            def tolist(self_):
                return list(self_)
        return _L(out)

    identity = eye

    def any(self, a):
        if isinstance(a, W) and a.ast and a.ast[0] == "letter":
            nz = decide(("np.any", a.ast[1]))
            if not nz:
                # on this path the letter is the zero matrix
                wctx().add_rule(a, W({}, a.rows, a.cols))
            return nz
        raise Concretization("np.any of a compound expression")

    def all(self, a):
        raise Concretization("np.all in the W domain")

    def asarray(self, a, *args, **k):
        return a

    def zeros(self, shape, *a, **k):
        from pvx.words import BlockRec
        r, c = shape
        return BlockRec(r if isinstance(r, Dim) else Dim(int(r)), c if isinstance(c, Dim) else Dim(int(c)))

    def zeros_like(self, a, *args, **k):
        self.log.append(("alloc_dtype_from_argument", "zeros_like"))
        shape = k.get("shape", a.shape)
        return self.zeros(shape)

    empty_like = zeros_like

    def norm(self, a, *args, **k):
        return USc("norm")


class USc:
    """uninterpreted real scalar (e.g. a matrix norm): comparisons fork"""

    def __init__(self, name):
        self.name = name

    __array_ufunc__ = None

    def _b(self, o):
        return USc("(%s op %s)" % (self.name, getattr(o, "name", o)))
    __mul__ = __rmul__ = __add__ = __radd__ = __sub__ = __rsub__ = __truediv__ = __rtruediv__ = __pow__ = _b

    def __getattr__(self, name):
        if name.startswith("__"):
            raise AttributeError(name)
        return lambda *a, **k: USc("%s.%s()" % (self.name, name))

    def __getitem__(self, k):
        return USc("%s[...]" % self.name)

    def __neg__(self):
        return USc("-" + self.name)

    def __bool__(self):
        return decide(("truth", self.name))

    def _c(self, o):
        return decide(("cmp", self.name, str(getattr(o, "name", o))))
    __lt__ = __le__ = __gt__ = __ge__ = _c


def w_len(x):
    if isinstance(x, W):
        return x.rows
    from pvx.words import BlockRec
    if isinstance(x, BlockRec):
        return x.rows
    return len(x)


def setup(c):
    n, m = Dim("n"), Dim("m")
    c.dim_assumptions = [n.v >= 1, m.v >= 1]
    one = Dim(1)
    x = c.letter("x", n, one)
    P = c.letter("P", n, n, symmetric=True)
    z = c.letter("z", m, one)
    H = c.letter("H", m, n)
    R = c.letter("R", m, m, symmetric=True)
    return n, m, x, P, z, H, R


def scipy_stubs(c, log, params):
    st = {}

    def cholesky(S, lower=False, overwrite_a=False, check_finite=True):
        log.append(("cholesky", dict(lower=lower, overwrite_a=overwrite_a, arg_is_param=any(S is p for p in params))))
        st["S"] = S
        sym = S.T.equals(S)
        log.append(("S_symmetric", sym))
        log.append(("S_is_sum_of_congruences_with_PD_term", is_sum_of_congruences(S, {"P", "R"}) and any(t.ast == ("letter", "R") for t in __import__("pvx.words", fromlist=["flatten_sum"]).flatten_sum(S))))
        m = S.rows
        Si = c.letter("Si", m, m, symmetric=True)
        # S^-1 S = I oriented on the longest word of S
        words = sorted(S.terms.items(), key=lambda t: -len(t[0]))
        (lead, lc), rest = words[0], dict(words[1:])
        lead_W = W({lead: 1}, S.rows, S.cols)
        rest_W = W({w: k / lc for w, k in rest.items()}, S.rows, S.cols)
        c.add_rule(Si @ lead_W, (identity(m) - Si @ rest_W) * (Fraction(1) / lc))
        c.add_rule(lead_W @ Si, (identity(m) - rest_W @ Si) * (Fraction(1) / lc))
        L = c.letter("L", m, m)
        Li = c.letter("Li", m, m)
        c.add_rule(Li @ L, identity(m))
        c.add_rule(L @ Li, identity(m))
        c.add_rule(L @ L.T, S)
        st.update(Si=Si, L=L, Li=Li, lower=lower)
        return L

    def cho_solve(c_and_lower, b, overwrite_b=False, check_finite=True):
        Lm, lower = c_and_lower
        log.append(("cho_solve", dict(lower=lower, factor_is_cholesky_result=Lm is st.get("L"), overwrite_b=overwrite_b,
                                      b_is_param=any(b is p for p in params) or bool(b.ast and b.ast[0] == "letter"))))
        return st["Si"] @ b

    def solve_triangular(a, b, trans=0, lower=False, unit_diagonal=False, overwrite_b=False, check_finite=True):
        log.append(("solve_triangular", dict(lower=lower, trans=trans, unit_diagonal=unit_diagonal, a_is_cholesky_result=a is st.get("L"),
                                             overwrite_b=overwrite_b, b_is_param=any(b is p for p in params) or bool(b.ast and b.ast[0] == "letter"))))
        return st["Li"] @ b
    return st, dict(cholesky=cholesky, cho_solve=cho_solve, solve_triangular=solve_triangular)


def run(ctx):
    py = load()
    K = py.kalman
    ctx.under_contract("pyins.kalman.correct")
    ctx.trust("scipy.linalg.cholesky / cho_solve / solve_triangular contracts (assumed; exercised by the float stand-in)", "z3 (conformability)",
              "free-algebra rewriting to normal form (pvx/words.py)")
    ctx.assume("continuity of the Bayes update on the PSD cone (singular P)",
               "additivity of the information form => order independence of independent blocks (lemma over the discharged identity; commutation of the sum: Pvx.information_additive)")
    from props import helpers as _helpers_psd
    ctx.guard(_helpers_psd.lean_psd, ctx, "C07", ['Pvx.congr_psd', 'Pvx.sum_psd', 'Pvx.innovation_cov_pd', 'Pvx.pd_symmetric', 'Pvx.joseph_psd',
                                                   'Pvx.joseph_symmetric', 'Pvx.never_larger', 'Pvx.information_additive'])
    ctx.guard(_helpers_psd.lean_kalman, ctx, "C07", ['Pvx.joseph_eq_short', 'Pvx.gain_is_PHtSinv', 'Pvx.information_form', 'Pvx.gain_form_solves_normal_equations', 'Pvx.information_two_blocks'])
    ctx.guard(_algebra, ctx, py)
    ctx.guard(_standin, ctx, py)

    # frame of the modules under contract (no state kept between calls, arguments left alone): same analysis as C19
    from props import C19 as _C19
    ctx.guard(_C19.frame_obligations, ctx, py, "C07", {'kalman', 'util'})


def _algebra(ctx, py):
    """the real kalman.correct on matrix letters (W domain)"""
    K = py.kalman
    t0 = time.time()

    def body():
        c = WCtx()
        n, m, x, P, z, H, R = setup(c)
        log = []
        st, stubs = scipy_stubs(c, log, (x, P, z, H, R))
        err = None
        try:
            with patched((K, dict(np=KNp(log), len=w_len, **stubs))):
                res = K.correct(x, P, z, H, R)
        except ShapeError as exc:
            return dict(shape_error=str(exc), log=log)
        xp, Pp, inn = res
        Si, Li = st.get("Si"), st.get("Li")
        out = dict(log=log, shape_error=None)
        out["shapes"] = (xp.rows.same(n, c) and xp.cols.same(Dim(1), c) and Pp.rows.same(n, c) and Pp.cols.same(n, c)
                         and inn.rows.same(m, c) and inn.cols.same(Dim(1), c))
        out["mean"] = xp.equals(x + P @ H.T @ Si @ (z - H @ x))
        post = P - P @ H.T @ Si @ H @ P
        out["joseph_is_posterior"] = Pp.equals(post)
        out["congruences"] = is_sum_of_congruences(Pp, {"P", "R"})
        out["never_larger"] = (P - Pp).equals((H @ P).T @ Si @ (H @ P))
        out["symmetric"] = Pp.T.equals(Pp)
        out["innovation"] = inn.equals(Li @ (z - H @ x))
        # information form (invertible P, R)
        Pi = c.letter("Pi", n, n, symmetric=True)
        Ri = c.letter("Ri", m, m, symmetric=True)
        for a_, b_, d_ in ((P, Pi, n), (Pi, P, n), (R, Ri, m), (Ri, R, m)):
            c.add_rule(a_ @ b_, identity(d_))
        out["information_form"] = (Pp @ (Pi + H.T @ Ri @ H)).equals(identity(n)) and ((Pi + H.T @ Ri @ H) @ Pp).equals(identity(n))
        # information form of the mean: (P^-1 + H^T R^-1 H) x+ == P^-1 x + H^T R^-1 z   (both information quantities are ADDITIVE in
        # independent measurement blocks, hence any processing order of independent blocks equals the joint update)
        out["information_mean"] = ((Pi + H.T @ Ri @ H) @ xp).equals(Pi @ x + H.T @ Ri @ z)
        out["Pp_text"] = Pp.show()[:200]
        return out
    paths = explore(body, max_paths=16)
    ctx.paths += len(paths)
    for k, (pa, o) in enumerate(paths):
        sfx = "" if len(paths) == 1 else ".path%d" % k
        pc = "" if len(paths) == 1 else " | path: %s" % [(c_, d_) for c_, d_ in pa.conds]
        nat = (lambda: _native_quick(py)) if True else None
        if o.get("shape_error"):
            ctx.ob("C07.shapes" + sfx, "c", False, "z3(conformability)", time.time() - t0, o["shape_error"] + pc, cex=dict(error=o["shape_error"]), native=_native_quick(py))
            continue
        log = dict()
        for k_, v_ in o["log"]:
            log.setdefault(k_, []).append(v_)
        ctx.ob("C07.shapes" + sfx, "c", o["shapes"], "z3(conformability)", time.time() - t0, "all products conformable for every n, m >= 1; results (n,1), (n,n), (m,1)" + pc)
        ch = log.get("cholesky", [{}])
        ctx.ob("C07.pre.cholesky" + sfx, "e", len(ch) == 1 and all(log.get("S_symmetric", [False])) and all(log.get("S_is_sum_of_congruences_with_PD_term", [False])),
               "word-nf+syntactic", 0.0, "cholesky called once on S = H P H^T + R: symmetric, congruence of PSD P plus PD R (hence PD)" + pc)
        for nm, key, text in (("mean", "mean", "returned state == x + P H^T S^-1 (z - H x)"),
                              ("cov.joseph_is_posterior", "joseph_is_posterior", "returned covariance == P - P H^T S^-1 H P"),
                              ("cov.information_form", "information_form", "returned covariance * (P^-1 + H^T R^-1 H) == I (invertible P)"),
                              ("mean.information_form", "information_mean", "(P^-1 + H^T R^-1 H) x+ == P^-1 x + H^T R^-1 z: with cov.information_form, information matrix and vector are additive in independent blocks => sequential processing in any order == joint update"),
                              ("cov.symmetric", "symmetric", "returned covariance equals its transpose"),
                              ("cov.sum_of_congruences", "congruences", "returned expression is syntactically X P X^T + Y R Y^T (symmetric PSD without cancellation): %s" % o["Pp_text"]),
                              ("cov.never_larger", "never_larger", "P - P+ == (H P)^T S^-1 (H P), a congruence of a PD matrix"),
                              ("innovation", "innovation", "third result == L^-1 (z - H x)")):
            ok = bool(o[key])
            ctx.ob("C07." + nm + sfx, "e", ok, "word-nf", time.time() - t0, text + pc, cex=None if ok else dict(clause=nm, path=[str(c_) for c_, d_ in pa.conds]),
                   native=None if ok else _native_quick(py))
        lowers = [d["lower"] for d in log.get("cholesky", [])] + [d["lower"] for d in log.get("cho_solve", [])] + [d["lower"] for d in log.get("solve_triangular", [])]
        chain = (all(lowers) and len(lowers) == 3 and all(d["factor_is_cholesky_result"] for d in log.get("cho_solve", []))
                 and all(d["a_is_cholesky_result"] and d["trans"] == 0 and not d["unit_diagonal"] for d in log.get("solve_triangular", [])))
        ctx.ob("C07.innovation.lower_factor" + sfx, "e", chain, "stub-log", 0.0,
               "cholesky(lower=True), cho_solve((L, True)), solve_triangular(L, ., lower=True): the same lower factor throughout (flags %s)" % lowers + pc,
               cex=None if chain else dict(lower_flags=lowers), native=None if chain else _native_quick(py))
        over = ([d for d in log.get("cho_solve", []) if d["overwrite_b"] and d["b_is_param"]]
                + [d for d in log.get("solve_triangular", []) if d["overwrite_b"] and d["b_is_param"]]
                + [d for d in log.get("cholesky", []) if d["overwrite_a"] and d["arg_is_param"]])
        ctx.ob("C07.frame" + sfx, "f", not over and not log.get("alloc_dtype_from_argument"), "stub-log(object identity)", 0.0,
               "overwrite_* flags only on fresh intermediates, no parameter is written" + pc,
               cex=None if not over else dict(overwritten_parameter=over), native=None if not over else _native_frame(py))


# -----------------------------------------------------------------------------------------------
def _reference(x, P, z, H, R, dps=60):
    import mpmath as mp
    with mp.workdps(dps):
        X, Pm, Z, Hm, Rm = (mp.matrix(a.tolist()) for a in (x.reshape(-1, 1), P, z.reshape(-1, 1), H, R))
        S = Hm * Pm * Hm.T + Rm
        Si = S ** -1
        K = Pm * Hm.T * Si
        xp = X + K * (Z - Hm * X)
        Pp = Pm - K * Hm * Pm
        L = mp.cholesky(S)
        inn = mp.lu_solve(L, Z - Hm * X)
        return (np.array([float(v) for v in xp]), np.array([[float(Pp[i, j]) for j in range(Pp.cols)] for i in range(Pp.rows)]),
                np.array([float(v) for v in inn]))


def _case(rng, n, m, kind):
    A = rng.randn(n, n)
    if kind == "well":
        ev = 10 ** rng.uniform(-1, 1, n)
    elif kind == "ill":
        ev = 10 ** np.linspace(0, -rng.uniform(4, 9), n)
    else:
        ev = 10 ** rng.uniform(-1, 1, n)
        ev[rng.randint(0, n)] = 0.0
    if kind == "extreme":
        # prior variance / measurement noise ~ 1e17: directly observing H, P eigenvalues 1 .. 1e9, R ~ 1e-8
        ev = 10 ** np.linspace(0, 9, n)
    Q, _ = np.linalg.qr(A)
    P = (Q * ev) @ Q.T
    P = 0.5 * (P + P.T)
    H = rng.randn(m, n)
    if kind == "rank" and m > 1:
        H[-1] = H[0]
    B = rng.randn(m, m)
    R = (B @ B.T + m * np.eye(m)) * 10 ** rng.uniform(-4, 4)
    if kind == "extreme":
        H = np.eye(n)[rng.choice(n, m, replace=False)]
        R = np.eye(m) * 1e-8 * rng.uniform(0.5, 2.0)
    x, z = rng.randn(n), rng.randn(m)
    if kind == "structured" and n >= 2:
        # relative / selection measurements: rows e_a - e_b and e_a (columns whose entries cancel, zero columns, repeated states)
        H = np.zeros((m, n))
        for i in range(m):
            a, b = rng.choice(n, 2, replace=False)
            H[i, a] = 1.0
            if i % 2 == 0:
                H[i, b] = -1.0
        if m >= 2:
            a, b = rng.choice(n, 2, replace=False)
            H[0] = 0.0
            H[0, a], H[0, b] = 1.0, -1.0
            H[1] = 0.0
            H[1, a] = -1.0 if rng.rand() < 0.5 else 1.0
            H[1, b] = 1.0 if H[1, a] < 0 else 0.0
    if kind == "all_zero_residual":
        # the measurement agrees EXACTLY with the prediction (covariance analysis with noise-free fixes taken from the
        # nominal trajectory): the innovation is exactly zero, the covariance must still be updated
        z = H.dot(x)
    if kind == "zero_residual":
        # residual with exact zeros after a non-zero component (a measurement that agrees exactly with the prediction)
        e = np.zeros(m)
        e[0] = rng.randn()
        z = H.dot(x) + e
        z[1:] = H.dot(x)[1:]
    return x, P, z, H, R


def _native_quick(py):
    rng = np.random.RandomState(0)
    bad = []
    for kind in ("well", "ill", "rank", "extreme", "extreme", "extreme", "structured", "structured", "structured", "zero_residual", "zero_residual", "all_zero_residual", "all_zero_residual"):
        x, P, z, H, R = _case(rng, 5, 2, kind)
        r = _check_one(py, x, P, z, H, R)
        if r:
            bad.append(dict(kind=kind, what=r))
    x0 = np.zeros(4)
    x, P, z, H, R = _case(rng, 4, 2, "well")
    r = _check_one(py, x0, P, z, H, R)
    if r:
        bad.append(dict(kind="zero prior mean", what=r))
    return dict(reproduced=bool(bad), failures=bad[:3])


def _native_frame(py):
    rng = np.random.RandomState(1)
    x, P, z, H, R = _case(rng, 4, 2, "well")
    bad = []
    for xx in (x, np.zeros(4)):
        args = [a.copy() for a in (xx, P, z, H, R)]
        keep = [a.copy() for a in args]
        py.kalman.correct(*args)
        if any(not np.array_equal(a, b) for a, b in zip(args, keep)):
            bad.append("input modified (prior mean %s)" % ("zero" if not xx.any() else "generic"))
    return dict(reproduced=bool(bad), what=bad)


def _check_one(py, x, P, z, H, R):
    args = [a.copy() for a in (x, P, z, H, R)]
    keep = [a.copy() for a in args]
    xp, Pp, inn = py.kalman.correct(*args)
    if any(not np.array_equal(a, b) for a, b in zip(args, keep)):
        return "inputs modified"
    rx, rP, ri = _reference(x, P, z, H, R)
    scale = np.linalg.norm(P, 2)
    n = len(x)
    condS = np.linalg.cond(H @ P @ H.T + R)
    ratio = np.linalg.norm(H @ P @ H.T, 2) / np.linalg.norm(R, 2)        # prior variance in measured directions / noise
    tol = 1e-9 * max(1.0, condS * 1e-7, ratio * 1e-9)
    if np.max(np.abs(Pp - rP)) > tol * scale:
        return "covariance differs from the 60-digit posterior by %.2e (scale %.2e)" % (np.max(np.abs(Pp - rP)), scale)
    if np.max(np.abs(xp - rx)) > tol * (1 + np.max(np.abs(rx))):
        return "mean differs from the reference by %.2e" % np.max(np.abs(xp - rx))
    if np.max(np.abs(inn - ri)) > 1e-8 * (1 + np.max(np.abs(ri))) * max(1.0, condS * 1e-8):
        return "innovation differs from the lower-Cholesky whitened residual by %.2e" % np.max(np.abs(inn - ri))
    # variances in directly measured directions: relative accuracy (a form that cancels P - K H P loses them)
    dref = np.diag(rP)
    small = dref < 1e-6 * scale
    if np.any(small) and np.max(np.abs(np.diag(Pp)[small] - dref[small]) / dref[small]) > 1e-3:
        return "posterior variance in a measured direction off by a factor %.3g (reference %.3e)" % (
            np.max(np.abs(np.diag(Pp)[small] - dref[small]) / dref[small]) + 1, dref[small][0])
    if np.max(np.abs(Pp - Pp.T)) > 4 * n * np.finfo(float).eps * scale:
        return "covariance not symmetric: %.2e" % np.max(np.abs(Pp - Pp.T))
    if np.min(np.linalg.eigvalsh(0.5 * (Pp + Pp.T))) < -50 * n * np.finfo(float).eps * scale:
        return "covariance not PSD: min eigenvalue %.2e" % np.min(np.linalg.eigvalsh(0.5 * (Pp + Pp.T)))
    if np.min(np.linalg.eigvalsh(0.5 * ((P - Pp) + (P - Pp).T))) < -1e-9 * scale:
        return "posterior larger than prior"
    return None


def _standin(ctx, py):
    t0 = time.time()
    rng = np.random.RandomState(ctx.seed)
    n_cases = 40 if ctx.tier == "quick" else 400
    fails = []
    for k in range(n_cases):
        n, m = int(rng.randint(1, 13 if ctx.tier == "quick" else 21)), int(rng.randint(1, 7))
        kind = ["well", "ill", "rank", "extreme", "structured", "zero_residual", "all_zero_residual"][k % 7]
        if kind == "extreme":
            m = min(m, n)
        x, P, z, H, R = _case(rng, n, m, kind)
        if k % 7 == 0:
            x = np.zeros(n)
        r = _check_one(py, x, P, z, H, R)
        if r:
            fails.append(dict(n=n, m=m, kind=kind, what=r))
        # sequential == joint for independent blocks (any order)
        if m >= 2 and kind != "ill":
            Rd = np.diag(np.diag(R))
            xj, Pj, _ = py.kalman.correct(x, P, z, H, Rd)
            for order in (range(m), reversed(range(m))):
                xs, Ps = x, P
                for i in order:
                    xs, Ps, _ = py.kalman.correct(xs, Ps, z[i:i + 1], H[i:i + 1], Rd[i:i + 1, i:i + 1])
                sc = np.linalg.norm(P, 2)
                if np.max(np.abs(Ps - Pj)) > 1e-8 * sc * max(1, np.linalg.cond(H @ P @ H.T + Rd) * 1e-6) or np.max(np.abs(xs - xj)) > 1e-7 * (1 + np.max(np.abs(xj))) * max(1, np.linalg.cond(H @ P @ H.T + Rd) * 1e-6):
                    fails.append(dict(n=n, m=m, kind=kind, what="sequential processing differs from joint"))
                    break
    ctx.standin("C07.rt", "%d seeded float64 cases, n<=%d, m<=6: well / ill-conditioned (cond up to 1e9) / rank-deficient P and H, R scaled over 8 decades, zero prior mean every 7th: agreement with a 60-digit mpmath posterior, symmetry, PSD, never larger, inputs bit-unchanged, sequential == joint"
                % (n_cases, 12 if ctx.tier == "quick" else 20), n_cases, fails, time_s=time.time() - t0)


def replay(obligation, cex):
    py = load()
    if "frame" in obligation:
        return _native_frame(py)
    return _native_quick(py)
