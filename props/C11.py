"""C11 -- Feedforward filter equals the exact linear-Gaussian estimator of its model."""
import ast
import inspect
import math
import textwrap
import re
import time

import numpy as np
import pandas as pd
import sympy as sp
import z3

from pvx import field, loopcut
from pvx.claims import deg, eq_spec, flat, full_domain
from pvx.harness import Ob
from pvx.npproxy import alias_update as _alias_update
from pvx.loader import load, rdomain
from pvx.sym import RSym, unwrap, Concretization
from pvx.zdomain import ZCtx, ZSym, _z, zmin, zmax, OPAQUE, Opaque, Stop, ObligationFailed, explore_z
from props import sched, C10, C08
from props.C05 import make_pva, ST, BOX as BOX5, COSNN, NAMES
from spec import wgs84

MANIFEST = dict(
    category="proof",
    technique="structure proof: the cut loop of the real run_feedforward_filter executed with the Kalman payload as tracked tokens (the sequence of kalman.correct / process-matrix / propagation operations of every path is compared with the Kalman recursion of the joint model), initial covariance and result assembly executed on sympy reals, joint model blocks from C08; the scheduling obligations the model depends on (increments of exactly the step's interval selected by label, z and H at the measurement's own time) re-established from the cut loop; equality with the one-shot Gauss-Markov solution rests on the textbook theorem (assumed) and is observed by a bounded batch-solve stand-in; Bounded stand-ins shared by all properties (labelled bounded, never counted as proved): the argument-form battery of the modules under contract (batches of 1 and 1200 rows, integer-typed values, labels / columns in other orders, extra labels); where the frame analysis finds state that outlives a call (a cache, a memo) the frame obligation becomes a dynamic purity contract against pristine process states; names the proofs replace by scipy contracts are checked to be bound to the library's functions (else a differential test).",
    text="What contracts decide here is that the code IS the Kalman recursion of exactly the model the property names, for all schedules, sizes and enable masks: P0 = blockdiag(T_io diag(sigma^2) T_io^T, P_gyro, P_accel) with the sigmas on the documented output states; the joint F, G, q are the specified blocks (C08.joint.*, re-run here); on every path of the real loop body each available measurement is corrected exactly once, in sensor order, at the pva interpolated between the two neighbouring rows with the weight of its own time, with H_full = [H 0 0] placed in the INS block, the state and covariance handed from one correction to the next, then x <- Phi x, P <- Phi P Phi^T + Qd with (Phi, Qd) of the joint model at the mid-point nominal pva over exactly (time, next_time], and nothing else writes x or P; the recorded rows are the a-posteriori x, P; the result tables are error = T_oi x_ins, compensated trajectory = trajectory minus the error (metres through the nominal radii), sd = sqrt(diag(T P T^T)), sensor tables = the x blocks under the models' state names. That this recursion equals the non-recursive Gauss-Markov solution is Maybeck vol. 1 ch. 5 (assumed theorem) together with C07 and C08; the equality itself is only OBSERVED by the bounded stand-in (independent dense conditional-mean solve on short runs).",
    note="A1, A6; theorem KF recursion = conditional mean / BLUE of the linear-Gaussian model (assumed); C07 (correct is the Bayes update), C08 (process matrices), C04/C05/C06/C14 (the model's pieces) are prerequisites proved in their own checks; stand-in bound: <= 40 grid points, sampled enable masks, sigmas over 4 decades.",
)
LEVEL = "proof"
LEVEL_NOTE = MANIFEST["text"]


# =============================================================================================
# payload tokens
# =============================================================================================
class Tok:
    __array_ufunc__ = None
    _n = [0]

    def __init__(self, kind, *args):
        self.kind, self.args = kind, args

    def key(self):
        return (self.kind,) + tuple(a.key() if isinstance(a, Tok) else (id(a) if not isinstance(a, (int, float, str)) else a) for a in self.args)

    def same(self, o):
        return isinstance(o, Tok) and self.key() == o.key()

    def __matmul__(self, o): return Tok("mm", self, o)
    def __rmatmul__(self, o): return Tok("mm", o, self)
    def __add__(self, o): return Tok("add", self, o)
    def __radd__(self, o): return Tok("add", o, self)
    def transpose(self): return Tok("T", self)

    @property
    def T(self):
        return Tok("T", self)

    def __getitem__(self, k): return OPAQUE
    def __iter__(self): raise TypeError("token is not iterable")
    def __repr__(self): return "%s%s" % (self.kind, self.args if self.args else "")

    @classmethod
    def fresh(cls, kind):
        cls._n[0] += 1
        return cls(kind, cls._n[0])


class HFull:
    def __init__(self, shape):
        self.shape = shape
        self.sets = []

    def __setitem__(self, k, v):
        self.sets.append((k, v))


class PNp(sched.ZNp):
    def zeros(self, n, *a, **k):
        if isinstance(n, tuple):
            return HFull(n)
        if isinstance(n, int) and n == 0:
            return sched.EmptyArr()
        return OPAQUE


class Row:
    def __init__(self, table, idx):
        self.table, self.idx = table, idx


class TrajP(sched.TrajIndexed):
    def __init__(self, world, tag):
        object.__setattr__(self, "w", world)
        object.__setattr__(self, "tag", tag)

    @property
    def iloc(self):
        outer = self

        class IL:
            def __getitem__(self_, k):
                k = _z(k)
                outer.w.c.prove("trajectory.iloc_in_range", z3.And(k.v >= 0, k.v < outer.w.N), "%s.iloc[%s]" % (outer.tag, k.v), concretize=outer.w.concretize)
                return Row(outer.tag, k.v)
        return IL()


class SensorP(sched.MeasStub):
    def compute_matrices(self, time_, pva, error_model):
        w = self.world
        tt = _z(time_)
        present = sched.zdecide(z3.And(z3.Not(tt.inf), w.In(self.sid, tt.v)))
        rec = dict(sid=self.sid, t=tt, present=present, pva=pva, em=error_model)
        if present:
            rec.update(z=Tok.fresh("z"), H=Tok.fresh("H"), R=Tok.fresh("R"))
        self.calls.append((tt, present))
        w.log.append(("cm", rec))
        return (rec["z"], rec["H"], rec["R"]) if present else None


class SA(SensorP):
    sid = 0


class SB(SensorP):
    sid = 1


ROW_INV_DROPPED = set()      # (Houdini) candidate row invariants that turned out not to be preserved


class Hooks(C10.Hooks):
    def head(self, which, L):
        if which == "init":
            # candidate loop invariants for loop-carried row variables: a local that holds row `index` of a table on loop
            # entry (e.g. `pva_old = trajectory_nominal.iloc[0]` hoisted out of the loop) is conjectured to hold row `index`
            # at every loop head; the conjecture is assumed at the havoc and must be re-established by the body
            self.init_rows = {k: v for k, v in L.items() if isinstance(v, Row) and isinstance(k, str)}
        r_ = self._head11(which, L)
        if which == "preserved" and getattr(self, "row_inv", None):
            w, c = self.w, self.w.c
            idx1, _ = self._state(L)
            for k, table in self.row_inv.items():
                v = L.get(k)
                okv = isinstance(v, Row) and v.table == table
                c.prove("loop.preserved.row_invariant[%s]" % k, z3.And(z3.BoolVal(bool(okv)), v.idx == idx1 if okv else z3.BoolVal(False)),
                        "`%s` is row `index` of the %s table again at the next loop head" % (k, table), concretize=w.concretize)
        return r_

    def havoc(self, L):
        d = super().havoc(L)
        self.row_inv = {}
        idx_h, _ = self.pre[0], None
        for k, v in getattr(self, "init_rows", {}).items():
            if k in ROW_INV_DROPPED or k not in self.roles["stored"]:
                continue
            r0, _m = self.w.c.check(v.idx != 0)
            if r0 == z3.unsat:                      # held row 0 == row `index` on entry
                d[k] = Row(v.table, self.pre[0])
                self.row_inv[k] = v.table
        self.x0, self.P0 = Tok.fresh("x"), Tok.fresh("P")
        ct = self.roles["correct_targets"]            # names unpacked from kalman.correct: (state, covariance, innovation)
        self.xname, self.Pname = (ct[0], ct[1]) if len(ct) >= 2 else (None, None)
        if self.xname is None:
            raise Concretization("cannot identify the state / covariance variables (targets of kalman.correct)")
        d[self.xname], d[self.Pname] = self.x0, self.P0
        self.w.log = []
        return d

    def _head11(self, which, L):
        if which != "preserved":
            return super().head(which, L)
        w, c = self.w, self.w.c
        idx0, mi0, _, _ = self.pre
        idx1, mi1 = self._state(L)
        ev = w.log
        cms = [r for (k, r) in ev if k == "cm"]
        cors = [r for (k, r) in ev if k == "correct"]
        props = [r for (k, r) in ev if k == "process"]
        interps = [r for (k, r) in ev if k == "interp"]
        present = [r for r in cms if r["present"]]
        # --- corrections: once per available measurement, chained, in sensor order -------------------
        ok = len(cors) == len(present)
        x, P = self.x0, self.P0
        for r, cr in zip(present, cors):
            hf = cr["H"]
            key = hf.sets[0][0] if isinstance(hf, HFull) and len(hf.sets) == 1 else None
            ok_h = (key is not None and hf.sets[0][1] is r["H"] and isinstance(key, tuple) and key[0] == slice(None)
                    and isinstance(key[1], slice) and key[1].start is None and key[1].step is None and key[1].stop is self.em.n_states
                    and isinstance(hf.shape, tuple) and len(hf.shape) == 2 and hf.shape[1] is self.n_states_tok)
            ok = ok and ok_h and cr["x"] is x and cr["P"] is P and cr["z"] is r["z"] and cr["R"] is r["R"]
            x, P = cr["out"][0], cr["out"][1]
        c.prove("recursion.corrections_chained", z3.BoolVal(bool(ok)),
                "kalman.correct called once per available measurement (%d/%d), x and P handed on, z/H/R of that sensor, H_full = zeros((len(z), n_states)) with H written to [:, inertial_block]" % (len(cors), len(present)))
        c.prove("recursion.H_in_ins_block", z3.BoolVal(bool(ok) or not present),
                "H is written to columns slice(error_model.n_states) of a zero matrix with n_states = len(P) columns")
        # --- measurement pva: interpolated between rows index, index+1 with the weight of the stamp ------
        for r in cms:
            p = r["pva"]
            ok_p = isinstance(p, Tok) and p.kind == "interp" and isinstance(p.args[0], Row) and isinstance(p.args[1], Row) and p.args[0].table == "trajectory" and p.args[1].table == "trajectory"
            c.prove("recursion.measurement_pva_rows", z3.BoolVal(bool(ok_p)), "measurement pva = _interpolate_pva(trajectory.iloc[index], trajectory.iloc[index + 1], alpha)")
            if ok_p:
                al = p.args[2]
                c.prove("recursion.measurement_pva_weight",
                        z3.And(p.args[0].idx == idx0, p.args[1].idx == idx0 + 1, al.v * (w.Tt(idx0 + 1) - w.Tt(idx0)) == w.Mt(mi0) - w.Tt(idx0)),
                        "rows index, index+1 and alpha = (stamp - times[index]) / (times[index+1] - times[index])", concretize=w.concretize)
                c.prove("recursion.measurement_in_current_interval", z3.And(w.Mt(mi0) >= w.Tt(idx0), w.Mt(mi0) < w.Tt(idx0 + 1)),
                        "a stamp is used in the iteration whose row interval [times[index], times[index+1]) contains it (weight in [0, 1))", concretize=w.concretize)
        # --- recorded row is the a-posteriori state ---------------------------------------------------------
        tl, oth = sched.times_list(L, self.roles)
        recorded = [L[k][0] for k in oth if len(L[k]) == 1]
        if recorded:
            c.prove("recursion.recorded_state_is_posterior", z3.BoolVal(len(recorded) == 2 and any(v is x for v in recorded) and any(v is P for v in recorded)),
                    "the recorded state / covariance rows are x, P after this iteration's corrections")
        # --- propagation ---------------------------------------------------------------------------------------
        xf, Pf = L[self.xname], L[self.Pname]
        progressed = len(props) > 0
        if progressed:
            pr = props[0]
            mods = [L[k] for k in self.roles["models"]]
            ok_args = (len(props) == 1 and pr["em"] is self.em and pr["gm"] is mods[0] and pr["am"] is mods[1])
            pav = pr["pva"]
            ok_mid = (isinstance(pav, Tok) and pav.kind == "interp" and isinstance(pav.args[0], Row) and pav.args[0].table == "nominal" and pav.args[1].table == "nominal"
                      and isinstance(pav.args[2], float) and pav.args[2] == 0.5)
            c.prove("recursion.process_model_arguments", z3.BoolVal(bool(ok_args and ok_mid)),
                    "process matrices of THE filter's error / gyro / accel models at _interpolate_pva(nominal.iloc[index], nominal.iloc[next_index], 0.5)")
            if ok_mid:
                c.prove("recursion.process_interval", z3.And(pav.args[0].idx == idx0, pav.args[1].idx == idx1, _z(pr["dt"]).v == w.Tt(idx1) - w.Tt(idx0)),
                        "mid-point over exactly (times[index], times[next_index]], time_delta = their difference", concretize=w.concretize)
            Phi, Qd = pr["out"]
            want_x = Tok("mm", Phi, x)
            want_P = Tok("add", Tok("mm", Tok("mm", Phi, P), Tok("T", Phi)), Qd)
            c.prove("recursion.time_update", z3.BoolVal(isinstance(xf, Tok) and isinstance(Pf, Tok) and xf.same(want_x) and Pf.same(want_P)),
                    "x <- Phi x, P <- Phi P Phi^T + Qd applied to the a-posteriori x, P; got x=%r" % (xf,))
            if pr.get("with_inc"):
                c.prove("recursion.readings_average", z3.BoolVal(pr["gyro"] is not None and pr["accel"] is not None), "average readings from the increments batch")
        else:
            c.prove("recursion.no_propagation_without_progress", z3.BoolVal(xf is x and Pf is P and idx1 is not None),
                    "an iteration that only drains a further stamp leaves x, P as the corrections produced them")
            c.prove("recursion.no_progress_means_same_row", idx1 == idx0, "", concretize=w.concretize)
        return super().head(which, L)


def scenario(py, code, mode, with_inc):
    F = py.filters
    c = ZCtx()
    n_s = dict(none=0, one=1, two=2)[mode]
    w = sched.World(c, n_s)
    c.assume(w.N >= 2, "at least two rows")
    sensors = [SA(w), SB(w)][:n_s]
    hooks = Hooks(w, sensors, func=F.run_feedforward_filter)
    hooks.batches = []
    cap = sched.BunchCapture()

    class MS(sched.ModelStub):
        scale_misal_modelled = False
    gm, am = MS(w, "gyro"), MS(w, "accel")

    class EMs(Opaque):
        n_states = Tok("n_ins")
    em = EMs()
    hooks.em = em

    class Inc(sched.IncTable):
        @property
        def loc(self_):
            class L_:
                def __getitem__(self__, k):
                    b = sched.IncBatch(w, k.start, k.stop, kind="loc")
                    hooks.batches.append(b)
                    return b
            return L_()

    def interp(a, b, alpha):
        t_ = Tok("interp", a, b, alpha if isinstance(alpha, (ZSym, float)) else alpha)
        w.log.append(("interp", t_))
        return t_

    def process(pva, gyro, accel, dt, e_, g_, a_):
        out = (Tok.fresh("Phi"), Tok.fresh("Qd"))
        w.log.append(("process", dict(pva=pva, gyro=gyro, accel=accel, dt=dt, em=e_, gm=g_, am=a_, out=out, with_inc=with_inc)))
        return out

    class KS:
        @staticmethod
        def correct(x, P, z, H, R):
            out = (Tok.fresh("x+"), Tok.fresh("P+"), Tok.fresh("inn"))
            w.log.append(("correct", dict(x=x, P=P, z=z, H=H, R=R, out=out)))
            return out

    def zlen2(x):
        if isinstance(x, Tok):
            return Tok("len", x) if x.kind != "P0" else Tok("n_states")
        return sched.zlen(x)
    n_states_tok = Tok("n_states")
    hooks.n_states_tok = n_states_tok

    def init_cov(*a, **k):
        return Tok("P0")
    ns = dict(F.__dict__)
    _alias_update(ns, F.__dict__, dict(__pvx=hooks, np=PNp(w), pd=OPAQUE, kalman=KS, transform=OPAQUE, earth=OPAQUE, Rotation=OPAQUE, util=cap,
              inertial_sensor=None, InsErrorModel=lambda wa=True: em, _initialize_covariance=init_cov,
              _compute_error_propagation_matrices=process, _compute_feedforward_result=lambda *a, **k: (OPAQUE,) * 6,
              _interpolate_pva=interp, min=zmin, max=zmax, len=lambda x: n_states_tok if (isinstance(x, Tok) and x.kind == "P0") else zlen2(x)))
    fn, _ = loopcut.instantiate(F.run_feedforward_filter, code, ns)
    status = "ok"
    try:
        fn(TrajP(w, "nominal"), TrajP(w, "trajectory"), OPAQUE, OPAQUE, OPAQUE, OPAQUE, gyro_model=gm, accel_model=am,
           measurements=list(sensors), increments=Inc(w) if with_inc else None, time_step=ZSym(w.step), with_altitude=True)
        status = "exit"
    except Stop:
        status = "iteration"
    except ObligationFailed:
        status = "obligation-failed"
    return dict(mode=mode, status=status, obligations=list(c.obligations))


def _recursion(ctx, py):
    ROW_INV_DROPPED.clear()
    for attempt in range(3):
        agg, n_paths, statuses, errors = _recursion_pass(ctx, py)
        refuted = {re.sub(r"^loop\.preserved\.row_invariant\[(.*)\]$", r"\1", n_) for n_, v_ in agg.items()
                   if n_.startswith("loop.preserved.row_invariant[") and v_[1] != "proved"}
        if not refuted:
            break
        ROW_INV_DROPPED.update(refuted)          # the conjecture was wrong: forget it and start over without it
    t0 = time.time()
    for e_ in errors:
        ctx.add(e_)
    ctx.paths += n_paths
    ctx.ob("C11.recursion.guard.paths", "guard", (n_paths > 0 and "iteration" in statuses) if n_paths > 0 else None, "path-enumeration", 0.0,
           "%d paths of the cut loop with token payload; reached %s" % (n_paths, sorted(set(statuses))))
    for name in sorted(agg):
        rank, st, detail, cex, count = agg[name]
        ctx.add(Ob("C11.loop." + name, "c", st, "z3+token-trace", (time.time() - t0) / max(1, len(agg)), "%s [%d path instances]" % (detail, count), cex=cex,
                   native=_native_batch_quick(py) if st == "failed" else None))


def _recursion_pass(ctx, py):
    code, info = C10.build(py)
    t0 = time.time()
    agg = {}
    n_paths = 0
    statuses = []
    errors = []
    for mode in ("none", "one", "two"):
        for with_inc in (False, True):
            try:
                paths = explore_z(lambda: scenario(py, code, mode, with_inc), max_paths=600)
            except (Concretization, TypeError, AttributeError) as exc:
                errors.append(Ob("C11.recursion.engine.%s" % mode, "guard", "error", "python", 0.0, "construct outside the executable subset: %r" % (exc,)))
                continue
            for pa, res in paths:
                n_paths += 1
                statuses.append(res["status"])
                for (name, st, detail, cex) in res["obligations"]:
                    if not name.startswith("recursion."):
                        if st == "proved":
                            continue
                    cur = agg.get(name)
                    rank = dict(proved=0, undecided=1, failed=2)[st]
                    if cur is None or rank > cur[0]:
                        agg[name] = (rank, st, detail, cex, 1 if cur is None else cur[4] + 1)
                    else:
                        agg[name] = cur[:4] + (cur[4] + 1,)
    return agg, n_paths, statuses, errors


# =============================================================================================
# initial covariance and result assembly (R domain)
# =============================================================================================
def _p0(ctx, py):
    F, IS, EMm = py.filters, py.inertial_sensor, py.error_model
    t0 = time.time()
    sd = sp.symbols("pos_sd vel_sd level_sd azimuth_sd", positive=True)
    for wa in (True, False):
        for cfg in ((dict(), dict()), (dict(bias_sd=[0.1, 0, 0.2]), dict(bias_sd=0.3, scale_misal_sd=np.diag([0.01, 0, 0])))):
            tag = "%s.%s" % ("3d" if wa else "2d", "models" if cfg[0] else "nomodels")
            gm, am = IS.EstimationModel(**cfg[0]), IS.EstimationModel(**cfg[1])
            with rdomain(py):
                em = EMm.InsErrorModel(wa)
                pva = make_pva({s.name: RSym(s) for s in ST})
                P = F._initialize_covariance(pva, *[RSym(s) for s in sd], em, gm, am)
                Tio = em.transform_to_internal(pva)
            P = np.asarray(P, dtype=object)
            n = em.n_states
            ng, na = gm.n_states, am.n_states
            Tm = sp.Matrix(n, 9, flat(Tio))
            D = sp.diag(sd[0] ** 2, sd[0] ** 2, sd[0] ** 2, sd[1] ** 2, sd[1] ** 2, sd[1] ** 2, sd[2] ** 2, sd[2] ** 2, sd[3] ** 2)
            want = Tm * D * Tm.T
            ok_shape = P.shape == (n + ng + na, n + ng + na)
            bad = None
            if ok_shape:
                dm_ = dict(BOX5); dm_.update({s: (0.1, 10) for s in sd}); dom = full_domain(py, dm_)
                for i in range(n):
                    for j in range(n):
                        v = field.check_zero(sp.sympify(unwrap(P[i, j])) - want[i, j], domain=dom, seed=ctx.seed, cos_nonneg=COSNN)
                        if v.status != "proved":
                            bad = (i, j, v.status)
                            break
                    if bad:
                        break
                okb = (np.array_equal(np.asarray(P[n:n + ng, n:n + ng], dtype=float), gm.P) and np.array_equal(np.asarray(P[n + ng:, n + ng:], dtype=float), am.P)
                       and all(sp.sympify(unwrap(P[i, j])) == 0 for i in range(n + ng + na) for j in range(n + ng + na)
                               if (i < n) != (j < n) or (n <= i < n + ng) != (n <= j < n + ng)))
            ctx.ob("C11.init.P0.%s" % tag, "a", ok_shape and bad is None and okb, "field-nf", time.time() - t0,
                   "P0 = blockdiag(T_io diag(pos^2 x3, vel^2 x3, level^2 x2, azimuth^2) T_io^T, P_gyro, P_accel), off-diagonal blocks zero"
                   if (ok_shape and bad is None and okb) else "shape %s, first bad cell %s, model blocks ok: %s" % (P.shape, bad, okb if ok_shape else None),
                   cex=None if (ok_shape and bad is None and okb) else dict(cell=bad), native=None if (ok_shape and bad is None and okb) else _native_batch_quick(py))
    # placement of the sensor-model blocks for EVERY pair of model sizes 0..12 (complete enumeration: MAX_STATES = 12);
    # the INS block does not depend on those sizes (proved symbolically above)
    bad = []
    cfg_by_size = {}
    import itertools
    for nb in range(4):
        for nsm in range(10):
            bsd = [1.0 if a < nb else 0 for a in range(3)]
            sm = np.zeros(9)
            sm[:nsm] = 0.01
            cfg_by_size[nb + nsm] = dict(bias_sd=bsd, scale_misal_sd=sm.reshape(3, 3))
    pva = pd.Series([50.0, 30.0, 100.0, 3.0, -2.0, 0.5, 1.0, -2.0, 40.0], index=NAMES)
    n_cases = 0
    for wa in (True, False):
        em = EMm.InsErrorModel(wa)
        n = em.n_states
        for ng in range(13):
            for na in range(13):
                gm, am = IS.EstimationModel(**cfg_by_size[ng]), IS.EstimationModel(**cfg_by_size[na])
                gm.P[...] = np.diag(np.arange(1, ng + 1) * 1.0) if ng else gm.P
                am.P[...] = np.diag(np.arange(1, na + 1) * 10.0) if na else am.P
                P = F._initialize_covariance(pva, 1.0, 0.1, 0.1, 0.5, em, gm, am)
                n_cases += 1
                ok = (P.shape == (n + ng + na,) * 2 and np.array_equal(P[n:n + ng, n:n + ng], gm.P) and np.array_equal(P[n + ng:, n + ng:], am.P)
                      and not P[:n, n:].any() and not P[n:, :n].any() and not P[n:n + ng, n + ng:].any() and not P[n + ng:, n:n + ng].any())
                if not ok:
                    bad.append((wa, ng, na))
    ctx.ob("C11.init.P0.block_placement_all_sizes", "c", not bad, "exhaustive(%d size pairs)" % n_cases, 0.0,
           "gyro / accel covariance blocks placed contiguously after the INS block, off-diagonal blocks zero, for every pair of model sizes 0..12 and both altitude modes"
           if not bad else "fails for (with_altitude, n_gyro, n_accel) = %s" % (bad[:3],), cex=None if not bad else dict(cases=bad[:5]), native=None if not bad else dict(reproduced=True))


def _result(ctx, py):
    F, IS, EMm = py.filters, py.inertial_sensor, py.error_model
    t0 = time.time()
    for wa in (True, False):
        tag = "3d" if wa else "2d"
        gm, am = IS.EstimationModel(bias_sd=[0.1, 0, 0.2]), IS.EstimationModel(bias_sd=0.3, scale_misal_sd=np.diag([0.01, 0, 0]))
        ng, na = gm.n_states, am.n_states
        with rdomain(py):
            em = EMm.InsErrorModel(wa)
            n = em.n_states
            nom = make_pva({s.name: RSym(s) for s in ST})
            ren = {s: sp.Symbol(s.name + "_c", real=True) for s in ST}
            trj = make_pva({s.name: RSym(ren[s]) for s in ST})
            nominal = pd.DataFrame([nom.values], index=[1.5], columns=NAMES, dtype=object)
            traj = pd.DataFrame([trj.values], index=[1.5], columns=NAMES, dtype=object)
            keep = traj.copy()
            N = n + ng + na
            x = np.array([[RSym(sp.Symbol("x%d" % i, real=True)) for i in range(N)]], dtype=object)
            P = np.empty((1, N, N), dtype=object)
            for i in range(N):
                for j in range(N):
                    P[0, i, j] = RSym(sp.Symbol("P%d_%d" % (min(i, j), max(i, j)), real=True))
            out = F._compute_feedforward_result(x, P, nominal, traj, em, gm, am)
            Toi = em.transform_to_output(nom)
        tr, tsd, g, gsd, a, asd = out
        Tm = sp.Matrix(9, n, flat(Toi))
        xs = sp.Matrix([sp.Symbol("x%d" % i, real=True) for i in range(n)])
        err = Tm * xs
        M_h, N_h, rp = wgs84.principal_radii(ST[0], ST[2])
        k = 180 / sp.pi
        c = [ren[s] for s in ST]
        want = [c[0] * k - err[0] / M_h * k, c[1] * k - err[1] / rp * k, c[2] + err[2], c[3] - err[3], c[4] - err[4], c[5] - err[5],
                c[6] * k - err[6], c[7] * k - err[7], c[8] * k - err[8]]
        dm_ = dict(BOX5); dm_.update({v: BOX5[s] for s, v in ren.items()}); dom = full_domain(py, dm_)
        bad = None
        for i, nm in enumerate(NAMES):
            v = field.check_zero(sp.sympify(unwrap(tr.iloc[0][nm])) - want[i], domain=dom, seed=ctx.seed, cos_nonneg=COSNN)
            if v.status != "proved":
                bad = (nm, v.status, v.detail[:80])
        ctx.ob("C11.result.%s.compensated_trajectory" % tag, "a", bad is None, "field-nf", time.time() - t0,
               "trajectory - T_oi x_ins: lat/lon through the NOMINAL radii in degrees, alt + down, velocity and angles minus their errors" if bad is None else str(bad),
               cex=None if bad is None else dict(cell=bad), native=None if bad is None else _native_batch_quick(py))
        Ps = sp.Matrix(n, n, lambda i, j: sp.Symbol("P%d_%d" % (min(i, j), max(i, j)), real=True))
        cov = Tm * Ps * Tm.T
        bad = None
        for i, nm in enumerate(py.util.TRAJECTORY_ERROR_COLS):
            got = sp.sympify(unwrap(tsd.iloc[0][nm])) ** 2
            v = field.check_zero(got - cov[i, i], domain=dom, seed=ctx.seed, cos_nonneg=COSNN)
            if v.status != "proved":
                bad = (nm, v.status)
        ctx.ob("C11.result.%s.sd" % tag, "a", bad is None, "field-nf", time.time() - t0, "trajectory_sd^2 = diag(T_oi P_ins T_oi^T)" if bad is None else str(bad))
        okb = (list(g.columns) == gm.states and list(a.columns) == am.states and list(gsd.columns) == gm.states and list(asd.columns) == am.states
               and all(unwrap(g.iloc[0, i]) == sp.Symbol("x%d" % (n + i), real=True) for i in range(ng))
               and all(unwrap(a.iloc[0, i]) == sp.Symbol("x%d" % (n + ng + i), real=True) for i in range(na))
               and all(sp.simplify(sp.sympify(unwrap(gsd.iloc[0, i])) ** 2 - sp.Symbol("P%d_%d" % (n + i, n + i), real=True)) == 0 for i in range(ng))
               and all(sp.simplify(sp.sympify(unwrap(asd.iloc[0, i])) ** 2 - sp.Symbol("P%d_%d" % (n + ng + i, n + ng + i), real=True)) == 0 for i in range(na)))
        ctx.ob("C11.result.%s.sensor_tables" % tag, "a", okb, "symbolic-execution", 0.0, "gyro / accel tables are the x blocks under the models' state names, their sd the square roots of the P diagonal")
        same = all(p is q for p, q in zip(traj.values.reshape(-1), keep.values.reshape(-1)))
        idx_ok = all(list(tb.index) == [1.5] for tb in (tr, tsd, g, gsd, a, asd))
        ctx.ob("C11.result.%s.frame_and_index" % tag, "f", same and idx_ok, "object-identity", 0.0, "the computed trajectory argument is not modified; every table indexed by the result times")


# =============================================================================================
# bounded stand-in: one-shot (non-recursive) Gauss-Markov solution
# =============================================================================================
def _interp_pva(a, b, alpha):
    from scipy.spatial.transform import Rotation
    r = Rotation.concatenate([Rotation.from_euler("xyz", a[6:9], True), Rotation.from_euler("xyz", b[6:9], True)]).mean([1 - alpha, alpha]).as_euler("xyz", True)
    return np.concatenate([(1 - alpha) * a[:6] + alpha * b[:6], r])


def _batch_case(py, seed, wa, gcfg, acfg, scale, step, n_rows=25):
    """returns (max normalised disagreement, details)"""
    from scipy.linalg import expm
    IS, EMm, M, F = py.inertial_sensor, py.error_model, py.measurements, py.filters
    rng = np.random.RandomState(seed)
    dt = 0.4
    traj, imu = py.sim.generate_sine_velocity_motion(dt, n_rows * dt, [55.0, 37.0, 100.0], [3.0, 2.0, 0.0], [2.0, 2.0, 0.0 if not wa else 0.2], 30.0)
    inc = py.strapdown.compute_increments_from_imu(imu, "rate")
    gm, am = IS.EstimationModel(**gcfg), IS.EstimationModel(**acfg)
    times = traj.index.values
    mt = times[3::4] + dt * rng.choice([0.0, 0.3, 0.5], len(times[3::4]))
    mt = mt[mt < times[-1]]
    pos = pd.DataFrame(dict(lat=55.0 + 1e-5 * rng.randn(len(mt)), lon=37.0 + 1e-5 * rng.randn(len(mt)), alt=100 + rng.randn(len(mt))), index=mt)
    vt = times[5::6]
    vel = pd.DataFrame(dict(VN=3 + 0.1 * rng.randn(len(vt)), VE=2 + 0.1 * rng.randn(len(vt)), VD=0.1 * rng.randn(len(vt))), index=vt)
    meas = [M.Position(pos, 2.0 * scale), M.NedVelocity(vel, 0.2 * scale)]
    sds = (5.0 * scale, 0.3 * scale, 0.2 * scale, 0.5 * scale)
    need_inc = gm.scale_misal_modelled or am.scale_misal_modelled
    res = F.run_feedforward_filter(traj, traj, *sds, gm, am, measurements=meas, increments=inc if need_inc else None, time_step=step, with_altitude=wa)
    grid = res.trajectory.index.values
    em = EMm.InsErrorModel(wa)
    ni, ng, na = em.n_states, gm.n_states, am.n_states
    n = ni + ng + na
    T0 = em.transform_to_internal(traj.iloc[0])
    P0 = np.zeros((n, n))
    P0[:ni, :ni] = T0 @ np.diag([sds[0] ** 2] * 3 + [sds[1] ** 2] * 3 + [sds[2] ** 2] * 2 + [sds[3] ** 2]) @ T0.T
    P0[ni:ni + ng, ni:ni + ng] = gm.P
    P0[ni + ng:, ni + ng:] = am.P
    # transition / noise between consecutive grid nodes, built from the PUBLIC model pieces and quadrature-free Van Loan of our own
    Phis, Qds = [], []
    nodes = list(grid) + [times[-1]] if grid[-1] != times[-1] else list(grid)
    for a_, b_ in zip(grid[:-1], grid[1:]):
        pa, pb = traj.loc[a_].values.astype(float), traj.loc[b_].values.astype(float)
        pm = pd.Series(_interp_pva(pa, pb, 0.5), index=traj.columns)
        Fii, Fig, Fia = em.system_matrices(pm)
        if need_inc:
            batch = inc.loc[np.nextafter(a_, b_):b_]
            gav = batch[["theta_x", "theta_y", "theta_z"]].sum(axis=0).values / (b_ - a_)
            aav = batch[["dv_x", "dv_y", "dv_z"]].sum(axis=0).values / (b_ - a_)
        else:
            gav = aav = None
        Fm = np.zeros((n, n))
        Fm[:ni, :ni] = Fii
        Fm[:ni, ni:ni + ng] = Fig @ gm.output_matrix(gav)
        Fm[:ni, ni + ng:] = Fia @ am.output_matrix(aav)
        Fm[ni:ni + ng, ni:ni + ng] = gm.F
        Fm[ni + ng:, ni + ng:] = am.F
        Gm = np.zeros((n, gm.n_output_noises + am.n_output_noises + gm.n_noises + am.n_noises))
        k = 0
        for blk in (Fig @ gm.J * gm.v, Fia @ am.J * am.v):
            Gm[:ni, k:k + blk.shape[1]] = blk
            k += blk.shape[1]
        Gm[ni:ni + ng, k:k + gm.n_noises] = gm.G * gm.q
        k += gm.n_noises
        Gm[ni + ng:, k:] = am.G * am.q
        h = b_ - a_
        VL = expm(np.block([[Fm, Gm @ Gm.T], [np.zeros((n, n)), -Fm.T]]) * h)
        Phis.append(VL[:n, :n])
        Qds.append(VL[:n, n:] @ VL[:n, :n].T)
    # joint prior covariance of the node states x_0..x_K (non-recursive use: one dense matrix)
    K = len(grid)
    C = np.zeros((K * n, K * n))
    Pk = [P0]
    for k in range(K - 1):
        Pk.append(Phis[k] @ Pk[-1] @ Phis[k].T + Qds[k])
    for i in range(K):
        C[i * n:(i + 1) * n, i * n:(i + 1) * n] = Pk[i]
        Tm = np.eye(n)
        for j in range(i + 1, K):
            Tm = Phis[j - 1] @ Tm
            C[j * n:(j + 1) * n, i * n:(i + 1) * n] = Tm @ Pk[i]
            C[i * n:(i + 1) * n, j * n:(j + 1) * n] = (Tm @ Pk[i]).T
    # measurements: each is attached to the grid node whose row interval holds it (the filter's time grid)
    rows, zs, Rs, stamps = [], [], [], []
    all_t = sorted(set(mt) | set(vt))
    for tm in all_t:
        if not (times[0] <= tm < times[-1]):
            continue
        i = int(np.searchsorted(times, tm, side="right") - 1)
        node_t = times[i]
        if node_t not in grid:
            return None
        ki = int(np.where(grid == node_t)[0][0])
        alpha = (tm - times[i]) / (times[i + 1] - times[i])
        pv = pd.Series(_interp_pva(traj.iloc[i].values.astype(float), traj.iloc[i + 1].values.astype(float), alpha), index=traj.columns)
        for m in meas:
            ret = m.compute_matrices(tm, pv, em)
            if ret is None:
                continue
            z, H, R = ret
            Hf = np.zeros((len(z), K * n))
            Hf[:, ki * n:ki * n + ni] = H
            rows.append(Hf); zs.append(np.asarray(z, dtype=float)); Rs.append(R); stamps.append((ki, tm))
    worst = 0.0
    what = ""
    xs_f = None
    for kq in range(K):
        sel = [j for j, (ki, tm) in enumerate(stamps) if ki <= kq]
        Ckk = C[kq * n:(kq + 1) * n, kq * n:(kq + 1) * n]
        if sel:
            Hs = np.vstack([rows[j] for j in sel])
            zz = np.concatenate([zs[j] for j in sel])
            Rb = np.zeros((len(zz), len(zz)))
            o = 0
            for j in sel:
                Rb[o:o + len(zs[j]), o:o + len(zs[j])] = Rs[j]
                o += len(zs[j])
            S = Hs @ C @ Hs.T + Rb
            Cxz = C[kq * n:(kq + 1) * n] @ Hs.T
            xk = Cxz @ np.linalg.solve(S, zz)
            Pkq = Ckk - Cxz @ np.linalg.solve(S, Cxz.T)
        else:
            xk, Pkq = np.zeros(n), Ckk
        Toi = em.transform_to_output(traj.loc[grid[kq]])
        err = Toi @ xk[:ni]
        sd = np.sqrt(np.maximum(np.diag(Toi @ Pkq[:ni, :ni] @ Toi.T), 0))
        got_sd = res.trajectory_sd.loc[grid[kq]].values.astype(float)
        # the error the filter removed, read back exactly as it applied it (nominal radii, degrees)
        tq, rq = traj.loc[grid[kq]], res.trajectory.loc[grid[kq]]
        rn_, _, rp_ = py.earth.principal_radii(tq.lat, tq.alt)
        d_tr = np.array([(tq.lat - rq.lat) * rn_ / py.transform.RAD_TO_DEG, (tq.lon - rq.lon) * rp_ / py.transform.RAD_TO_DEG, -(tq.alt - rq.alt),
                         tq.VN - rq.VN, tq.VE - rq.VE, tq.VD - rq.VD, tq.roll - rq.roll, tq.pitch - rq.pitch, tq.heading - rq.heading], dtype=float)
        for nm, got, want, sc in (("sd", got_sd, sd, np.maximum(sd, 1e-12)), ("error", d_tr, err, np.maximum(sd, 1e-12))):
            dev = float(np.max(np.abs(got - want) / sc))
            if dev > worst:
                worst, what = dev, "%s at t=%g" % (nm, grid[kq])
        if ng:
            dev = float(np.max(np.abs(res.gyro.loc[grid[kq]].values - xk[ni:ni + ng]) / np.maximum(np.sqrt(np.diag(Pkq)[ni:ni + ng]), 1e-300)))
            if dev > worst:
                worst, what = dev, "gyro estimates at t=%g" % grid[kq]
    return worst, what


def _native_batch_quick(py):
    r = _batch_case(py, 0, True, dict(bias_sd=1e-4, bias_walk=1e-6), dict(bias_sd=1e-2, noise=1e-2), 1.0, 0.8)
    if r is None:
        return dict(reproduced=None, note="grid does not hold every measurement node")
    return dict(reproduced=r[0] > 1e-3, max_deviation_in_sd=r[0], where=r[1])


def _standin(ctx, py):
    t0 = time.time()
    cfgs = [(dict(), dict()), (dict(bias_sd=1e-4), dict(bias_sd=1e-2)), (dict(bias_sd=1e-4, bias_walk=1e-6), dict(bias_sd=1e-2, noise=1e-2)),
            (dict(bias_sd=[1e-4, 0, 2e-4], noise=[1e-3, 0, 1e-3], bias_walk=[1e-6, 0, 0]), dict(bias_sd=1e-2, noise=[0, 1e-2, 1e-2], bias_walk=[0, 1e-4, 0])),
            (dict(bias_sd=1e-4, scale_misal_sd=np.diag([1e-3, 0, 1e-3])), dict(bias_sd=1e-2, bias_walk=1e-4, noise=1e-2))]
    fails = []
    n = 0
    runs = [(k, wa, sc, st) for k in range(len(cfgs)) for wa in (True, False) for sc, st in ((1.0, 0.8), (0.01, 0.4))]
    if ctx.tier == "quick":
        runs = runs[::3] + [(2, True, 1.0, 0.8), (3, True, 1.0, 0.8)]
    for k, wa, sc, st in runs:
        n += 1
        try:
            r = _batch_case(py, ctx.seed + k, wa, cfgs[k][0], cfgs[k][1], sc, st)
        except Exception as exc:
            fails.append(dict(config=k, with_altitude=wa, what="raised %r" % (exc,)))
            continue
        if r is None:
            continue
        if r[0] > 1e-3:
            fails.append(dict(config=k, with_altitude=wa, scale=sc, time_step=st, max_deviation_in_sd=r[0], where=r[1]))
    ctx.standin("C11.rt", "%d short runs (25 rows at 0.4 s, position + NED velocity stamps on and between rows, %d enable-mask configurations incl. walk + noise and scale/misalignment, sigmas scaled by 1 and 0.01, both altitude modes): error estimates, standard deviations and gyro estimates against a one-shot dense conditional-mean (Gauss-Markov) solve built from the public model pieces and our own Van Loan discretisation; agreement to 1e-3 of the standard deviation"
                % (n, len(cfgs)), n, fails, time_s=time.time() - t0)


def run(ctx):
    py = load()
    ctx.under_contract("pyins.filters._initialize_covariance", "pyins.filters._compute_error_propagation_matrices (C08.joint)",
                       "pyins.filters.run_feedforward_filter (loop body as Kalman recursion; cut shared with C10)", "pyins.filters._compute_feedforward_result")
    ctx.trust("theorem: the Kalman recursion is the conditional mean / BLUE of the linear-Gaussian model (Maybeck vol. 1 ch. 5) -- assumed", "C07, C08 obligations (prerequisites)", "z3, sympy")
    ctx.assume("equality with the one-shot Gauss-Markov solution is inferred from the structure proof plus the theorem; it is observed only by the bounded stand-in")
    ctx.guard(_p0, ctx, py)
    ctx.guard(C08._joint, ctx, py)
    ctx.guard(_recursion, ctx, py)
    ctx.guard(_model_inputs, ctx, py)
    ctx.guard(_result, ctx, py)
    from props import helpers
    helpers.interpolate_pva(ctx, py, "C11")
    ctx.guard(_standin, ctx, py)

    # the recursion applies kalman.correct by its contract (C07): contract re-established here (algebra + float stand-in)
    from props import C07 as _C07
    ctx.guard(_C07._algebra, ctx, py)
    ctx.guard(_C07._standin, ctx, py)
    # the joint model is assembled from the sensor models' layout (C14's contract), re-established here on a few masks
    from props import C14 as _C14
    ctx.guard(_C14.layout_subset, ctx, py, "C11")
    from props import helpers as _helpers_l
    ctx.guard(_helpers_l.lean_induction, ctx, "C11", ['Pvx.loop_rule'])
    ctx.guard(_helpers_l.lean_psd, ctx, "C11", ['Pvx.congr_psd', 'Pvx.predict_psd', 'Pvx.joseph_psd'])
    # one measurement update IS the Gauss-Markov (weighted least squares) estimate: mean solves the normal equations, covariance
    # inverts the information matrix (lean/Kalman.lean).  What stays assumed of "KF recursion = one-shot Gauss-Markov solution" is the
    # probabilistic part: the time update is the push-forward of a Gaussian under an affine map with independent noise, and
    # conditioning on independent measurement blocks can be done block after block.
    ctx.guard(_helpers_l.lean_kalman, ctx, "C11", ['Pvx.gain_form_solves_normal_equations', 'Pvx.information_form', 'Pvx.joseph_eq_short'])
    # frame of the modules under contract (no state kept between calls, arguments left alone): same analysis as C19
    from props import C19 as _C19
    ctx.guard(_C19.frame_obligations, ctx, py, "C11", {'kalman', 'util', 'filters'})


def _model_inputs(ctx, py):
    """The model whose estimator the filter is: the process matrices of the step (time, next_time] are built from the
    increments of exactly that interval, and z, H are evaluated at the measurement's own time.  These are scheduling
    obligations of the cut loop (shared with C10), re-established here on the scenarios with increments supplied."""
    from props import C10
    from pvx.zdomain import explore_z, Concretization
    code, info = C10.build(py)
    t0 = time.time()
    agg = {}
    n_paths = 0
    for mode in ("one", "two"):
        try:
            paths = explore_z(lambda: C10.scenario(py, code, mode, True), max_paths=600)
        except Concretization as exc:
            ctx.add(Ob("C11.engine.model_inputs.%s" % mode, "guard", "error", "python", 0.0, "construct outside the executable subset: %r" % (exc,)))
            continue
        for pa, res in paths:
            n_paths += 1
            for (name, st, detail, cex) in res["obligations"]:
                if not name.startswith(("loop.batch.", "loop.measurement.own_time", "loop.measurement.each_sensor_once")):
                    continue
                cur = agg.get(name)
                rank = dict(proved=0, undecided=1, failed=2)[st]
                if cur is None or rank > cur[0]:
                    agg[name] = (rank, st, detail, cex, 1 if cur is None else cur[4] + 1)
                else:
                    agg[name] = cur[:4] + (cur[4] + 1,)
    ctx.paths += n_paths
    need = ["loop.batch.label_slice", "loop.batch.one_per_propagation", "loop.measurement.own_time"]
    for name in need:
        if name not in agg and n_paths > 0:       # (no path at all: the engine error above already says so)
            ctx.ob("C11.model." + name, "c", False, "z3", 0.0, "no such obligation was generated on %d paths (vacuous)" % n_paths)
    for name in sorted(agg):
        rank, st, detail, cex, count = agg[name]
        ctx.add(Ob("C11.model." + name, "c", st, "z3(cut loop)", (time.time() - t0) / max(1, len(agg)), "%s [%d path instances]" % (detail, count), cex=cex))


def replay(obligation, cex):
    py = load()
    return _native_batch_quick(py)
