"""Argument-form battery (bounded, native): the value of a call depends on the VALUES it is given, not on how they are typed,
stored or batched.

The symbolic claims run each function on one canonical form (float cells, canonical label order, two stacked rows).  What
they cannot see is a slip that is wrong for one FORM only: columns taken by position instead of by label, a buffer that
inherits an integer dtype, `squeeze()` on a batch of one, a fast path for long batches.  This battery runs the real
functions on the forms a caller may legitimately use and compares with the plain form:

  row-wise vectorised functions   batches of 1, 2, 3 and 1200 rows against row-by-row scalar calls; integer-valued rows as
                                  int64 and as Python-int lists; Fortran-ordered, strided and read-only arrays
  labelled arguments (Pva, tables) labels stored in another order, extra labels / columns, an all-integer table

Every entry belongs to a module; a property re-runs the entries of the modules it puts under contract
(`forms_obligations`).  Bounded: listed forms x listed functions, deterministic inputs.
"""
from __future__ import annotations

import time

import numpy as np
import pandas as pd

NAMES = ["lat", "lon", "alt", "VN", "VE", "VD", "roll", "pitch", "heading"]
PERM = ["heading", "pitch", "roll", "VD", "VE", "VN", "alt", "lon", "lat"]
N_LONG = 1200


def _flat(x):
    """labelled flattening: {key: float}; labelled containers are keyed by label so that storage order does not matter"""
    out = {}
    if isinstance(x, pd.DataFrame):
        for c in x.columns:
            for i, v in zip(x.index, x[c].values):
                out[("df", str(i), str(c))] = float(v)
    elif isinstance(x, pd.Series):
        for i, v in zip(x.index, x.values):
            out[("s", str(i))] = float(v)
    elif isinstance(x, (tuple, list)):
        for k, v in enumerate(x):
            for kk, vv in _flat(v).items():
                out[(k,) + kk] = vv
    elif x is None:
        out[("none",)] = 0.0
    else:
        a = np.asarray(x, dtype=float)
        for idx in np.ndindex(a.shape):
            out[("a",) + idx] = float(a[idx])
        out[("shape",)] = float(hash(a.shape) % 1000003)
    return out


def _cmp(ref, got, rtol=1e-12, only_ref_keys=True):
    a, b = _flat(ref), _flat(got)
    for k, v in a.items():
        if k not in b:
            return "entry %s missing" % (k,)
        w = b[k]
        if not (v == w or (np.isnan(v) and np.isnan(w)) or abs(v - w) <= rtol * max(abs(v), abs(w), 1e-300)):
            return "entry %s: %r instead of %r" % (k, w, v)
    if not only_ref_keys and set(b) - set(a):
        return "unexpected entries %s" % sorted(set(b) - set(a))[:3]
    return None


def _rows(seed, n, kinds):
    """deterministic rows: kinds per column in {'lat','lon','alt','v','ang','unit','pos'}"""
    rng = np.random.RandomState(seed)
    cols = []
    for k in kinds:
        if k == "lat":
            c = rng.uniform(-80, 80, n)
        elif k == "lon":
            c = rng.uniform(-179, 179, n)
        elif k == "alt":
            c = rng.uniform(-100, 9000, n)
        elif k == "v":
            c = rng.uniform(-50, 50, n)
        elif k == "ang":
            c = rng.uniform(-85, 85, n)
        elif k == "pos":
            c = rng.uniform(1.0, 9.0, n)
        else:
            c = rng.uniform(-1, 1, n)
        cols.append(c)
    return np.column_stack(cols)


def rowwise(fails, name, f, arg_kinds, int_ok=True, n_long=N_LONG, kw=None, squeeze1d=()):
    """f(*arrays) is vectorised over the first axis; argument i is built from _rows(kinds_i) ((n,) if one kind given as str)"""
    kw = kw or {}

    def build(n, as_int=False, seed=11):
        args = []
        for j, kinds in enumerate(arg_kinds):
            one_d = isinstance(kinds, str)
            a = _rows(seed + j, n, [kinds] if one_d else list(kinds))
            if as_int:
                a = np.round(a)
            a = a[:, 0] if one_d else a
            args.append(a)
        return args

    def call(args):
        return f(*args, **kw)

    def row(out, i):
        if isinstance(out, tuple):
            return tuple(np.asarray(o)[i] for o in out)
        return np.asarray(out)[i]
    try:
        long_args = build(n_long)
        ref = {i: call([a[i] for a in long_args]) for i in (0, 1, 2, 7, n_long - 1)}
        # an EMPTY batch is a batch: same trailing dimensions as a batch of one, leading dimension 0
        try:
            one = call([a[:1] for a in long_args])
            emp = call([a[:0] for a in long_args])
            for o1, o0 in zip(one if isinstance(one, tuple) else (one,), emp if isinstance(emp, tuple) else (emp,)):
                if np.shape(o0) != (0,) + np.shape(o1)[1:]:
                    fails.append(dict(function=name, form="empty batch", what="shape %s, a batch of one has %s" % (np.shape(o0), np.shape(o1))))
                    break
        except Exception as exc:
            fails.append(dict(function=name, form="empty batch", what="raised %r" % (exc,)))
        for n in (1, 2, 3, n_long):
            out = call([a[:n] for a in long_args])
            lead = np.asarray(out[0] if isinstance(out, tuple) else out).shape[:1]
            if lead != (n,):
                fails.append(dict(function=name, form="batch of %d rows" % n, what="leading dimension %s instead of %d" % (lead, n)))
                continue
            for i in [i_ for i_ in ref if i_ < n]:
                d = _cmp(ref[i], row(out, i))
                if d:
                    fails.append(dict(function=name, form="batch of %d rows" % n, what="row %d differs from the scalar call: %s" % (i, d)))
                    break
        base = [a[:3] for a in long_args]
        want = call(base)
        variants = {
            "Python lists": [a.tolist() for a in base],
            "Fortran-ordered arrays": [np.asfortranarray(a) for a in base],
            "strided (every second row of a longer array)": [np.repeat(a, 2, axis=0)[::2] for a in base],
        }
        ro = [a.copy() for a in base]
        for a in ro:
            a.setflags(write=False)
        variants["read-only arrays"] = ro
        for label, args in variants.items():
            try:
                d = _cmp(want, call(args))
            except Exception as exc:
                d = "raised %r" % (exc,)
            if d:
                fails.append(dict(function=name, form=label, what=d))
        if int_ok:
            ints = build(3, as_int=True, seed=23)
            want_i = call([a.astype(float) for a in ints])
            for label, args in (("int64 arrays", [a.astype(np.int64) for a in ints]),
                                ("lists of Python ints", [a.astype(np.int64).tolist() for a in ints])):
                try:
                    d = _cmp(want_i, call(args), rtol=1e-9)
                except Exception as exc:
                    d = "raised %r" % (exc,)
                if d:
                    fails.append(dict(function=name, form=label, what=d + " (same whole-number values given as float64 taken as reference)"))
    except Exception as exc:
        fails.append(dict(function=name, form="battery", what="raised %r" % (exc,)))


def labelled(fails, name, f, make_plain, variants, rtol=1e-12):
    """f(*args): `make_plain()` gives the canonical arguments, `variants` maps a label to a function producing the same
    values in another storage form"""
    try:
        want = f(*make_plain())
    except Exception as exc:
        fails.append(dict(function=name, form="canonical", what="raised %r" % (exc,)))
        return
    for label, mk in variants.items():
        try:
            d = _cmp(want, f(*mk()), rtol=rtol)
        except Exception as exc:
            d = "raised %r" % (exc,)
        if d:
            fails.append(dict(function=name, form=label, what=d))


def _pva(vals=None, order=None, extra=False, as_int=False, name=0.0):
    vals = [55.0, 37.0, 120.0, 3.0, -2.0, 1.0, 4.0, -3.0, 50.0] if vals is None else vals
    s = pd.Series(np.array(vals, dtype=np.int64 if as_int else float), index=NAMES, name=name)
    if order:
        s = s[order]
    if extra:
        s = pd.concat([pd.Series([123.0], index=["odometer"]), s.astype(float), pd.Series([7.0], index=["flag"])])
        s.name = name
    return s


def _traj(n=4, order=None, extra=False):
    t = np.arange(n) * 0.5
    base = np.array([55.0, 37.0, 120.0, 3.0, -2.0, 1.0, 4.0, -3.0, 50.0])
    data = base + np.outer(np.arange(n), [1e-4, 2e-4, 1.0, 0.1, 0.2, -0.05, 0.5, -0.25, 3.0])
    df = pd.DataFrame(data, index=pd.Index(t, name="time"), columns=NAMES)
    if order:
        df = df[order]
    if extra:
        df.insert(0, "odometer", 123.0)
        df["flag"] = 7.0
    return df


def battery(py):
    """{module: (evaluations, failures)}"""
    E, T, U, S, EM, IS, SIM = py.earth, py.transform, py.util, py.strapdown, py.error_model, py.inertial_sensor, py.sim
    res = {}

    def section(mod):
        res.setdefault(mod, [0, []])
        return res[mod][1]

    # ---- earth ---------------------------------------------------------------------------------------
    f = section("earth")
    for nm in ("principal_radii", "gravity", "gravity_n", "curvature_matrix"):
        rowwise(f, "earth." + nm, getattr(E, nm), ["lat", "alt"])
    rowwise(f, "earth.rate_n", E.rate_n, ["lat"])
    rowwise(f, "earth.gravitation_ecef", E.gravitation_ecef, [("lat", "lon", "alt")])
    res["earth"][0] += 6 * 12
    # ---- transform -----------------------------------------------------------------------------------
    f = section("transform")
    rowwise(f, "transform.lla_to_ecef", T.lla_to_ecef, [("lat", "lon", "alt")])
    rowwise(f, "transform.ecef_to_lla", lambda r: T.ecef_to_lla(r), [("pos", "pos", "pos")], kw=None, int_ok=False)
    # whole-metre ECEF points given as integers (GNSS receivers log them so)
    try:
        r_int = np.array([[2850000, 2200000, 5250000], [-4650000, 2560000, -3530000], [6378137, 0, 0]], dtype=np.int64)
        d = _cmp(T.ecef_to_lla(r_int.astype(float)), T.ecef_to_lla(r_int), rtol=1e-12) or _cmp(T.ecef_to_lla(r_int.astype(float)), T.ecef_to_lla(r_int.tolist()), rtol=1e-12)
        if d:
            f.append(dict(function="transform.ecef_to_lla", form="whole-metre ECEF points as int64 / Python ints", what=d))
    except Exception as exc:
        f.append(dict(function="transform.ecef_to_lla", form="whole-metre ECEF points as int64 / Python ints", what="raised %r" % (exc,)))
    rowwise(f, "transform.mat_en_from_ll", T.mat_en_from_ll, ["lat", "lon"])
    rowwise(f, "transform.mat_from_rph", T.mat_from_rph, [("ang", "ang", "lon")])
    rowwise(f, "transform.mat_to_rph", lambda rph: T.mat_to_rph(T.mat_from_rph(rph)), [("ang", "ang", "lon")], int_ok=False)
    rowwise(f, "transform.perturb_lla", T.perturb_lla, [("lat", "lon", "alt"), ("v", "v", "v")])
    rowwise(f, "transform.compute_lla_difference", T.compute_lla_difference, [("lat", "lon", "alt"), ("lat", "lon", "alt")])
    # lla_to_ned: rows against a fixed origin
    org = np.array([55.0, 37.0, 100.0])
    rowwise(f, "transform.lla_to_ned", lambda lla: T.lla_to_ned(np.atleast_2d(lla), org)[0] if np.ndim(lla) == 1 or (isinstance(lla, list) and not isinstance(lla[0], list)) else T.lla_to_ned(lla, org),
            [("lat", "lon", "alt")], int_ok=False)
    try:
        one = T.lla_to_ned(np.array([[55.001, 37.002, 130.0]]), org)
        two = T.lla_to_ned(np.array([[55.001, 37.002, 130.0], [55.0, 37.0, 100.0]]), org)
        if np.shape(one) != (1, 3) or not np.array_equal(np.asarray(one)[0], np.asarray(two)[0]):
            f.append(dict(function="transform.lla_to_ned", form="batch of 1 row", what="shape %s / values differ from the first row of a batch of two" % (np.shape(one),)))
        one_df = T.lla_to_ned(pd.DataFrame([[55.001, 37.002, 130.0]], index=[3.0], columns=["lat", "lon", "alt"]), org)
        if list(one_df.index) != [3.0] or not np.array_equal(one_df.values[0], np.asarray(two)[0]):
            f.append(dict(function="transform.lla_to_ned", form="one-row DataFrame", what="differs from the array form"))
    except Exception as exc:
        f.append(dict(function="transform.lla_to_ned", form="batch of 1 row / one-row DataFrame", what="raised %r" % (exc,)))
    # labelled: compute_state_difference / resample_state / translate_trajectory
    labelled(f, "transform.compute_state_difference(Series)", T.compute_state_difference,
             lambda: (_pva(), _pva([55.001, 37.002, 130.0, 2.0, -1.0, 0.5, 3.0, -2.0, 49.0])),
             {"labels in another order (both)": lambda: (_pva(order=PERM), _pva([55.001, 37.002, 130.0, 2.0, -1.0, 0.5, 3.0, -2.0, 49.0], order=PERM)),
              "labels in another order (second only)": lambda: (_pva(), _pva([55.001, 37.002, 130.0, 2.0, -1.0, 0.5, 3.0, -2.0, 49.0], order=PERM))})
    labelled(f, "transform.compute_state_difference(DataFrame)", T.compute_state_difference, lambda: (_traj(6), _traj(6).iloc[::2] * 1.0),
             {"columns in another order": lambda: (_traj(6, order=PERM), (_traj(6).iloc[::2] * 1.0)[PERM])})
    labelled(f, "transform.resample_state", T.resample_state, lambda: (_traj(5), np.array([0.25, 1.0, 1.75])),
             {"columns in another order": lambda: (_traj(5, order=PERM), np.array([0.25, 1.0, 1.75])),
              "attitude columns interleaved": lambda: (_traj(5, order=["pitch", "lat", "roll", "VN", "heading", "lon", "VE", "alt", "VD"]), np.array([0.25, 1.0, 1.75])),
              "query times as a list": lambda: (_traj(5), [0.25, 1.0, 1.75])})
    try:
        tr = _traj(5)
        none = T.resample_state(tr, np.array([]))
        onept = T.resample_state(tr, np.array([1.25]))
        three = T.resample_state(tr, np.array([0.25, 1.25, 1.75]))
        if len(none) != 0 or list(none.columns) != list(tr.columns):
            f.append(dict(function="transform.resample_state", form="no query time", what="%d rows, columns %s" % (len(none), list(none.columns))))
        d = _cmp(three.iloc[1:2], onept, only_ref_keys=False)
        if d:
            f.append(dict(function="transform.resample_state", form="one query time", what="differs from the same time among three: %s" % d))
        ends = T.resample_state(tr, np.array([tr.index[0], tr.index[-1]]))
        d = _cmp(tr.iloc[[0, -1]].drop(columns=["roll", "pitch", "heading"]), ends.drop(columns=["roll", "pitch", "heading"]), rtol=1e-13, only_ref_keys=False)
        if d:
            f.append(dict(function="transform.resample_state", form="query exactly at the first and last sample", what=d))
    except Exception as exc:
        f.append(dict(function="transform.resample_state", form="empty / single / end-point queries", what="raised %r" % (exc,)))
    res["transform"][0] += 9 * 12 + 10 + 4
    # ---- util ----------------------------------------------------------------------------------------
    f = section("util")
    rowwise(f, "util.skew_matrix", U.skew_matrix, [("v", "v", "v")])
    rowwise(f, "util.to_180_range", U.to_180_range, ["lon"])
    mats = lambda n: np.stack([T.mat_from_rph(r) for r in _rows(5, n, ["ang", "ang", "lon"])])
    M1 = np.array([[1.0, 0.2, -0.3], [0.1, 0.9, 0.4], [-0.2, 0.05, 1.1]])
    for at in (False, True):
        try:
            vs = _rows(9, N_LONG, ["v", "v", "v"])
            for n in (1, 2, 3, N_LONG):
                out = U.mv_prod(M1, vs[:n], at)
                want = np.array([(M1.T if at else M1) @ v for v in vs[:n]])
                if np.shape(out) != want.shape or not np.allclose(out, want, rtol=1e-13, atol=1e-13):
                    f.append(dict(function="util.mv_prod(at=%s)" % at, form="one matrix, batch of %d vectors" % n, what="shape %s, largest difference %s" % (np.shape(out), float(np.max(np.abs(np.asarray(out).reshape(want.shape) - want))) if np.size(out) == want.size else "n/a")))
            ms = mats(N_LONG)
            for n in (1, 2, N_LONG):
                out = U.mv_prod(ms[:n], vs[:n], at)
                want = np.array([(m.T if at else m) @ v for m, v in zip(ms[:n], vs[:n])])
                if np.shape(out) != want.shape or not np.allclose(out, want, rtol=1e-13, atol=1e-13):
                    f.append(dict(function="util.mv_prod(at=%s)" % at, form="%d matrices x %d vectors" % (n, n), what="shape %s" % (np.shape(out),)))
            for n in (1, 2, 3):
                out = U.mm_prod(M1, ms[:n], at)
                want = np.array([(M1.T if at else M1) @ m for m in ms[:n]])
                if np.shape(out) != want.shape or not np.allclose(out, want, rtol=1e-13, atol=1e-13):
                    f.append(dict(function="util.mm_prod(at=%s)" % at, form="one matrix x stack of %d" % n, what="shape %s / values" % (np.shape(out),)))
                out = U.mm_prod(ms[:n], ms[:n][::-1], at)
                want = np.array([(a.T if at else a) @ b for a, b in zip(ms[:n], ms[:n][::-1])])
                if np.shape(out) != want.shape or not np.allclose(out, want, rtol=1e-13, atol=1e-13):
                    f.append(dict(function="util.mm_prod(at=%s)" % at, form="stack x stack of %d" % n, what="shape %s / values" % (np.shape(out),)))
        except Exception as exc:
            f.append(dict(function="util.mv_prod / mm_prod", form="battery", what="raised %r" % (exc,)))
    # module-level column constants are what the documentation says, whatever has been called before
    consts = dict(LLA_COLS=["lat", "lon", "alt"], VEL_COLS=["VN", "VE", "VD"], RPH_COLS=["roll", "pitch", "heading"], NED_COLS=["north", "east", "down"],
                  RATE_COLS=["rate_x", "rate_y", "rate_z"], GYRO_COLS=["gyro_x", "gyro_y", "gyro_z"], ACCEL_COLS=["accel_x", "accel_y", "accel_z"],
                  THETA_COLS=["theta_x", "theta_y", "theta_z"], DV_COLS=["dv_x", "dv_y", "dv_z"])
    for k, v in consts.items():
        if hasattr(U, k) and list(getattr(U, k)) != v:
            f.append(dict(function="util.%s" % k, form="constant", what="is %s, documented %s" % (list(getattr(U, k)), v)))
    res["util"][0] += 2 * 12 + 30 + len(consts)
    # ---- error_model ---------------------------------------------------------------------------------
    f = section("error_model")
    x9 = np.arange(1, 10) * 1e-3
    for wa in (True, False):
        em = EM.InsErrorModel(wa)
        x = x9[:em.n_states]
        forms_pva = {"labels in another order": lambda: (_pva(order=PERM),), "extra labels": lambda: (_pva(extra=True),),
                     "all-integer state": None}
        for meth in ("system_matrices", "transform_to_output", "transform_to_internal", "position_error_jacobian", "ned_velocity_error_jacobian",
                     "body_velocity_error_jacobian"):
            g = getattr(em, meth)
            labelled(f, "error_model.InsErrorModel(%s).%s" % (wa, meth), g, lambda: (_pva(),),
                     {"labels in another order": lambda: (_pva(order=PERM),), "extra labels": lambda: (_pva(extra=True),),
                      "one-row is row of a permuted table": lambda: (_traj(3, order=PERM).iloc[0] * 1.0 if False else _pva(order=PERM[::-1][2:] + PERM[::-1][:2]),)})
            labelled(f, "error_model.InsErrorModel(%s).%s" % (wa, meth), lambda p: g(p),
                     lambda: (_pva([55, 37, 120, 3, -2, 1, 4, -3, 50]),), {"all-integer state (int64 Series)": lambda: (_pva([55, 37, 120, 3, -2, 1, 4, -3, 50], as_int=True),)}, rtol=1e-12)
        for meth in ("system_matrices", "transform_to_output", "transform_to_internal"):
            g = getattr(em, meth)
            labelled(f, "error_model.InsErrorModel(%s).%s(table)" % (wa, meth), g, lambda: (_traj(4),),
                     {"columns in another order": lambda: (_traj(4, order=PERM),), "extra columns": lambda: (_traj(4, extra=True),)})
            try:
                one = g(_traj(1))
                ref = g(_traj(4))
                a1 = [np.asarray(o) for o in (one if isinstance(one, tuple) else (one,))]
                a4 = [np.asarray(o) for o in (ref if isinstance(ref, tuple) else (ref,))]
                if any(x_.shape != (1,) + y_.shape[1:] or not np.array_equal(x_[0], y_[0]) for x_, y_ in zip(a1, a4)):
                    f.append(dict(function="error_model.InsErrorModel(%s).%s(table)" % (wa, meth), form="one-row table", what="differs from the first row of a longer table"))
            except Exception as exc:
                f.append(dict(function="error_model.InsErrorModel(%s).%s(table)" % (wa, meth), form="one-row table", what="raised %r" % (exc,)))
        labelled(f, "error_model.InsErrorModel(%s).correct_pva" % wa, lambda p, xx: em.correct_pva(p, xx), lambda: (_pva(), x),
                 {"labels in another order": lambda: (_pva(order=PERM), x)})
        labelled(f, "error_model.propagate_errors(%s)" % wa,
                 lambda tr, e: EM.propagate_errors(tr, e, np.array([1e-5, 2e-5, -1e-5]), np.array([1e-2, -1e-2, 2e-2]), with_altitude=wa),
                 lambda: (_traj(5), pd.Series(np.arange(1, 10) * 0.1, index=["north", "east", "down", "VN", "VE", "VD", "roll", "pitch", "heading"])),
                 {"trajectory columns in another order": lambda: (_traj(5, order=PERM), pd.Series(np.arange(1, 10) * 0.1, index=["north", "east", "down", "VN", "VE", "VD", "roll", "pitch", "heading"])),
                  "error labels in another order": lambda: (_traj(5), pd.Series(np.arange(1, 10) * 0.1, index=["north", "east", "down", "VN", "VE", "VD", "roll", "pitch", "heading"])[::-1])})
        # propagate_errors is causal: the first rows for a long trajectory are the rows for the trajectory cut after them
        try:
            e0 = pd.Series(np.arange(1, 10) * 0.1, index=["north", "east", "down", "VN", "VE", "VD", "roll", "pitch", "heading"])
            args = (np.array([1e-5, 2e-5, -1e-5]), np.array([1e-2, -1e-2, 2e-2]))
            long_ = EM.propagate_errors(_traj(6), e0, *args, with_altitude=wa)
            for n in (2, 3):
                short = EM.propagate_errors(_traj(6).iloc[:n], e0, *args, with_altitude=wa)
                d = _cmp(tuple(x_.iloc[:n] for x_ in long_), tuple(short), only_ref_keys=False)
                if d:
                    f.append(dict(function="error_model.propagate_errors(%s)" % wa, form="trajectory of %d rows" % n, what="differs from the first rows of a longer one: %s" % d))
        except Exception as exc:
            f.append(dict(function="error_model.propagate_errors(%s)" % wa, form="short trajectories", what="raised %r" % (exc,)))
    res["error_model"][0] += 2 * 44
    # ---- strapdown ------------------------------------------------------------------------------------
    f = section("strapdown")
    rng = np.random.RandomState(3)
    t = np.cumsum(rng.randint(3, 30, 8)) / 256.0
    vals = np.hstack([0.3 * rng.randn(8, 3), 9.8 * rng.randn(8, 3)])
    cols = ["gyro_x", "gyro_y", "gyro_z", "accel_x", "accel_y", "accel_z"]

    def imu(order=None, extra=False, v=vals):
        df = pd.DataFrame(v, index=pd.Index(t, name="time"), columns=cols)
        if order:
            df = df[order]
        if extra:
            df.insert(0, "temperature", 21.5)
        return df
    for st in ("rate", "increment"):
        labelled(f, "strapdown.compute_increments_from_imu(%s)" % st, lambda d: S.compute_increments_from_imu(d, st), lambda: (imu(),),
                 {"accelerometer columns first": lambda: (imu(order=cols[3:] + cols[:3]),), "columns interleaved": lambda: (imu(order=[cols[k] for k in (3, 0, 4, 1, 5, 2)]),),
                  "axes z, y, x": lambda: (imu(order=cols[2::-1] + cols[:2:-1]),), "an extra column first": lambda: (imu(extra=True),)})
        labelled(f, "strapdown.compute_increments_from_imu(%s)" % st, lambda d: S.compute_increments_from_imu(d, st), lambda: (imu(v=np.round(vals)),),
                 {"all-integer readings (int64 table)": lambda: (imu(v=np.round(vals).astype(np.int64)),)})
    # short records: every increment row depends on its own and the neighbouring sample only, so the first rows of a long
    # record are what a record cut after them gives; one sample gives an empty table with the documented columns
    for st in ("rate", "increment"):
        try:
            long_ = S.compute_increments_from_imu(imu(), st)
            for n in (2, 3):
                short = S.compute_increments_from_imu(imu().iloc[:n], st)
                d = _cmp(long_.iloc[:n - 1], short, only_ref_keys=False)
                if d:
                    f.append(dict(function="strapdown.compute_increments_from_imu(%s)" % st, form="record of %d samples" % n, what="differs from the first rows of a longer record: %s" % d))
            one = S.compute_increments_from_imu(imu().iloc[:1], st)
            if len(one) != 0 or list(one.columns) != list(long_.columns):
                f.append(dict(function="strapdown.compute_increments_from_imu(%s)" % st, form="record of 1 sample", what="%d rows, columns %s" % (len(one), list(one.columns))))
        except Exception as exc:
            f.append(dict(function="strapdown.compute_increments_from_imu(%s)" % st, form="short records", what="raised %r" % (exc,)))
    res["strapdown"][0] += 12 + 8
    # ---- inertial_sensor ---------------------------------------------------------------------------------
    f = section("inertial_sensor")

    def est(bias_sd, scale):
        m = IS.EstimationModel(bias_sd=bias_sd, scale_misal_sd=scale)
        m.reset_estimates()
        xs = np.arange(1, m.n_states + 1) * 1e-3
        m.update_estimates(xs * 0.25)
        m.update_estimates(xs * 0.75)
        inc = pd.DataFrame(np.arange(12.0).reshape(4, 3) * 1e-3 + 1e-3, index=[0.1, 0.2, 0.35, 0.4], columns=["theta_x", "theta_y", "theta_z"])
        dt = pd.Series([0.1, 0.1, 0.15, 0.05], index=inc.index)
        return m.get_estimates(), m.correct_increments(dt, inc), np.asarray(m.bias, dtype=float), np.asarray(m.transform, dtype=float)
    labelled(f, "inertial_sensor.EstimationModel(update, get, correct)", est, lambda: ([1.0, 0.0, 1.0], [[1.0, 0, 0], [0, 0, 1.0], [0, 0, 0]]),
             {"bias_sd / scale_misal_sd written with integers": lambda: ([1, 0, 1], [[1, 0, 0], [0, 0, 1], [0, 0, 0]]),
              "int64 arrays": lambda: (np.array([1, 0, 1]), np.array([[1, 0, 0], [0, 0, 1], [0, 0, 0]]))})
    labelled(f, "inertial_sensor.EstimationModel(scalar sd)", est, lambda: (1.0, 1.0), {"scalar sd written as integers": lambda: (1, 1)})
    # Parameters.apply: short and long records, non-symmetric transform
    Tm = np.array([[1.01, 0.002, -0.003], [0.004, 0.99, 0.005], [-0.006, 0.007, 1.02]])
    b = np.array([0.01, -0.02, 0.03])
    for st in ("rate", "increment"):
        try:
            tt = np.cumsum(np.full(N_LONG, 0.01))
            rd = pd.DataFrame(_rows(4, N_LONG, ["v", "v", "v"]), index=tt, columns=["gyro_x", "gyro_y", "gyro_z"])
            long_ = IS.Parameters(Tm, b).apply(rd, st)
            short = IS.Parameters(Tm, b).apply(rd.iloc[:5], st)
            if not np.allclose(long_.values[:5], short.values, rtol=1e-13, atol=1e-15):
                f.append(dict(function="inertial_sensor.Parameters.apply(%s)" % st, form="record of %d samples" % N_LONG,
                              what="first rows differ from the same rows processed as a short record (largest difference %.3g)" % float(np.max(np.abs(long_.values[:5] - short.values)))))
            # (Parameters.apply takes the three axes position by position -- array_like of shape (n, 3) -- by its contract;
            #  apply_imu_parameters selects the triads by label)
            full = pd.DataFrame(np.hstack([rd.values[:6], rd.values[:6][:, ::-1]]), index=tt[:6], columns=["gyro_x", "gyro_y", "gyro_z", "accel_x", "accel_y", "accel_z"])
            ref_imu = IS.apply_imu_parameters(full, st, IS.Parameters(Tm, b), IS.Parameters(Tm.T, -b))
            perm_imu = IS.apply_imu_parameters(full[["accel_z", "gyro_y", "accel_x", "gyro_z", "accel_y", "gyro_x"]], st, IS.Parameters(Tm, b), IS.Parameters(Tm.T, -b))
            d = _cmp(ref_imu, perm_imu)
            if d:
                f.append(dict(function="inertial_sensor.apply_imu_parameters(%s)" % st, form="columns in another order", what=d))
        except Exception as exc:
            f.append(dict(function="inertial_sensor.Parameters.apply(%s)" % st, form="battery", what="raised %r" % (exc,)))
    # EstimationModel.correct_increments: a long batch equals the same rows corrected in pieces and one at a time (a size threshold
    # that switches the algorithm must not change the values), with a NON-symmetric transform estimate and non-zero bias
    try:
        m = IS.EstimationModel(bias_sd=[1.0, 1.0, 1.0], scale_misal_sd=np.ones((3, 3)))
        m.reset_estimates()
        m.update_estimates(np.array([1e-3, -2e-3, 3e-3, 0.010, 0.002, -0.003, 0.004, -0.020, 0.005, -0.006, 0.007, 0.030])[:m.n_states])
        tt = np.cumsum(np.full(N_LONG, 0.01))
        inc = pd.DataFrame(_rows(4, N_LONG, ["v", "v", "v"]) * 1e-2, index=tt, columns=["theta_x", "theta_y", "theta_z"])
        dts = pd.Series(np.full(N_LONG, 0.01), index=tt)
        whole = m.correct_increments(dts, inc)
        for size in (1, 7, 256, 257, 500):
            pieces = pd.concat([m.correct_increments(dts.iloc[k:k + size], inc.iloc[k:k + size]) for k in range(0, N_LONG, size)] if size > 1
                               else [m.correct_increments(dts.iloc[k:k + 1], inc.iloc[k:k + 1]) for k in range(0, N_LONG, 97)])
            ref_rows = whole.loc[pieces.index]
            if not np.allclose(ref_rows.values, pieces.values, rtol=1e-12, atol=1e-16):
                f.append(dict(function="inertial_sensor.EstimationModel.correct_increments", form="batch of %d rows against the same rows in pieces of %d" % (N_LONG, size),
                              what="largest difference %.3g" % float(np.max(np.abs(ref_rows.values - pieces.values)))))
                break
        one = m.correct_increments(float(dts.iloc[300]), inc.iloc[300])
        if not np.allclose(np.asarray(one, dtype=float), whole.iloc[300].values, rtol=1e-12, atol=1e-16):
            f.append(dict(function="inertial_sensor.EstimationModel.correct_increments", form="row 300 of a batch of %d against the single-row (Series) call" % N_LONG,
                          what="largest difference %.3g" % float(np.max(np.abs(np.asarray(one, dtype=float) - whole.iloc[300].values)))))
    except Exception as exc:
        f.append(dict(function="inertial_sensor.EstimationModel.correct_increments", form="long batch", what="raised %r" % (exc,)))
    res["inertial_sensor"][0] += 10 + 6
    # ---- sim -------------------------------------------------------------------------------------------
    f = section("sim")
    err = pd.Series(np.arange(1, 10) * 0.1, index=["north", "east", "down", "VN", "VE", "VD", "roll", "pitch", "heading"])
    labelled(f, "sim.perturb_pva", SIM.perturb_pva, lambda: (_pva(), err),
             {"state labels in another order": lambda: (_pva(order=PERM), err), "error labels in another order": lambda: (_pva(), err[::-1])})
    res["sim"][0] += 3
    return {m: (n, fl) for m, (n, fl) in res.items()}


_CACHE = {}


def forms_obligations(ctx, py, prefix, modules):
    """one bounded stand-in per module under contract: `<prefix>.rt.forms.<module>`"""
    t0 = time.time()
    if id(py) not in _CACHE:
        _CACHE[id(py)] = battery(py)
    bat = _CACHE[id(py)]
    dt = time.time() - t0
    for m in sorted(bat):
        if m not in modules:
            continue
        n, fails = bat[m]
        ctx.standin("%s.rt.forms.%s" % (prefix, m), "argument forms of the %s functions (batches of 1 / 2 / 3 / %d rows against scalar calls, int64 and Python-int values, lists, Fortran / strided / "
                    "read-only arrays, labels and columns in other orders, extra labels): same values as the plain form" % (m, N_LONG), n, fails, time_s=dt / max(1, len(bat)))
